//! Exec for the endpoint specifications: interprets a script (application calls, peer frames,
//! environment events) against one real endpoint (client or listener) and a scripted peer that
//! speaks raw frames over an in-memory duplex.  Lock-step: the tokio clock is paused, so after each
//! event a 1 us virtual sleep returns exactly when every task of the endpoint is idle; everything
//! the endpoint wrote is then logged, finished calls are logged, and a `Quiesce` mark is written.
use crate::absval::bytes;
use crate::perfjson::*;
use crate::wire::*;
use fe2o3_amqp::acceptor::{ConnectionAcceptor, LinkAcceptor, LinkEndpoint, ListenerConnectionHandle, ListenerSessionHandle, SessionAcceptor};
use fe2o3_amqp::connection::{Connection, ConnectionHandle};
use fe2o3_amqp::link::delivery::{Delivery, DeliveryFut};
use fe2o3_amqp::link::receiver::CreditMode;
use fe2o3_amqp::link::{Receiver, SendError, Sender};
use fe2o3_amqp::session::{Session, SessionHandle};
use fe2o3_amqp::Sendable;
use fe2o3_amqp_types::definitions::{ReceiverSettleMode, SenderSettleMode};
use fe2o3_amqp_types::messaging::{Body, Header, Message, Outcome, Properties};
use fe2o3_amqp_types::messaging::message::__private::Serializable;
use fe2o3_amqp_types::performatives::Performative;
use serde_amqp::primitives::Binary;
use serde_amqp::Value;
use serde_json::{json, Value as J};
use std::collections::HashMap;
use std::sync::atomic::{AtomicU64, Ordering};
use std::future::Future;
use std::time::Duration;
use tokio::io::{AsyncReadExt, AsyncWriteExt, DuplexStream};
use tokio::sync::oneshot;
use tokio::task::JoinHandle;

pub static PROGRESS: AtomicU64 = AtomicU64::new(0);

pub enum Conn { C(ConnectionHandle<()>), L(ListenerConnectionHandle) }
pub enum Sess { C(SessionHandle<()>), L(ListenerSessionHandle) }
type Dlv = Delivery<Body<Value>>;
type Fut = DeliveryFut<Result<Outcome, SendError>>;

/// What a finished call hands back.
enum Back {
    None,
    Conn(Conn),
    ConnAndSess(Conn, String, Option<Sess>),
    SessAndSender(String, Sess, String, Option<Sender>),
    SessAndReceiver(String, Sess, String, Option<Receiver>),
    SessAndLink(String, Sess, String, Option<LinkEndpoint>),
    Sess(String, Sess),
    Sender(String, Sender),
    SenderAndFut(String, Sender, u64, Option<Fut>),
    FutOnly(u64, Option<Fut>),
    Receiver(String, Receiver),
    ReceiverAndDelivery(String, Receiver, Option<Dlv>),
    SessAndTxn(String, Sess, String, Option<fe2o3_amqp::transaction::OwnedTransaction>),
    TxnAndSender(String, fe2o3_amqp::transaction::OwnedTransaction, String, Sender),
    Txn(String, Option<fe2o3_amqp::transaction::OwnedTransaction>),
    /// a link the application detached without closing and kept for resumption
    DetachedS(String, fe2o3_amqp::link::sender::DetachedSender),
    DetachedR(String, fe2o3_amqp::link::receiver::DetachedReceiver),
}

/// A future that forwards at most `left` polls to `inner` and then stays pending without touching it.
struct PollLimited<F> { inner: std::pin::Pin<Box<F>>, left: usize }
impl<F: std::future::Future> std::future::Future for PollLimited<F> {
    type Output = F::Output;
    fn poll(mut self: std::pin::Pin<&mut Self>, cx: &mut std::task::Context<'_>) -> std::task::Poll<F::Output> {
        if self.left == 0 { return std::task::Poll::Pending; }
        self.left -= 1;
        self.inner.as_mut().poll(cx)
    }
}
struct Call { id: u64, op: String, scope: String, h: JoinHandle<(J, Back)>, cancel: Option<oneshot::Sender<()>> }

#[derive(Default)]
struct SaslSt { hash: crate::scram::Hash, peer_cfirst_bare: String, peer_cnonce: String, peer_sfirst: String, eut_mech: String, eut_cfirst: String, eut_cfinal: String, eut_sfirst: String }
trait Pipe: Sized { fn pipe<R>(self, f: impl FnOnce(Self) -> R) -> R { f(self) } }
impl<T> Pipe for T {}

pub struct Exec {
    pub log: Vec<J>,
    t0: tokio::time::Instant,
    cpu_mark: u64,
    alloc_mark: usize,
    side_listener: bool,
    peer: Option<DuplexStream>,
    sasl: SaslSt,
    txns: HashMap<String, fe2o3_amqp::transaction::OwnedTransaction>,
    txn_ids: Vec<Vec<u8>>,
    ctl_links: Vec<(u16, u32)>,
    buf: Vec<u8>,
    eof_logged: bool,
    sh: Shifts,
    conn: Option<Conn>,
    sessions: HashMap<String, Sess>,
    senders: HashMap<String, Sender>,
    receivers: HashMap<String, Receiver>,
    held: HashMap<String, Vec<Dlv>>,
    futs: HashMap<u64, Fut>,
    calls: Vec<Call>,
    next_call: u64,
    /// (from_eut, channel, handle) -> the EUT is the sender of that link
    roles: HashMap<(bool, u16, u32), bool>,
    /// session name -> EUT's outgoing channel (client side), in begin order
    pending_begins: Vec<String>,
    eut_channel: HashMap<String, u16>,
    /// delivery-ids the EUT used, per EUT channel, in order
    eut_dids: HashMap<u16, Vec<u32>>,
    /// transfer frames seen from the EUT per channel and the EUT's initial next-outgoing-id
    eut_frames: HashMap<u16, u32>,
    eut_noi: HashMap<u16, u32>,
    /// per (channel, handle) running payload offset of the EUT's current outgoing delivery: (message id, offset)
    out_progress: HashMap<(u16, u32), (i64, usize, Option<u32>)>,
    /// messages the application asked to send, per link name, in order (m, len)
    sent_queue: HashMap<String, Vec<(u32, usize)>>,
    link_of_handle: HashMap<(u16, u32), String>,
    pending_attach: Vec<String>,
    msg_shapes: HashMap<u32, (usize, String)>,
    /// script label of a link -> its AMQP link name
    names: HashMap<String, String>,
    /// per link name: (initial delivery count, deliveries started) of the EUT as sender
    eut_sender_dc: HashMap<String, (u32, u32)>,
    /// delivery-tags the endpoint has used on each of its sending links, in order of first appearance
    eut_tags: HashMap<String, Vec<Vec<u8>>>,
    peer_link_name: HashMap<(u16, u32), String>,
    gates: HashMap<String, std::sync::Arc<fe2o3_amqp::verif::Gate>>,
    /// call ids of send_batchable calls, in order
    batch_calls: Vec<u64>,
    calls_scope: HashMap<u64, String>,
    link_sess: HashMap<String, String>,
    /// await_outcome call id -> the send_batchable call it resolves
    await_of: HashMap<u64, u64>,
    /// what a well-behaved scripted peer knows about its own side (only used to resolve symbolic fields of *input* events and to withhold guarded transfers)
    pv: PeerView,
}

pub fn class_of(dbg: &str) -> String {
    dbg.split(|c: char| c == '(' || c == ' ' || c == '{').next().unwrap_or("").to_string()
}
fn err_json<E: std::fmt::Debug>(e: &E) -> J {
    let d = format!("{e:?}");
    // error condition symbols mentioned in the error (peer-supplied ones are Custom(Symbol("...")))
    let cond = d.find("Symbol(\"").map(|i| { let r = &d[i + 8..]; r[..r.find('"').unwrap_or(0)].to_string() })
        .or_else(|| d.find("condition: ").map(|i| { let r = &d[i + 11..]; r[..r.find(',').unwrap_or(r.len())].to_string() }))
        .unwrap_or_default();
    json!({"ok": false, "class": class_of(&d), "cond": cond, "idle_timeout": d.contains("IdleTimeout"), "says_conn": d.contains("ConnectionStopped") || d.starts_with("TransportError") || d.starts_with("RemoteClosed"), "says_sess": d.contains("SessionStopped") || d.contains("RemoteEnded"), "dbg": d.chars().take(220).collect::<String>()})
}
fn ok_json() -> J { json!({"ok": true, "class": "", "cond": "", "idle_timeout": false, "says_conn": false, "says_sess": false, "dbg": ""}) }

pub fn build_message(m: u32, len: usize, shape: &str) -> Message<Body<Value>> {
    let body = Binary::from(pattern(m, len));
    let mut msg: Message<Body<Value>> = match shape {
        "value" => Message::builder().body(Body::Value(fe2o3_amqp_types::messaging::AmqpValue(Value::Binary(body)))).build(),
        "data2" => { let p = pattern(m, len); let h = len / 2; Message::builder().body(Body::Data(vec![fe2o3_amqp_types::messaging::Data(Binary::from(p[..h].to_vec())), fe2o3_amqp_types::messaging::Data(Binary::from(p[h..].to_vec()))].into())).build() }
        "seq" => Message::builder().body(Body::Sequence(vec![fe2o3_amqp_types::messaging::AmqpSequence(vec![Value::Binary(body), Value::Uint(m), Value::String("x".into())])].into())).build(),
        _ => Message::builder().body(Body::Data(vec![fe2o3_amqp_types::messaging::Data(body)].into())).build(),
    };
    if shape == "all" {
        use fe2o3_amqp_types::messaging::{ApplicationProperties, DeliveryAnnotations, Footer, MessageAnnotations};
        msg.header = Some(Header { durable: true, priority: 7.into(), ttl: Some(1000), first_acquirer: true, delivery_count: 3 });
        msg.delivery_annotations = Some(DeliveryAnnotations::builder().insert("x-da", m).build());
        msg.message_annotations = Some(MessageAnnotations::builder().insert("x-ma", "v").build());
        msg.application_properties = Some(ApplicationProperties::builder().insert("k", len as u64).insert("s", "t").build());
        msg.footer = Some(Footer::builder().insert("x-f", true).build());
    }
    msg.properties = Some(Properties::builder().message_id(m as u64).build());
    if shape == "full" || shape == "value" {
        msg.header = Some(Header { durable: true, ..Default::default() });
    }
    msg
}
pub fn encode_message(msg: &Message<Body<Value>>) -> Vec<u8> {
    serde_amqp::to_vec(&Serializable(msg)).unwrap_or_default()
}
/// (message id, length, intact) of a received message
fn identify(msg: &Message<Body<Value>>) -> (i64, usize, bool) {
    let m = match msg.properties.as_ref().and_then(|p| p.message_id.as_ref()) {
        Some(fe2o3_amqp_types::messaging::MessageId::Ulong(u)) => *u as i64,
        _ => -1,
    };
    let data: Vec<u8> = match &msg.body {
        Body::Data(batch) => batch.iter().flat_map(|d| d.0.iter().copied()).collect(),
        Body::Value(v) => match &v.0 { Value::Binary(b) => b.to_vec(), _ => vec![0xfe] },
        _ => vec![0xfd],
    };
    let intact = m >= 0 && matches(m as u32, 0, &data);
    (m, data.len(), intact)
}

/// The scripted peer's own bookkeeping: per peer channel the next-outgoing-id of its begin, the transfer frames and deliveries it has written
/// and the incoming-window it last advertised; per link it sends on, its initial delivery-count, the deliveries it has started and the
/// limit (delivery-count + link-credit) of the endpoint's last flow.  Never used for a verdict.
#[derive(Default)]
struct PeerView {
    noi0: HashMap<u16, u32>, frames: HashMap<u16, u32>, dels: HashMap<u16, u32>, iw: HashMap<u16, u32>,
    sdc: HashMap<String, (u32, u32)>, limit: HashMap<String, u32>,
    inprog: HashMap<(u16, u32), u32>, skipping: std::collections::HashSet<(u16, u32)>,
    det_s: HashMap<String, fe2o3_amqp::link::sender::DetachedSender>, det_r: HashMap<String, fe2o3_amqp::link::receiver::DetachedReceiver>,
    /// the previous script event could not be executed (an answer scripted for it is withheld: "needs_prev")
    last_skipped: bool,
}

impl Exec {
    pub fn new(listener: bool) -> Self {
        Exec { log: vec![], t0: tokio::time::Instant::now(), cpu_mark: crate::mon::thread_cpu_ns(), alloc_mark: crate::mon::alloc_mark(), side_listener: listener, peer: None, sasl: SaslSt::default(), txns: HashMap::new(), txn_ids: vec![], ctl_links: vec![], buf: vec![], eof_logged: false, sh: Shifts::default(), conn: None, sessions: HashMap::new(),
               senders: HashMap::new(), receivers: HashMap::new(), held: HashMap::new(), futs: HashMap::new(), calls: vec![], next_call: 1, roles: HashMap::new(),
               pending_begins: vec![], eut_channel: HashMap::new(), eut_dids: HashMap::new(), eut_frames: HashMap::new(), eut_noi: HashMap::new(),
               out_progress: HashMap::new(), sent_queue: HashMap::new(), link_of_handle: HashMap::new(), pending_attach: vec![], msg_shapes: HashMap::new(), names: HashMap::new(), eut_sender_dc: HashMap::new(), eut_tags: HashMap::new(), peer_link_name: HashMap::new(), gates: HashMap::new(), batch_calls: vec![], calls_scope: HashMap::new(), link_sess: HashMap::new(), await_of: HashMap::new(), pv: PeerView::default() }
    }
    fn t(&self) -> u64 { tokio::time::Instant::now().duration_since(self.t0).as_millis() as u64 }
    fn emit(&mut self, mut j: J) {
        let i = self.log.len() + 1;
        j["i"] = json!(i);
        j["t"] = json!(self.t().min(1 << 30));
        self.log.push(j);
    }
    fn skip(&mut self, e: &J, why: &str) { self.pv.last_skipped = true; self.emit(json!({"ev": "Skip", "what": e["e"], "why": why})); }

    // ------------------------------------------------------------------ observation of the EUT
    async fn drain(&mut self) {
        let Some(io) = self.peer.as_mut() else { return; };
        loop {
            let mut tmp = [0u8; 65536];
            let r = {
                let fut = io.read(&mut tmp);
                tokio::pin!(fut);
                std::future::poll_fn(|cx| match fut.as_mut().poll(cx) { std::task::Poll::Ready(v) => std::task::Poll::Ready(Some(v)), std::task::Poll::Pending => std::task::Poll::Ready(None) }).await
            };
            match r {
                Some(Ok(0)) => { if !self.eof_logged { self.eof_logged = true; self.parse(); self.emit(json!({"ev": "EEof", "left": self.buf.len()})); } break; }
                Some(Ok(n)) => self.buf.extend_from_slice(&tmp[..n]),
                _ => break,
            }
        }
        self.parse();
    }
    fn parse(&mut self) {
        loop {
            if self.buf.len() >= 8 && &self.buf[..4] == b"AMQP" {
                let h: Vec<u8> = self.buf.drain(..8).collect();
                self.emit(json!({"ev": "EHeader", "proto": h[4], "ver": [h[5], h[6], h[7]]}));
                continue;
            }
            if self.buf.len() < 8 { break; }
            let size = u32::from_be_bytes(self.buf[..4].try_into().unwrap()) as usize;
            if size < 8 { let n = self.buf.len(); self.buf.clear(); self.emit(json!({"ev": "EGarbage", "n": n})); break; }
            if self.buf.len() < size { break; }
            let f: Vec<u8> = self.buf.drain(..size).collect();
            let (ftype, ch) = (f[5], u16::from_be_bytes([f[6], f[7]]));
            let body = &f[(f[4] as usize * 4).clamp(8, size)..];
            if body.is_empty() { self.emit(json!({"ev": "EFrame", "perf": "empty", "ch": ch, "size": size, "f": {}})); continue; }
            if ftype == 1 {
                let mut d = crate::scram::decode(body);
                match d["kind"].as_str().unwrap_or("") {
                    "init" => { self.sasl.eut_mech = d["mech"].as_str().unwrap_or("").to_string(); self.sasl.eut_cfirst = d["resp"].as_str().unwrap_or("").to_string(); }
                    "response" => self.sasl.eut_cfinal = d["resp"].as_str().unwrap_or("").to_string(),
                    "challenge" => self.sasl.eut_sfirst = d["data"].as_str().unwrap_or("").to_string(),
                    _ => {}
                }
                for (_, v) in d.as_object_mut().unwrap().iter_mut() { if v.is_null() { *v = json!("<none>"); } }
                d["ev"] = json!("ESasl");
                d["n"] = json!(body.len());
                self.emit(d);
                continue;
            }
            let pl = perf_len(body);
            let perf = pl.and_then(|n| serde_amqp::from_slice::<Performative>(&body[..n]).ok());
            match (perf, pl) {
                (Some(p), Some(n)) => self.eut_frame(ch, size, p, &body[n..]),
                _ => self.emit(json!({"ev": "EFrame", "perf": "undecodable", "ch": ch, "size": size, "f": {}})),
            }
        }
    }
    fn eut_frame(&mut self, ch: u16, size: usize, p: Performative, payload: &[u8]) {
        match &p {
            Performative::Begin(b) => {
                if !self.pending_begins.is_empty() { let s = self.pending_begins.remove(0); self.eut_channel.insert(s, ch); }
                self.eut_noi.insert(ch, b.next_outgoing_id);
                self.eut_frames.insert(ch, 0);
                self.eut_dids.insert(ch, vec![]);
            }
            Performative::Attach(a) => {
                let eut_sender = a.role == fe2o3_amqp_types::definitions::Role::Sender;
                self.roles.insert((true, ch, a.handle.0), eut_sender);
                self.link_of_handle.insert((ch, a.handle.0), a.name.clone());
                if eut_sender { self.eut_sender_dc.insert(a.name.clone(), (a.initial_delivery_count.unwrap_or(0), 0)); }
                if matches!(a.target.as_deref(), Some(fe2o3_amqp_types::messaging::TargetArchetype::Coordinator(_))) && eut_sender { self.ctl_links.push((ch, a.handle.0)); }
            }
            Performative::Flow(fl) => {
                // the endpoint as receiver states how far the peer may send on that link
                if let Some(h) = &fl.handle { if self.roles.get(&(true, ch, h.0)) == Some(&false) { if let Some(n) = self.link_of_handle.get(&(ch, h.0)) {
                    self.pv.limit.insert(n.clone(), fl.delivery_count.unwrap_or(0).wrapping_add(fl.link_credit.unwrap_or(0))); } } }
            }
            Performative::Transfer(t) => {
                *self.eut_frames.entry(ch).or_insert(0) += 1;
                if let Some(d) = t.delivery_id { let v = self.eut_dids.entry(ch).or_default(); if v.last() != Some(&d) { v.push(d); } }
                if let Some(tag) = &t.delivery_tag { if let Some(n) = self.link_of_handle.get(&(ch, t.handle.0)) { let v = self.eut_tags.entry(n.clone()).or_default(); if !v.iter().any(|x| x[..] == tag[..]) { v.push(tag.to_vec()); } } }
                if !self.out_progress.contains_key(&(ch, t.handle.0)) { if let Some(n) = self.link_of_handle.get(&(ch, t.handle.0)) { if let Some(e) = self.eut_sender_dc.get_mut(n) { e.1 += 1; } } }
            }
            _ => {}
        }
        let roles = self.roles.clone();
        let mut f = perf_json(&p, Dir::FromEut, &self.sh, |h| *roles.get(&(true, ch, h)).unwrap_or(&true));
        let mut ev = json!({"ev": "EFrame", "perf": perf_name(&p), "ch": ch, "size": size});
        if let Performative::Transfer(t) = &p {
            // identify the payload: it must continue the message at the head of that link's queue
            let key = (ch, t.handle.0);
            let link = self.link_of_handle.get(&key).cloned().unwrap_or_default();
            // a continuation frame continues the delivery in progress; a first frame names its message itself (message-id)
            // (a frame that carries a different delivery-id than the delivery in progress starts a new delivery)
            let (m, offset, did) = match self.out_progress.get(&key) {
                Some(&(m, o, d)) if m >= 0 && (t.delivery_id.is_none() || t.delivery_id == d) => (m, o, d),
                _ => (message_id_of(payload).map(|x| x as i64).unwrap_or(-1), 0, t.delivery_id),
            };
            let (ok, mlen) = if m >= 0 {
                let shape = self.msg_shapes.get(&(m as u32)).cloned().unwrap_or((0, "data".into()));
                let enc = encode_message(&build_message(m as u32, shape.0, &shape.1));
                (enc.get(offset..offset + payload.len()).map(|s| s == payload).unwrap_or(false), enc.len())
            } else { (false, 0) };
            f["link"] = json!(link);
            ev["pl"] = json!({"m": m, "off": offset, "len": payload.len(), "ok": ok, "total": mlen});
            if t.more { self.out_progress.insert(key, (m, offset + payload.len(), did)); } else { self.out_progress.remove(&key); }
        }
        if let Performative::Transfer(t) = &p { if self.ctl_links.contains(&(ch, t.handle.0)) {
            // a control message of the endpoint as transaction controller
            let v = serde_amqp::from_slice::<fe2o3_amqp_types::messaging::message::__private::Deserializable<Message<Body<Value>>>>(payload).ok().map(|m| m.0.body);
            let mut c = json!({"k": "undecodable", "tx": -1, "fail": false});
            if let Some(Body::Value(fe2o3_amqp_types::messaging::AmqpValue(Value::Described(d)))) = v {
                let code = match &d.descriptor { serde_amqp::descriptor::Descriptor::Code(c) => *c, serde_amqp::descriptor::Descriptor::Name(n) => if n.as_str() == "amqp:declare:list" { 0x31 } else if n.as_str() == "amqp:discharge:list" { 0x32 } else { 0 } };
                if let Value::List(l) = &d.value {
                    if code == 0x31 { c = json!({"k": "declare", "tx": -1, "fail": false}); }
                    if code == 0x32 {
                        let id = match l.first() { Some(Value::Binary(b)) => b.to_vec(), _ => vec![] };
                        let fail = matches!(l.get(1), Some(Value::Bool(true)));
                        c = json!({"k": "discharge", "tx": self.txn_index(&id), "fail": fail});
                    }
                }
            }
            ev["ctl"] = c;
        } }
        self.note_txn(&mut f);
        ev["f"] = f;
        self.emit(ev);
    }

    async fn collect_calls(&mut self) {
        let mut i = 0;
        while i < self.calls.len() {
            if self.calls[i].h.is_finished() {
                let c = self.calls.remove(i);
                match c.h.await {
                    Ok((mut res, back)) => { self.put_back(back);
                        if let Some(t) = res.get("txn").cloned() { let id = bytes(&t); res["tx"] = json!(self.txn_index(&id)); } let lname = c.scope.strip_prefix("l:").map(|l| self.names.get(l).cloned().unwrap_or(l.to_string())).unwrap_or_default(); let of = self.await_of.get(&c.id).copied().unwrap_or(0); self.emit(json!({"ev": "ApiRet", "call": c.id, "op": c.op, "scope": c.scope, "lname": lname, "of": of, "res": res})); }
                    Err(e) => { let p = e.is_panic(); self.emit(json!({"ev": "ApiRet", "call": c.id, "op": c.op, "scope": c.scope, "lname": "", "of": 0, "res": {"ok": false, "class": if p { "PANIC" } else { "Cancelled" }, "cond": "", "dbg": ""}})); }
                }
            } else { i += 1; }
        }
    }
    fn put_back(&mut self, b: Back) {
        match b {
            Back::None => {}
            Back::Conn(c) => self.conn = Some(c),
            Back::ConnAndSess(c, n, s) => { self.conn = Some(c); if let Some(s) = s { self.sessions.insert(n, s); } }
            Back::SessAndSender(sn, s, ln, l) => { self.sessions.insert(sn, s); if let Some(l) = l { self.senders.insert(ln, l); } }
            Back::SessAndReceiver(sn, s, ln, l) => { self.sessions.insert(sn, s); if let Some(l) = l { self.receivers.insert(ln, l); } }
            Back::SessAndLink(sn, s, ln, l) => { self.sessions.insert(sn, s); match l { Some(LinkEndpoint::Sender(x)) => { self.senders.insert(ln, x); } Some(LinkEndpoint::Receiver(x)) => { self.receivers.insert(ln, x); } None => {} } }
            Back::Sess(n, s) => { self.sessions.insert(n, s); }
            Back::Sender(n, s) => { self.senders.insert(n, s); }
            Back::SenderAndFut(n, s, id, f) => { self.senders.insert(n, s); if let Some(f) = f { self.futs.insert(id, f); } }
            Back::FutOnly(id, f) => { if let Some(f) = f { self.futs.insert(id, f); } }
            Back::Receiver(n, r) => { self.receivers.insert(n, r); }
            Back::SessAndTxn(sn, s, x, t) => { self.sessions.insert(sn, s); if let Some(t) = t { self.txns.insert(x, t); } }
            Back::TxnAndSender(x, t, ln, l) => { self.txns.insert(x, t); self.senders.insert(ln, l); }
            Back::Txn(x, t) => { if let Some(t) = t { self.txns.insert(x, t); } }
            Back::DetachedS(n, d) => { self.pv.det_s.insert(n, d); }
            Back::DetachedR(n, d) => { self.pv.det_r.insert(n, d); }
            Back::ReceiverAndDelivery(n, r, d) => { if let Some(d) = d { self.held.entry(n.clone()).or_default().push(d); } self.receivers.insert(n, r); }
        }
    }
    pub async fn settle(&mut self) {
        PROGRESS.fetch_add(1, Ordering::Relaxed);
        // quiescence: run until idle, take what the endpoint wrote, and repeat while that released more
        // (a finished call may drop a handle; draining a small transport pipe unblocks a writer)
        for round in 0..200 {
            tokio::time::sleep(Duration::from_micros(1)).await;
            let before = (self.log.len(), self.calls.len());
            self.drain().await;
            self.collect_calls().await;
            if round >= 1 && before == (self.log.len(), self.calls.len()) { break; }
        }
        let alive = tokio::runtime::Handle::current().metrics().num_alive_tasks();
        let pending: Vec<u64> = self.calls.iter().map(|c| c.id).collect();
        // resource monitors since the previous quiescence point
        let cpu = crate::mon::thread_cpu_ns();
        let cpu_ms = (cpu - self.cpu_mark) / 1_000_000;
        self.cpu_mark = cpu;
        let peak_kb = crate::mon::alloc_peak_since(self.alloc_mark) / 1024;
        self.alloc_mark = crate::mon::alloc_mark();
        self.emit(json!({"ev": "Quiesce", "alive": alive, "pending": pending, "cpu_ms": cpu_ms.min(1 << 30), "peak_kb": peak_kb.min(1 << 30), "panics": crate::mon::panic_count()}));
        PROGRESS.fetch_add(1, Ordering::Relaxed);
    }
    fn start(&mut self, op: &str, scope: &str, args: J, cancel: Option<oneshot::Sender<()>>, h: JoinHandle<(J, Back)>) {
        let id = self.next_call;
        self.next_call += 1;
        let lname = scope.strip_prefix("l:").map(|l| self.names.get(l).cloned().unwrap_or(l.to_string())).unwrap_or_default();
        let of = args.get("of").and_then(|x| x.as_u64()).unwrap_or(0);
        if of > 0 { self.await_of.insert(id, of); }
        if op == "send_batchable" { self.batch_calls.push(id); }
        self.calls_scope.insert(id, scope.to_string());
        self.emit(json!({"ev": "ApiCall", "call": id, "op": op, "scope": scope, "lname": lname, "of": of, "args": args}));
        self.calls.push(Call { id, op: op.to_string(), scope: scope.to_string(), h, cancel });
    }

    // ------------------------------------------------------------------ peer side
    async fn peer_write(&mut self, b: &[u8]) -> bool {
        match self.peer.as_mut() { Some(io) => io.write_all(b).await.is_ok(), None => false }
    }
    async fn peer_frame(&mut self, e: &J) {
        let name = e["perf"].as_str().unwrap();
        let ch = e["ch"].as_u64().unwrap_or(0) as u16;
        let mut f = e["f"].clone();
        // symbolic references
        if name == "begin" { if let Some(s) = f.get("rch").and_then(|r| r.get("ref")).and_then(|r| r.as_str()) {
            match self.eut_channel.get(s) { Some(c) => f["rch"] = json!(*c), None => return self.skip(e, "begin not seen") } } }
        if name == "begin" { self.pv.noi0.insert(ch, real(f.get("noi").and_then(|x| x.as_i64()).unwrap_or(0), self.sh.inn)); self.pv.frames.insert(ch, 0); self.pv.dels.insert(ch, 0); }
        if name == "flow" {
            // the peer's own side "as it stands": next-outgoing-id = what it stated in its begin plus the transfer frames it has written; incoming-window as last advertised
            if f.get("noi").and_then(|r| r.get("sent")).is_some() { f["noi"] = json!(off(self.pv.noi0.get(&ch).copied().unwrap_or(self.sh.inn).wrapping_add(self.pv.frames.get(&ch).copied().unwrap_or(0)), self.sh.inn)); }
            if f.get("iw").and_then(|r| r.get("keep")).is_some() { f["iw"] = json!(self.pv.iw.get(&ch).copied().unwrap_or(100)); }
            // a sender that has used up or given back all credit on request: delivery-count = the receiver's limit
            if f.get("dc").and_then(|r| r.get("drained")).is_some() {
                let h = f.get("h").and_then(|x| x.as_u64()).unwrap_or(0) as u32;
                let Some(n) = self.peer_link_name.get(&(ch, h)).cloned() else { return self.skip(e, "link not attached") };
                let Some(lim) = self.pv.limit.get(&n).copied() else { return self.skip(e, "no flow seen") };
                if let Some(x) = self.pv.sdc.get_mut(&n) { x.1 = lim.wrapping_sub(x.0); }
                f["dc"] = json!(off(lim, self.sh.dc_in));
            }
        }
        if name == "begin" || name == "flow" { if let Some(w) = f.get("iw").and_then(|x| x.as_u64()) { self.pv.iw.insert(ch, w as u32); } }
        if name == "transfer" && e.get("guard").and_then(|x| x.as_bool()).unwrap_or(false) {
            // a credit-respecting sender: a delivery is started only while the endpoint's last flow leaves room for it; ids and tags are the sender's own counters
            let h = f.get("h").and_then(|x| x.as_u64()).unwrap_or(0) as u32;
            let key = (ch, h);
            let more = f.get("more").and_then(|x| x.as_bool()).unwrap_or(false);
            if self.pv.skipping.contains(&key) { if !more { self.pv.skipping.remove(&key); } return self.skip(e, "withheld: no credit"); }
            let did = match self.pv.inprog.get(&key) {
                Some(d) => *d,
                None => {
                    let Some(n) = self.peer_link_name.get(&key).cloned() else { return self.skip(e, "link not attached") };
                    let (idc, started) = self.pv.sdc.get(&n).copied().unwrap_or((self.sh.dc_in, 0));
                    let room = self.pv.limit.get(&n).map(|l| l.wrapping_sub(idc.wrapping_add(started)) as i32).unwrap_or(0);
                    if room <= 0 { if more { self.pv.skipping.insert(key); } return self.skip(e, "withheld: no credit"); }
                    self.pv.sdc.insert(n, (idc, started + 1));
                    let c = self.pv.dels.entry(ch).or_insert(0); let d = *c; *c += 1; d
                }
            };
            if more { self.pv.inprog.insert(key, did); } else { self.pv.inprog.remove(&key); }
            if f.get("did").and_then(|r| r.get("auto")).is_some() { f["did"] = json!(did); }
            if f.get("tag").and_then(|r| r.get("auto")).is_some() { f["tag"] = json!([did % 250]); }
        }
        if name == "transfer" { *self.pv.frames.entry(ch).or_insert(0) += 1; }
        if name == "flow" { if let Some(lag) = f.get("nii").and_then(|r| r.get("seen")).and_then(|r| r.as_i64()) {
            // the peer's view: everything it has received on the channel the EUT uses for this session, minus lag
            let ech = e.get("ech").and_then(|x| x.as_u64()).unwrap_or(0) as u16;
            let (noi, seen) = (self.eut_noi.get(&ech).copied().unwrap_or(self.sh.out.wrapping_add(1000)), self.eut_frames.get(&ech).copied().unwrap_or(0) as i64);
            f["nii"] = json!(off(noi.wrapping_add((seen - lag).max(0) as u32), self.sh.out));
        } }
        if name == "flow" { if let Some(lag) = f.get("dc").and_then(|r| r.get("seen")).and_then(|r| r.as_i64()) {
            let h = f.get("h").and_then(|x| x.as_u64()).unwrap_or(0) as u32;
            let (idc, dels) = self.peer_link_name.get(&(ch, h)).and_then(|n| self.eut_sender_dc.get(n)).copied().unwrap_or((self.sh.dc_out, 0));
            f["dc"] = json!(off(idc.wrapping_add((dels as i64 - lag).max(0) as u32), self.sh.dc_out));
        } }
        if name == "disposition" { for k in ["first", "last"] { if f.get(k).and_then(|r| r.get("d")).and_then(|r| r.as_str()) == Some("last") {
            // the delivery the endpoint started most recently on that session
            let ech = e.get("ech").and_then(|x| x.as_u64()).unwrap_or(0) as u16;
            match self.eut_dids.get(&ech).and_then(|v| v.last()) { Some(id) => f[k] = json!(off(*id, self.sh.out)), None => return self.skip(e, "delivery not seen") }
        } }
        for k in ["first", "last"] { if let Some(d) = f.get(k).and_then(|r| r.get("d")).and_then(|r| r.as_u64()) {
            let ech = e.get("ech").and_then(|x| x.as_u64()).unwrap_or(0) as u16;
            // the d-th delivery the endpoint started on that session; ids are consecutive, so a reference beyond the last one seen names an id the endpoint has not used yet
            let seen = self.eut_dids.get(&ech).cloned().unwrap_or_default();
            let id = match seen.get(d as usize) { Some(id) => *id, None => match seen.last() { Some(last) => last.wrapping_add((d as usize + 1 - seen.len()) as u32), None => return self.skip(e, "delivery not seen") } };
            f[k] = json!(off(id, self.sh.out)); } } }
        // transaction ids: {"ref": i} names the i-th id the resource has declared so far; {"raw": [..]} is taken literally
        if let Some(t) = f.get("state").and_then(|st| st.get("txn")).cloned() {
            match self.txn_bytes(&t) { Some(b) => f["state"]["txn"] = json!(b), None => return self.skip(e, "transaction not declared") }
        }
        let roles = self.roles.clone();
        // an attach that carries an unsettled map: {"d": n} names the tag of the n-th delivery the endpoint started on the link of that name
        if name == "attach" { if let Some(n) = f.get("name").and_then(|x| x.as_str()).map(|x| x.to_string()) { if let Some(a) = f.get_mut("uns").and_then(|u| u.as_array_mut()) {
            for x in a.iter_mut() { if let Some(d) = x.get("tag").and_then(|t| t.get("d")).and_then(|d| d.as_u64()) {
                let tag = self.eut_tags.get(&n).and_then(|v| v.get(d as usize)).cloned().unwrap_or_else(|| vec![0xee, d as u8]);
                x["tag"] = json!(tag); } } } } }
        let p = perf_from(name, &f, &self.sh, |h| *roles.get(&(false, ch, h)).unwrap_or(&false));
        if let Performative::Attach(a) = &p {
            let peer_sender = a.role == fe2o3_amqp_types::definitions::Role::Sender;
            self.roles.insert((false, ch, a.handle.0), !peer_sender);
            self.peer_link_name.insert((ch, a.handle.0), a.name.clone());
            if peer_sender { self.pv.sdc.insert(a.name.clone(), (a.initial_delivery_count.unwrap_or(0), 0)); self.pv.limit.remove(&a.name); self.pv.inprog.remove(&(ch, a.handle.0)); self.pv.skipping.remove(&(ch, a.handle.0)); }
        }
        let mut body = serde_amqp::to_vec(&p).unwrap();
        let mut pl = json!({"m": -1, "off": 0, "len": 0, "ok": true, "total": 0});
        if let Some(msg) = e.get("msg") {
            let (m, len) = (msg["m"].as_u64().unwrap() as u32, msg["len"].as_u64().unwrap() as usize);
            let shape = msg.get("shape").and_then(|x| x.as_str()).unwrap_or("data");
            let enc = encode_message(&build_message(m, len, shape));
            let o = msg.get("off").and_then(|x| x.as_u64()).unwrap_or(0) as usize;
            let n = msg.get("n").and_then(|x| x.as_i64()).unwrap_or(-1);
            let end = if n < 0 { enc.len() } else { (o + n as usize).min(enc.len()) };
            let o = o.min(end);
            body.extend_from_slice(&enc[o..end]);
            pl = json!({"m": m, "off": o, "len": end - o, "ok": true, "total": enc.len()});
        }
        let mut ctl = J::Null;
        if let Some(c) = e.get("ctl") {
            use fe2o3_amqp_types::transaction::{Declare, Discharge};
            let k = c["k"].as_str().unwrap_or("declare");
            let enc = if k == "declare" {
                ctl = json!({"k": "declare", "tx": -1, "fail": false});
                serde_amqp::to_vec(&Serializable(Message::builder().value(Declare { global_id: None }).build())).unwrap()
            } else {
                let Some(id) = self.txn_bytes(&c["txn"]) else { return self.skip(e, "transaction not declared") };
                let fail = c.get("fail").and_then(|x| x.as_bool());
                ctl = json!({"k": "discharge", "tx": self.txn_index(&id), "fail": fail.unwrap_or(false)});
                serde_amqp::to_vec(&Serializable(Message::builder().value(Discharge { txn_id: Binary::from(id), fail }).build())).unwrap()
            };
            body.extend_from_slice(&enc);
        }
        let mut fj = perf_json(&p, Dir::FromPeer, &self.sh, |h| *roles.get(&(false, ch, h)).unwrap_or(&false));
        self.note_txn(&mut fj);
        let mut bytes = frame_bytes(0, ch, &body);
        // header overrides for hostile frames: size field, doff, frame type
        if let Some(h) = e.get("hdr") {
            if let Some(sz) = h.get("size").and_then(|x| x.as_i64()) { let v: u32 = if sz < 0 { (bytes.len() as i64 + sz + 1000) as u32 } else { sz as u32 }; bytes[..4].copy_from_slice(&v.to_be_bytes()); }
            if let Some(sz) = h.get("size_delta").and_then(|x| x.as_i64()) { let v = (bytes.len() as i64 + sz) as u32; bytes[..4].copy_from_slice(&v.to_be_bytes()); }
            if let Some(d) = h.get("doff").and_then(|x| x.as_u64()) { bytes[4] = d as u8; }
            if let Some(t) = h.get("ftype").and_then(|x| x.as_u64()) { bytes[5] = t as u8; }
        }
        let ok = self.peer_write(&bytes).await;
        let mut row = json!({"ev": "PFrame", "perf": name, "ch": ch, "size": bytes.len(), "f": fj, "pl": pl, "written": ok});
        if !ctl.is_null() { row["ctl"] = ctl; }
        self.emit(row);
    }
    /// bytes of a transaction id given as {"ref": i} (i-th id declared so far) or {"raw": [..]}
    fn txn_bytes(&self, t: &J) -> Option<Vec<u8>> {
        if let Some(i) = t.get("ref").and_then(|x| x.as_u64()) { return self.txn_ids.get(i as usize).cloned(); }
        if let Some(r) = t.get("raw") { return Some(bytes(r)); }
        if t.is_array() { return Some(bytes(t)); }
        None
    }
    /// index of a transaction id among the declared ones: -1 = none given, -2 = never declared
    fn txn_index(&self, id: &[u8]) -> i64 {
        if id.is_empty() { return -1; }
        self.txn_ids.iter().position(|x| x == id).map(|i| i as i64).unwrap_or(-2)
    }
    /// a delivery state carrying a transaction id gets its index ("tx"); a `declared` state registers a new id first
    fn note_txn(&mut self, f: &mut J) {
        let Some(st) = f.get("state").cloned() else { return; };
        let id = st.get("txn").map(bytes).unwrap_or_default();
        let fresh = st["k"] == "declared" && !id.is_empty() && !self.txn_ids.contains(&id);
        if st["k"] == "declared" { f["state"]["fresh"] = json!(fresh); }
        if fresh { self.txn_ids.push(id.clone()); }
        f["state"]["tx"] = json!(self.txn_index(&id));
    }

    /// SASL frame of the scripted peer, built from a symbolic descriptor (see spec/sasl/SaslRules.tla)
    async fn peer_sasl(&mut self, e: &J) {
        use crate::scram as sc;
        let k = e["k"].as_str().unwrap_or("");
        let st = |v: &J, k: &str, d: &str| -> String { v.get(k).and_then(|x| x.as_str()).unwrap_or(d).to_string() };
        let body: Vec<u8> = match k {
            "mechanisms" => sc::mechanisms(&e["list"].as_array().map(|a| a.iter().map(|x| x.as_str().unwrap_or("").to_string()).collect::<Vec<_>>()).unwrap_or_default()),
            "init" => {
                let r = &e["resp"];
                let resp: Option<Vec<u8>> = match st(r, "t", "none").as_str() {
                    // '~' in a descriptor stands for NUL
                    "raw" => Some(st(r, "s", "").replace('~', "\0").into_bytes()),
                    "plain" => Some(format!("{}\0{}\0{}{}", st(r, "z", ""), st(r, "u", ""), st(r, "p", ""), st(r, "x", "")).replace('~', "\0").into_bytes()),
                    "cfirst" => {
                        let (gs2, u, n) = (st(r, "gs2", "n,,"), st(r, "u", ""), st(r, "nonce", "cnonce"));
                        let bare = match st(r, "form", "ok").as_str() { "nononce" => format!("n={u}"), "nouser" => format!("r={n}"), "swapped" => format!("r={n},n={u}"), "ext" => format!("m=x,n={u},r={n}"), _ => format!("n={u},r={n}") };
                        self.sasl.peer_cfirst_bare = bare.clone();
                        self.sasl.peer_cnonce = n;
                        Some(format!("{gs2}{bare}").into_bytes())
                    }
                    _ => None,
                };
                self.sasl.hash = sc::Hash::of_mech(&st(e, "mech", ""));
                sc::init(&st(e, "mech", ""), &resp, e.get("host").and_then(|x| x.as_str()))
            }
            "response" => {
                let r = &e["resp"];
                match st(r, "t", "raw").as_str() {
                    "cfinal" => {
                        // answer the endpoint's challenge (or an invented one when it sent none)
                        let sfirst = if self.sasl.eut_sfirst.is_empty() { format!("r={}srv,s={},i=4096", self.sasl.peer_cnonce, sc::b64(b"salt")) } else { self.sasl.eut_sfirst.clone() };
                        let (nonce, salt, it) = (sc::attr(&sfirst, 'r').unwrap_or("").to_string(), sc::attr(&sfirst, 's').and_then(sc::unb64).unwrap_or_default(), sc::attr(&sfirst, 'i').and_then(|x| x.parse::<u32>().ok()).unwrap_or(1));
                        let nonce = match st(r, "nonce", "ok").as_str() { "bad" => format!("{}X", &nonce[..nonce.len().saturating_sub(1)]), "clientonly" => self.sasl.peer_cnonce.clone(), _ => nonce };
                        let cb = if st(r, "cb", "n") == "n" { "biws" } else { "eSws" };
                        let wo = format!("c={cb},r={nonce}");
                        let h = self.sasl.hash;
                        let salted = h.hi(st(r, "pw", "").as_bytes(), &salt, it);
                        let mut proof = sc::client_proof(h, &salted, &sc::auth_message(&self.sasl.peer_cfirst_bare, &sfirst, &wo));
                        match st(r, "proof", "ok").as_str() {
                            "flip" => { proof[0] ^= 1; format!("{wo},p={}", sc::b64(&proof)).into_bytes() }
                            "short" => { proof.pop(); format!("{wo},p={}", sc::b64(&proof)).into_bytes() }
                            "none" => wo.into_bytes(),
                            "empty" => format!("{wo},p=").into_bytes(),
                            "notb64" => format!("{wo},p=!!!!").into_bytes(),
                            _ => format!("{wo},p={}", sc::b64(&proof)).into_bytes(),
                        }.pipe(|b| sc::response(&b))
                    }
                    _ => sc::response(st(r, "s", "").as_bytes()),
                }
            }
            "challenge" => {
                let c = &e["c"];
                match st(c, "t", "raw").as_str() {
                    "sfirst" => {
                        let cn = sc::attr(self.sasl.eut_cfirst.splitn(3, ',').nth(2).unwrap_or(""), 'r').unwrap_or("").to_string();
                        let nonce = match st(c, "nonce", "extend").as_str() { "other" => "Zm9yZWlnbg==srv".to_string(), "prefix" => format!("{}Xsrv", &cn[..cn.len().saturating_sub(1)]), "same" => cn.clone(), _ => format!("{cn}srv") };
                        let salt = match st(c, "salt", "good").as_str() { "notb64" => "!!!!".to_string(), "empty" => String::new(), _ => sc::b64(b"saltsaltsaltsalt") };
                        let it = st(c, "iter", "64");
                        let mut parts = vec![];
                        let drop = st(c, "drop", "none");
                        if st(c, "ext", "") != "" { parts.push(st(c, "ext", "")); }
                        if drop != "nonce" { parts.push(format!("r={nonce}")); }
                        if drop != "salt" { parts.push(format!("s={salt}")); }
                        if drop != "iter" { parts.push(format!("i={it}")); }
                        let m = parts.join(",");
                        self.sasl.peer_sfirst = m.clone();
                        sc::challenge(m.as_bytes())
                    }
                    _ => sc::challenge(st(c, "s", "").as_bytes()),
                }
            }
            "outcome" => {
                let d = &e["data"];
                let data: Option<Vec<u8>> = match st(d, "t", "none").as_str() {
                    "raw" => Some(st(d, "s", "").into_bytes()),
                    "sfinal" => {
                        // signature over the exchange as the endpoint saw it
                        let h = sc::Hash::of_mech(&self.sasl.eut_mech);
                        let bare = self.sasl.eut_cfirst.splitn(3, ',').nth(2).unwrap_or("").to_string();
                        let sfirst = self.sasl.peer_sfirst.clone();
                        let wo = self.sasl.eut_cfinal.rsplit_once(",p=").map(|x| x.0.to_string()).unwrap_or_default();
                        let (salt, it) = (sc::attr(&sfirst, 's').and_then(sc::unb64).unwrap_or_default(), sc::attr(&sfirst, 'i').and_then(|x| x.parse::<u32>().ok()).unwrap_or(1));
                        let sig_kind = st(d, "sig", "good");
                        let pw = if sig_kind == "wrongpw" { "nope".to_string() } else { st(d, "pw", "pass") };
                        let am = if sig_kind == "otherexch" { sc::auth_message(&format!("{bare}x"), &sfirst, &wo) } else { sc::auth_message(&bare, &sfirst, &wo) };
                        let mut sig = sc::server_signature(h, &h.hi(pw.as_bytes(), &salt, it), &am);
                        Some(match sig_kind.as_str() {
                            "flip" => { sig[0] ^= 1; format!("v={}", sc::b64(&sig)) }
                            "empty" => "v=".to_string(),
                            "noprefix" => sc::b64(&sig),
                            "err" => "e=other-error".to_string(),
                            _ => format!("v={}", sc::b64(&sig)),
                        }.into_bytes())
                    }
                    _ => None,
                };
                sc::outcome(e["code"].as_u64().unwrap_or(0) as u8, &data)
            }
            _ => vec![0x40],
        };
        let bytes = frame_bytes(1, 0, &body);
        let ok = self.peer_write(&bytes).await;
        let mut ev = e.clone();
        ev.as_object_mut().unwrap().remove("e");
        ev["ev"] = json!("PSasl");
        ev["written"] = json!(ok);
        self.emit(ev);
    }

    // ------------------------------------------------------------------ script events
    pub async fn event(&mut self, e: &J) {
        let kind = e["e"].as_str().unwrap_or("");
        let prev_skipped = std::mem::replace(&mut self.pv.last_skipped, false);
        if prev_skipped && e.get("needs_prev").and_then(|x| x.as_bool()).unwrap_or(false) { return self.skip(e, "the event it answers was skipped"); }
        match kind {
            "Shifts" => {
                // TLC integers are 32-bit: shifts near 2^32 are given as decimal strings
                let g = |k: &str| -> u32 { match &e[k] { J::String(s) => s.parse::<u64>().unwrap_or(0) as u32, v => v.as_u64().unwrap_or(0) as u32 } };
                self.sh = Shifts { out: g("out"), inn: g("inn"), dc_out: g("dc_out"), dc_in: g("dc_in") };
            }
            "AOpen" | "AAccept" => {
                let cfg = &e["cfg"];
                let (a, b) = tokio::io::duplex(cfg.get("pipe").and_then(|x| x.as_u64()).unwrap_or(1 << 22) as usize);
                self.peer = Some(b);
                let mfs = cfg.get("mfs").and_then(|x| x.as_u64()).unwrap_or(65536) as u32;
                let chmax = cfg.get("chmax").and_then(|x| x.as_u64()).unwrap_or(65535) as u16;
                let idle = cfg.get("idle").and_then(|x| x.as_u64());
                let buf = cfg.get("buf").and_then(|x| x.as_u64()).unwrap_or(256) as usize;
                let h: JoinHandle<(J, Back)> = if kind == "AOpen" {
                    let mut bld = Connection::builder().container_id("eut").max_frame_size(mfs).channel_max(chmax).buffer_size(buf);
                    if let Some(i) = idle { bld = bld.idle_time_out(i as u32); }
                    if let Some(sa) = cfg.get("sasl") {
                        use fe2o3_amqp::sasl_profile::{scram::{SaslScramSha1, SaslScramSha256, SaslScramSha512}, SaslProfile};
                        let (u, p) = (sa["user"].as_str().unwrap_or("user").to_string(), sa["pass"].as_str().unwrap_or("pass").to_string());
                        bld = bld.sasl_profile(match sa["mech"].as_str().unwrap_or("PLAIN") {
                            "ANONYMOUS" => SaslProfile::Anonymous,
                            "SCRAM-SHA-1" => SaslProfile::ScramSha1(SaslScramSha1::new(u, p)),
                            "SCRAM-SHA-256" => SaslProfile::ScramSha256(SaslScramSha256::new(u, p)),
                            "SCRAM-SHA-512" => SaslProfile::ScramSha512(SaslScramSha512::new(u, p)),
                            _ => SaslProfile::Plain { username: u, password: p },
                        });
                    }
                    tokio::spawn(async move { match bld.open_with_stream(a).await { Ok(c) => (ok_json(), Back::Conn(Conn::C(c))), Err(e) => (err_json(&e), Back::None) } })
                } else if let Some(sa) = cfg.get("sasl") {
                    use fe2o3_amqp::acceptor::{SaslAnonymousMechanism, SaslPlainMechanism};
                    use fe2o3_amqp::auth::scram::{ScramAuthenticator, ScramVersion};
                    let mut bld = ConnectionAcceptor::builder().container_id("eut").max_frame_size(mfs).channel_max(chmax).buffer_size(buf);
                    if let Some(i) = idle { bld = bld.idle_time_out(i as u32); }
                    let (u, p) = (sa["user"].as_str().unwrap_or("user").to_string(), sa["pass"].as_str().unwrap_or("pass").to_string());
                    let mech = sa["mech"].as_str().unwrap_or("PLAIN").to_string();
                    self.sasl.hash = crate::scram::Hash::of_mech(&mech);
                    macro_rules! go { ($acc:expr) => {{ let acc = $acc; tokio::spawn(async move { match acc.accept(a).await { Ok(c) => (ok_json(), Back::Conn(Conn::L(c))), Err(e) => (err_json(&e), Back::None) } }) }} }
                    match mech.as_str() {
                        "ANONYMOUS" => go!(bld.sasl_acceptor(SaslAnonymousMechanism::new()).build()),
                        "SCRAM-SHA-1" | "SCRAM-SHA-256" | "SCRAM-SHA-512" => {
                            let v = match mech.as_str() { "SCRAM-SHA-1" => ScramVersion::Sha1, "SCRAM-SHA-512" => ScramVersion::Sha512, _ => ScramVersion::Sha256 };
                            let cred = std::sync::Arc::new(fe2o3_amqp::acceptor::scram::SingleScramCredential::new(u, p, v).expect("scram credential"));
                            go!(bld.sasl_acceptor(ScramAuthenticator::new(cred)).build())
                        }
                        _ => go!(bld.sasl_acceptor(SaslPlainMechanism::new(u, p)).build()),
                    }
                } else {
                    let mut bld = ConnectionAcceptor::builder().container_id("eut").max_frame_size(mfs).channel_max(chmax).buffer_size(buf);
                    if let Some(i) = idle { bld = bld.idle_time_out(i as u32); }
                    let acc = bld.build();
                    tokio::spawn(async move { match acc.accept(a).await { Ok(c) => (ok_json(), Back::Conn(Conn::L(c))), Err(e) => (err_json(&e), Back::None) } })
                };
                self.start(if kind == "AOpen" { "open" } else { "accept" }, "conn", cfg.clone(), None, h);
            }
            "ABegin" | "AAcceptSession" => {
                let s = e["s"].as_str().unwrap().to_string();
                let cfg = e["cfg"].clone();
                let Some(conn) = self.conn.take() else { return self.skip(e, "no connection handle"); };
                let noi = real(cfg.get("noi").and_then(|x| x.as_i64()).unwrap_or(1000), self.sh.out);
                let iw = cfg.get("iw").and_then(|x| x.as_u64()).unwrap_or(2048) as u32;
                let ow = cfg.get("ow").and_then(|x| x.as_u64()).unwrap_or(2048) as u32;
                let hmax = cfg.get("hmax").and_then(|x| x.as_u64()).unwrap_or(u32::MAX as u64) as u32;
                let buf = cfg.get("buf").and_then(|x| x.as_u64()).unwrap_or(256) as usize;
                let sn = s.clone();
                let txn = cfg.get("txn").and_then(|x| x.as_bool()).unwrap_or(false);
                let h = match conn {
                    Conn::C(mut c) if kind == "ABegin" => { self.pending_begins.push(s.clone()); tokio::spawn(async move {
                        let r = Session::builder().next_outgoing_id(noi).incoming_window(iw).outgoing_window(ow).handle_max(hmax).buffer_size(buf).begin(&mut c).await;
                        match r { Ok(x) => (ok_json(), Back::ConnAndSess(Conn::C(c), sn, Some(Sess::C(x)))), Err(e) => (err_json(&e), Back::ConnAndSess(Conn::C(c), sn, None)) } }) }
                    Conn::L(mut c) if kind == "AAcceptSession" => { self.pending_begins.push(s.clone()); tokio::spawn(async move {
                        let mut bld = SessionAcceptor::builder().next_outgoing_id(noi).incoming_window(iw).outgoing_window(ow).handle_max(hmax).buffer_size(buf);
                        if txn { bld = bld.control_link_acceptor(fe2o3_amqp::transaction::coordinator::ControlLinkAcceptor::default()); }
                        let acc = bld.build();
                        match acc.accept(&mut c).await { Ok(x) => (ok_json(), Back::ConnAndSess(Conn::L(c), sn, Some(Sess::L(x)))), Err(e) => (err_json(&e), Back::ConnAndSess(Conn::L(c), sn, None)) } }) }
                    other => { self.conn = Some(other); return self.skip(e, "wrong side"); }
                };
                self.start(if kind == "ABegin" { "begin" } else { "accept_session" }, &format!("s:{s}"), cfg, None, h);
            }
            "AAttachS" | "AAttachR" | "AAcceptLink" => {
                let (l, s) = (e["l"].as_str().unwrap().to_string(), e["s"].as_str().unwrap().to_string());
                let cfg = e["cfg"].clone();
                let Some(sess) = self.sessions.remove(&s) else { return self.skip(e, "no session handle"); };
                let name = cfg.get("name").and_then(|x| x.as_str()).unwrap_or(&l).to_string();
                self.names.insert(l.clone(), name.clone());
                self.link_sess.insert(l.clone(), s.clone());
                let snd = match cfg.get("snd").and_then(|x| x.as_i64()).unwrap_or(2) { 0 => SenderSettleMode::Unsettled, 1 => SenderSettleMode::Settled, _ => SenderSettleMode::Mixed };
                let rcv = if cfg.get("rcv").and_then(|x| x.as_i64()).unwrap_or(0) == 1 { ReceiverSettleMode::Second } else { ReceiverSettleMode::First };
                let (ln, sn) = (l.clone(), s.clone());
                let h: JoinHandle<(J, Back)> = match kind {
                    "AAttachS" => {
                        let idc = real(cfg.get("idc").and_then(|x| x.as_i64()).unwrap_or(0), self.sh.dc_out);
                        let mms = cfg.get("mms").and_then(|x| x.as_u64());
                        let mut b = Sender::builder().name(name).target("q").sender_settle_mode(snd).receiver_settle_mode(rcv).initial_delivery_count(idc);
                        if let Some(m) = mms { b = b.max_message_size(m); }
                        // capacity of the session -> link channel
                        if let Some(n) = cfg.get("lbuf").and_then(|x| x.as_u64()) { b.buffer_size = n as usize; }
                        // drop_first: the handle of another sending link is dropped in the same task, right before the attach is issued
                        // (no scheduler turn in between: the session engine finds the detach and the allocation ready together)
                        let victim = e.get("drop_first").and_then(|x| x.as_str()).and_then(|v| self.senders.remove(v));
                        if victim.is_some() { self.emit(json!({"ev": "ApiDrop", "scope": format!("l:{}", e["drop_first"].as_str().unwrap_or(""))})); }
                        macro_rules! go { ($v:ident, $w:path) => { tokio::spawn(async move { let mut $v = $v; drop(victim); match b.attach(&mut $v).await {
                            Ok(x) => (ok_json(), Back::SessAndSender(sn, $w($v), ln, Some(x))), Err(e) => (err_json(&e), Back::SessAndSender(sn, $w($v), ln, None)) } }) } }
                        match sess { Sess::C(x) => go!(x, Sess::C), Sess::L(x) => go!(x, Sess::L) }
                    }
                    "AAttachR" => {
                        let credit = cfg.get("credit").and_then(|x| x.as_i64()).unwrap_or(-1);
                        let aa = cfg.get("auto_accept").and_then(|x| x.as_bool()).unwrap_or(false);
                        let mut b = Receiver::builder().name(name).source("q").sender_settle_mode(snd).receiver_settle_mode(rcv).auto_accept(aa)
                            .credit_mode(if credit >= 0 { CreditMode::Auto(credit as u32) } else { CreditMode::Manual });
                        if let Some(n) = cfg.get("lbuf").and_then(|x| x.as_u64()) { b.buffer_size = n as usize; }
                        macro_rules! go { ($v:ident, $w:path) => { tokio::spawn(async move { let mut $v = $v; match b.attach(&mut $v).await {
                            Ok(x) => (ok_json(), Back::SessAndReceiver(sn, $w($v), ln, Some(x))), Err(e) => (err_json(&e), Back::SessAndReceiver(sn, $w($v), ln, None)) } }) } }
                        match sess { Sess::C(x) => go!(x, Sess::C), Sess::L(x) => go!(x, Sess::L) }
                    }
                    _ => match sess {
                        Sess::L(mut x) => {
                            let credit = cfg.get("credit").and_then(|x| x.as_i64()).unwrap_or(-1);
                            // sender-side options of an accepted link: initial delivery-count and max-message-size
                            let idc = cfg.get("idc").and_then(|x| x.as_i64()).map(|v| real(v, self.sh.dc_out));
                            let mms = cfg.get("mms").and_then(|x| x.as_u64());
                            tokio::spawn(async move {
                                let mut b = LinkAcceptor::builder();
                                if let Some(v) = idc { b = b.initial_delivery_count(v); }
                                if let Some(m) = mms { b = b.max_message_size(m); }
                                let acc = b.build();
                                match acc.accept(&mut x).await {
                                    Ok(LinkEndpoint::Receiver(mut r)) => {
                                        // the acceptor builder has no credit option: policy is set right after accept
                                        if credit >= 0 { r.set_credit_mode(CreditMode::Auto(credit as u32)); let _ = r.set_credit(credit as u32).await; } else { r.set_credit_mode(CreditMode::Manual); let _ = r.set_credit(0).await; }
                                        (ok_json(), Back::SessAndLink(sn, Sess::L(x), ln, Some(LinkEndpoint::Receiver(r))))
                                    }
                                    Ok(ep) => (ok_json(), Back::SessAndLink(sn, Sess::L(x), ln, Some(ep))),
                                    Err(e) => (err_json(&e), Back::SessAndLink(sn, Sess::L(x), ln, None)),
                                }
                            })
                        }
                        other => { self.sessions.insert(s, other); return self.skip(e, "wrong side"); }
                    },
                };
                self.pending_attach.push(l.clone());
                self.start(match kind { "AAttachS" => "attach_sender", "AAttachR" => "attach_receiver", _ => "accept_link" }, &format!("l:{l}"), cfg, None, h);
            }
            "ASend" => {
                let l = e["l"].as_str().unwrap().to_string();
                let Some(mut snd) = self.senders.remove(&l) else { return self.skip(e, "no sender handle"); };
                let (m, len) = (e["m"].as_u64().unwrap() as u32, e["len"].as_u64().unwrap() as usize);
                let shape = e.get("shape").and_then(|x| x.as_str()).unwrap_or("data").to_string();
                let settled = e.get("settled").and_then(|x| x.as_bool());
                let batch = e.get("batchable").and_then(|x| x.as_bool()).unwrap_or(false);
                // polls: the send future is polled at most that many times and then left alone until it is cancelled
                let polls = e.get("polls").and_then(|x| x.as_u64()).map(|x| x as usize).unwrap_or(usize::MAX);
                self.msg_shapes.insert(m, (len, shape.clone()));
                self.sent_queue.entry(snd.name().to_string()).or_default().push((m, len));
                let sendable = Sendable::builder().message(build_message(m, len, &shape)).settled(settled).build();
                let (ctx, crx) = oneshot::channel::<()>();
                let ln = l.clone();
                let id = self.next_call;
                let h = tokio::spawn(async move {
                    if batch {
                        tokio::select! {
                            r = snd.send_batchable(sendable) => match r { Ok(f) => (json!({"ok": true, "class": "", "cond": "", "dbg": "", "outcome": "pending"}), Back::SenderAndFut(ln, snd, id, Some(f))), Err(e) => (err_json(&e), Back::SenderAndFut(ln, snd, id, None)) },
                            _ = crx => (json!({"ok": false, "class": "Cancelled", "cond": "", "dbg": ""}), Back::Sender(ln, snd)),
                        }
                    } else {
                        tokio::select! {
                            biased;
                            _ = crx => (json!({"ok": false, "class": "Cancelled", "cond": "", "dbg": ""}), Back::Sender(ln, snd)),
                            r = (PollLimited { inner: Box::pin(snd.send(sendable)), left: polls }) => match r { Ok(o) => (json!({"ok": true, "class": "", "cond": "", "dbg": "", "outcome": class_of(&format!("{o:?}")).to_lowercase()}), Back::Sender(ln, snd)), Err(e) => (err_json(&e), Back::Sender(ln, snd)) },
                        }
                    }
                });
                self.start(if batch { "send_batchable" } else { "send" }, &format!("l:{l}"), json!({"m": m, "len": len, "settled": settled.map(|b| if b { "t" } else { "f" }).unwrap_or("none"), "shape": shape}), Some(ctx), h);
            }
            // A batchable send that fills the link-to-session channel, followed in the same task (no scheduler turn in between) by a
            // send that is polled at most `polls` times and then left alone until it is cancelled: "dropped after its k-th Pending".
            // Whatever the engines do in between (flows, dispositions) happens while that future is frozen at its await.
            "ASendPark" => {
                let l = e["l"].as_str().unwrap().to_string();
                let Some(mut snd) = self.senders.remove(&l) else { return self.skip(e, "no sender handle"); };
                let (m1, len1) = (e["m1"].as_u64().unwrap() as u32, e["len1"].as_u64().unwrap() as usize);
                let (m, len) = (e["m"].as_u64().unwrap() as u32, e["len"].as_u64().unwrap() as usize);
                let polls = e.get("polls").and_then(|x| x.as_u64()).unwrap_or(1) as usize;
                for (mm, ll) in [(m1, len1), (m, len)] {
                    self.msg_shapes.insert(mm, (ll, "data".to_string()));
                    self.sent_queue.entry(snd.name().to_string()).or_default().push((mm, ll));
                }
                let s1 = Sendable::builder().message(build_message(m1, len1, "data")).build();
                let s2 = Sendable::builder().message(build_message(m, len, "data")).build();
                let (r1tx, r1rx) = oneshot::channel::<(J, Back)>();
                let (ctx, crx) = oneshot::channel::<()>();
                let id1 = self.next_call;
                let ln = l.clone();
                let h1 = tokio::spawn(async move { r1rx.await.unwrap_or((json!({"ok": false, "class": "Cancelled", "cond": "", "dbg": ""}), Back::None)) });
                let h2 = tokio::spawn(async move {
                    let r1 = snd.send_batchable(s1).await;
                    let failed = r1.is_err();
                    let _ = r1tx.send(match r1 { Ok(f) => (json!({"ok": true, "class": "", "cond": "", "dbg": "", "outcome": "pending"}), Back::FutOnly(id1, Some(f))), Err(e) => (err_json(&e), Back::FutOnly(id1, None)) });
                    if failed { return (json!({"ok": false, "class": "Cancelled", "cond": "", "dbg": "first send failed"}), Back::Sender(ln, snd)); }
                    let limited = PollLimited { inner: Box::pin(snd.send(s2)), left: polls };
                    let out = tokio::select! {
                        biased;
                        _ = crx => None,
                        r = limited => Some(match r { Ok(o) => json!({"ok": true, "class": "", "cond": "", "dbg": "", "outcome": class_of(&format!("{o:?}")).to_lowercase()}), Err(e) => err_json(&e) }),
                    };
                    (out.unwrap_or(json!({"ok": false, "class": "Cancelled", "cond": "", "dbg": ""})), Back::Sender(ln, snd))
                });
                self.start("send_batchable", &format!("l:{l}"), json!({"m": m1, "len": len1, "settled": "none", "shape": "data"}), None, h1);
                self.start("send", &format!("l:{l}"), json!({"m": m, "len": len, "settled": "none", "shape": "data"}), Some(ctx), h2);
            }
            "ATxnDeclare" => {
                use fe2o3_amqp::transaction::OwnedTransaction;
                let (x, sname) = (e["x"].as_str().unwrap().to_string(), e["s"].as_str().unwrap().to_string());
                let Some(sess) = self.sessions.remove(&sname) else { return self.skip(e, "no session handle"); };
                let Sess::C(mut sh) = sess else { self.sessions.insert(sname, sess); return self.skip(e, "wrong side"); };
                let (xn, sn) = (x.clone(), sname.clone());
                let h = tokio::spawn(async move {
                    match OwnedTransaction::declare(&mut sh, format!("ctl-{xn}"), None).await {
                        Ok(t) => { let id = { use fe2o3_amqp::transaction::TransactionBase; t.txn_id().to_vec() }; (json!({"ok": true, "class": "", "cond": "", "dbg": "", "txn": id}), Back::SessAndTxn(sn, Sess::C(sh), xn, Some(t))) }
                        Err(er) => (err_json(&er), Back::SessAndTxn(sn, Sess::C(sh), xn, None)),
                    }
                });
                self.start("txn_declare", &format!("s:{sname}"), json!({"x": x}), None, h);
            }
            "ATxnPost" => {
                use fe2o3_amqp::transaction::TransactionPosting;
                let (x, l) = (e["x"].as_str().unwrap().to_string(), e["l"].as_str().unwrap().to_string());
                let Some(t) = self.txns.remove(&x) else { return self.skip(e, "no transaction"); };
                let Some(mut snd) = self.senders.remove(&l) else { self.txns.insert(x, t); return self.skip(e, "no sender handle"); };
                let (m, len) = (e["m"].as_u64().unwrap() as u32, e["len"].as_u64().unwrap_or(20) as usize);
                self.msg_shapes.insert(m, (len, "data".into()));
                let sendable = Sendable::builder().message(build_message(m, len, "data")).build();
                let (xn, ln) = (x.clone(), l.clone());
                let h = tokio::spawn(async move {
                    let r = t.post(&mut snd, sendable).await;
                    match r { Ok(o) => (json!({"ok": true, "class": "", "cond": "", "dbg": "", "outcome": class_of(&format!("{o:?}")).to_lowercase()}), Back::TxnAndSender(xn, t, ln, snd)), Err(er) => (err_json(&er), Back::TxnAndSender(xn, t, ln, snd)) }
                });
                self.start("txn_post", &format!("l:{l}"), json!({"x": x, "m": m}), None, h);
            }
            "ATxnCommit" | "ATxnRollback" => {
                use fe2o3_amqp::transaction::TransactionDischarge;
                let x = e["x"].as_str().unwrap().to_string();
                let Some(t) = self.txns.remove(&x) else { return self.skip(e, "no transaction"); };
                let commit = kind == "ATxnCommit";
                let xn = x.clone();
                let h = tokio::spawn(async move {
                    let r = if commit { t.commit().await } else { t.rollback().await };
                    match r { Ok(_) => (ok_json(), Back::Txn(xn, None)), Err(er) => (err_json(&er), Back::Txn(xn, None)) }
                });
                self.start(if commit { "txn_commit" } else { "txn_rollback" }, "txn", json!({"x": x}), None, h);
            }
            "ATxnDrop" => {
                let x = e["x"].as_str().unwrap().to_string();
                if self.txns.remove(&x).is_some() { self.emit(json!({"ev": "ApiDrop", "scope": format!("x:{x}")})); } else { self.skip(e, "no transaction"); }
            }
            "AAwaitOutcome" => {
                let id = match e.get("nth").and_then(|x| x.as_u64()) { Some(n) => match self.batch_calls.get(n as usize) { Some(c) => *c, None => return self.skip(e, "no such batchable send") }, None => e["call"].as_u64().unwrap_or(0) };
                let Some(f) = self.futs.remove(&id) else { return self.skip(e, "no pending outcome"); };
                // the awaited send belongs to a link: log it with that link's name
                let lscope = self.calls_scope.get(&id).cloned().unwrap_or_default();
                let h = tokio::spawn(async move { match f.await { Ok(o) => (json!({"ok": true, "class": "", "cond": "", "dbg": "", "outcome": class_of(&format!("{o:?}")).to_lowercase()}), Back::None), Err(e) => (err_json(&e), Back::None) } });
                self.start("await_outcome", &lscope, json!({"of": id}), None, h);
            }
            "ARecv" => {
                let l = e["l"].as_str().unwrap().to_string();
                let Some(mut r) = self.receivers.remove(&l) else { return self.skip(e, "no receiver handle"); };
                let (ctx, crx) = oneshot::channel::<()>();
                let ln = l.clone();
                let h = tokio::spawn(async move {
                    tokio::select! {
                        d = r.recv::<Body<Value>>() => match d {
                            Ok(d) => { let (m, len, intact) = identify(d.message()); let enc = encode_message(d.message()); let same = m >= 0 && { let shape = if d.message().header.is_some() { if matches!(d.message().body, Body::Value(_)) { "value" } else { "full" } } else if matches!(&d.message().body, Body::Data(b) if b.len() == 2) { "data2" } else { "data" }; enc == encode_message(&build_message(m as u32, len, shape)) };
                                (json!({"ok": true, "class": "", "cond": "", "dbg": "", "m": m, "len": len, "intact": intact && same, "did": *d.delivery_id() as i64 % (1 << 30)}), Back::ReceiverAndDelivery(ln, r, Some(d))) }
                            Err(e) => (err_json(&e), Back::ReceiverAndDelivery(ln, r, None)),
                        },
                        _ = crx => (json!({"ok": false, "class": "Cancelled", "cond": "", "dbg": ""}), Back::Receiver(ln, r)),
                    }
                });
                self.start("recv", &format!("l:{l}"), json!({}), Some(ctx), h);
            }
            "ADispose" => {
                let l = e["l"].as_str().unwrap().to_string();
                let Some(r) = self.receivers.remove(&l) else { return self.skip(e, "no receiver handle"); };
                let state = e["state"].as_str().unwrap_or("accept").to_string();
                let all = e.get("all").and_then(|x| x.as_bool()).unwrap_or(false);
                let held = self.held.entry(l.clone()).or_default();
                // which held deliveries (by position among the not yet disposed ones)
                let mut idx: Vec<usize> = e.get("d").and_then(|x| x.as_array()).map(|a| a.iter().filter_map(|x| x.as_u64()).map(|x| x as usize).collect()).unwrap_or_else(|| vec![0]);
                idx.retain(|i| *i < held.len()); idx.sort(); idx.dedup();
                if idx.is_empty() { self.receivers.insert(l, r); return self.skip(e, "no such delivery held"); }
                let mut chosen = vec![];
                for i in idx.iter().rev() { chosen.push(held.remove(*i)); }
                chosen.reverse();
                let ids: Vec<i64> = chosen.iter().map(|d| *d.delivery_id() as i64 % (1 << 30)).collect();
                let ln = l.clone();
                let st = state.clone();
                let h = tokio::spawn(async move {
                    let res = if all && chosen.len() > 1 {
                        let refs: Vec<&Dlv> = chosen.iter().collect();
                        match st.as_str() { "reject" => r.reject_all(refs, None).await, "release" => r.release_all(refs).await,
                            "modify" => r.modify_all(refs, fe2o3_amqp_types::messaging::Modified { delivery_failed: Some(true), undeliverable_here: None, message_annotations: None }).await, _ => r.accept_all(refs).await }
                    } else {
                        let mut res = Ok(());
                        for d in &chosen { res = match st.as_str() { "reject" => r.reject(d, None).await, "release" => r.release(d).await,
                            "modify" => r.modify(d, fe2o3_amqp_types::messaging::Modified { delivery_failed: Some(true), undeliverable_here: None, message_annotations: None }).await, _ => r.accept(d).await }; if res.is_err() { break; } }
                        res
                    };
                    match res { Ok(_) => (ok_json(), Back::Receiver(ln, r)), Err(e) => (err_json(&e), Back::Receiver(ln, r)) }
                });
                self.start("dispose", &format!("l:{l}"), json!({"state": state, "all": all, "dids": ids}), None, h);
            }
            "ASetCredit" | "ADrain" => {
                let l = e["l"].as_str().unwrap().to_string();
                let Some(mut r) = self.receivers.remove(&l) else { return self.skip(e, "no receiver handle"); };
                let n = e.get("n").and_then(|x| x.as_u64()).unwrap_or(0) as u32;
                let drain = kind == "ADrain";
                let ln = l.clone();
                let h = tokio::spawn(async move { let res = if drain { r.drain().await } else { r.set_credit(n).await }; match res { Ok(_) => (ok_json(), Back::Receiver(ln, r)), Err(e) => (err_json(&e), Back::Receiver(ln, r)) } });
                self.start(if drain { "drain" } else { "set_credit" }, &format!("l:{l}"), json!({"n": n}), None, h);
            }
            "ADetach" | "AOnDetach" => {
                let l = e["l"].as_str().unwrap().to_string();
                let closed = e.get("closed").and_then(|x| x.as_bool()).unwrap_or(false);
                let err = e.get("err").and_then(|x| x.as_str()).filter(|s| !s.is_empty()).map(amqp_err);
                let ln = l.clone();
                let on = kind == "AOnDetach";
                // keep: a non-closing detach whose detached link is kept for a later AResume
                let keep = e.get("keep").and_then(|x| x.as_bool()).unwrap_or(false) && !closed && !on;
                let h: JoinHandle<(J, Back)> = if keep && self.senders.contains_key(&l) {
                    let s = self.senders.remove(&l).unwrap();
                    tokio::spawn(async move { match s.detach().await { Ok(d) => (ok_json(), Back::DetachedS(ln, d)), Err((d, e)) => (err_json(&e), Back::DetachedS(ln, d)) } })
                } else if keep && self.receivers.contains_key(&l) {
                    let r = self.receivers.remove(&l).unwrap();
                    self.held.remove(&l);
                    tokio::spawn(async move { match r.detach().await { Ok(d) => (ok_json(), Back::DetachedR(ln, d)), Err((d, e)) => (err_json(&e), Back::DetachedR(ln, d)) } })
                } else if let Some(mut s) = self.senders.remove(&l) {
                    tokio::spawn(async move {
                        if on { let e = s.on_detach().await; return (err_json(&e), Back::Sender(ln, s)); }
                        let r = match (closed, err) { (true, None) => s.close().await, (true, Some(e)) => s.close_with_error(e).await, (false, None) => s.detach().await.map(|_| ()).map_err(|(_, e)| e), (false, Some(e)) => s.detach_with_error(e).await.map(|_| ()).map_err(|(_, e)| e) };
                        match r { Ok(_) => (ok_json(), Back::None), Err(e) => (err_json(&e), Back::None) } })
                } else if let Some(mut s) = self.receivers.remove(&l) {
                    tokio::spawn(async move {
                        if on { return (json!({"ok": false, "class": "Unsupported", "cond": "", "dbg": ""}), Back::Receiver(ln, s)); }
                        let r = match (closed, err) { (true, None) => s.close().await, (true, Some(e)) => s.close_with_error(e).await, (false, None) => s.detach().await.map(|_| ()).map_err(|(_, e)| e), (false, Some(e)) => s.detach_with_error(e).await.map(|_| ()).map_err(|(_, e)| e) };
                        match r { Ok(_) => (ok_json(), Back::None), Err(e) => (err_json(&e), Back::None) } })
                } else { return self.skip(e, "no link handle"); };
                self.start(if on { "on_detach" } else if closed { "close_link" } else { "detach" }, &format!("l:{l}"), json!({"closed": closed, "err": e.get("err").cloned().unwrap_or(json!(""))}), None, h);
            }
            "AResume" => {
                // re-attach a link that was detached without closing (link resumption on the original session)
                let l = e["l"].as_str().unwrap().to_string();
                let ln = l.clone();
                let h: JoinHandle<(J, Back)> = if let Some(d) = self.pv.det_s.remove(&l) {
                    tokio::spawn(async move { match d.resume().await { Ok(s) => (ok_json(), Back::Sender(ln, s)), Err(e) => { let j = err_json(&e.kind); (j, Back::DetachedS(ln, e.detached_sender)) } } })
                } else if let Some(d) = self.pv.det_r.remove(&l) {
                    use fe2o3_amqp::link::receiver::ResumingReceiver;
                    tokio::spawn(async move { match d.resume().await {
                        Ok(ResumingReceiver::Complete(r)) | Ok(ResumingReceiver::IncompleteUnsettled(r)) | Ok(ResumingReceiver::Resume(r)) => (ok_json(), Back::Receiver(ln, r)),
                        Err(e) => { let j = err_json(&e.kind); (j, Back::DetachedR(ln, e.detached_recver)) } } })
                } else { return self.skip(e, "no detached link"); };
                self.pending_attach.push(l.clone());
                self.start("resume", &format!("l:{l}"), json!({}), None, h);
            }
            "AEnd" | "AOnEnd" => {
                let s = e["s"].as_str().unwrap().to_string();
                let Some(sess) = self.sessions.remove(&s) else { return self.skip(e, "no session handle"); };
                let err = e.get("err").and_then(|x| x.as_str()).filter(|s| !s.is_empty()).map(amqp_err);
                let on = kind == "AOnEnd";
                let sn = s.clone();
                macro_rules! go { ($v:ident, $w:path) => { tokio::spawn(async move { let mut $v = $v;
                    let r = if on { $v.on_end().await } else { match err { None => $v.end().await, Some(e) => $v.end_with_error(e).await } };
                    match r { Ok(_) => (ok_json(), Back::Sess(sn, $w($v))), Err(e) => (err_json(&e), Back::Sess(sn, $w($v))) } }) } }
                let h = match sess { Sess::C(x) => go!(x, Sess::C), Sess::L(x) => go!(x, Sess::L) };
                self.start(if on { "on_end" } else { "end" }, &format!("s:{s}"), json!({"err": e.get("err").cloned().unwrap_or(json!(""))}), None, h);
            }
            "AClose" | "AOnClose" => {
                let Some(conn) = self.conn.take() else { return self.skip(e, "no connection handle"); };
                let err = e.get("err").and_then(|x| x.as_str()).filter(|s| !s.is_empty()).map(amqp_err);
                let on = kind == "AOnClose";
                macro_rules! go { ($v:ident, $w:path) => { tokio::spawn(async move { let mut $v = $v;
                    let r = if on { $v.on_close().await } else { match err { None => $v.close().await, Some(e) => $v.close_with_error(e).await } };
                    match r { Ok(_) => (ok_json(), Back::Conn($w($v))), Err(e) => (err_json(&e), Back::Conn($w($v))) } }) } }
                let h = match conn { Conn::C(x) => go!(x, Conn::C), Conn::L(x) => go!(x, Conn::L) };
                self.start(if on { "on_close" } else { "close" }, "conn", json!({"err": e.get("err").cloned().unwrap_or(json!(""))}), None, h);
            }
            "ADrop" => {
                let h = e["h"].as_str().unwrap().to_string();
                let found = if h == "conn" { self.conn.take().is_some() }
                    else if let Some(s) = h.strip_prefix("s:") { self.sessions.remove(s).is_some() }
                    else if let Some(l) = h.strip_prefix("l:") { self.held.remove(l); self.senders.remove(l).is_some() || self.receivers.remove(l).is_some() } else { false };
                if found { self.emit(json!({"ev": "ApiDrop", "scope": h})); } else { self.skip(e, "no such handle"); }
            }
            "ACancel" => {
                let id = match e.get("l").and_then(|x| x.as_str()) {
                    Some(l) => { let sc = format!("l:{l}"); self.calls.iter().rev().find(|c| c.scope == sc && c.cancel.is_some()).map(|c| c.id).unwrap_or(0) }
                    None => e["call"].as_u64().unwrap_or(0),
                };
                match self.calls.iter_mut().find(|c| c.id == id).and_then(|c| c.cancel.take()) {
                    Some(tx) => { let _ = tx.send(()); self.emit(json!({"ev": "ApiCancel", "call": id})); }
                    None => self.skip(e, "call not pending / not cancellable"),
                }
            }
            "PHeader" => {
                let b: &[u8] = match e.get("kind").and_then(|x| x.as_str()).unwrap_or("amqp") { "sasl" => b"AMQP\x03\x01\x00\x00", "bad" => b"AMQP\x00\x01\x00\x01", "tls" => b"AMQP\x02\x01\x00\x00", _ => b"AMQP\x00\x01\x00\x00" };
                let ok = self.peer_write(b).await;
                self.emit(json!({"ev": "PHeader", "kind": e.get("kind").cloned().unwrap_or(json!("amqp")), "written": ok}));
            }
            "PFrame" => self.peer_frame(e).await,
            "PSasl" => self.peer_sasl(e).await,
            "PEmpty" => { let ch = e.get("ch").and_then(|x| x.as_u64()).unwrap_or(0) as u16; let ok = self.peer_write(&frame_bytes(0, ch, &[])).await; self.emit(json!({"ev": "PFrame", "perf": "empty", "ch": ch, "size": 8, "f": {}, "pl": {"m": -1, "off": 0, "len": 0, "ok": true, "total": 0}, "written": ok})); }
            "PRaw" => { let b = match e.get("gen") {
                    // generated hostile bodies: a frame whose body is `depth` nested list8 headers
                    Some(g) if g["kind"] == "nest" => { let d = g["depth"].as_u64().unwrap_or(8) as usize; let mut body = vec![0x00, 0x53, 0x14, 0xc0, 0xff, 0x01]; for _ in 0..d { body.extend([0xc0, 0xff, 0x01]); } body.push(0x40); frame_bytes(0, g.get("ch").and_then(|x| x.as_u64()).unwrap_or(0) as u16, &body) }
                    Some(g) if g["kind"] == "big" => { let n = g["n"].as_u64().unwrap_or(8) as usize; frame_bytes(0, 0, &vec![0x40; n]) }
                    _ => bytes(&e["b"]) };
                let ok = self.peer_write(&b).await; self.emit(json!({"ev": "PRaw", "n": b.len(), "tag": e.get("tag").cloned().unwrap_or(json!("")), "written": ok})); }
            "PEof" => { if let Some(mut io) = self.peer.take() { let _ = io.shutdown().await; if e.get("keep_read").and_then(|x| x.as_bool()).unwrap_or(true) { self.peer = Some(io); } } self.emit(json!({"ev": "PEof"})); }
            "PReset" => { self.drain().await; self.peer = None; self.emit(json!({"ev": "PReset"})); }
            "Advance" => {
                // virtual time passes in steps so that frames written meanwhile get accurate timestamps
                let ms = e["ms"].as_u64().unwrap_or(0);
                let step = e.get("step").and_then(|x| x.as_u64()).unwrap_or((ms / 8).max(1));
                self.emit(json!({"ev": "Advance", "ms": ms, "step": step}));
                let mut left = ms;
                while left > 0 {
                    let d = step.min(left);
                    tokio::time::sleep(Duration::from_millis(d)).await;
                    left -= d;
                    self.drain().await;
                    self.collect_calls().await;
                }
            }
            "HookArm" => { let n = e["name"].as_str().unwrap_or("").to_string(); let g = fe2o3_amqp::verif::arm(&n); self.gates.insert(n.clone(), g); self.emit(json!({"ev": "Hook", "op": "arm", "name": n, "hits": 0})); }
            "HookRelease" => { let n = e["name"].as_str().unwrap_or("").to_string(); let hits = self.gates.get(&n).map(|g| { let h = g.hits.load(Ordering::SeqCst); g.release(); h }).unwrap_or(0); fe2o3_amqp::verif::disarm(&n); self.gates.remove(&n); self.emit(json!({"ev": "Hook", "op": "release", "name": n, "hits": hits})); }
            "Yield" => { for _ in 0..e.get("n").and_then(|x| x.as_u64()).unwrap_or(20) { tokio::task::yield_now().await; } self.emit(json!({"ev": "Yield"})); }
            "Mark" => { self.emit(json!({"ev": "Mark", "what": e["what"]})); }
            "Settle" => {}
            other => { self.emit(json!({"ev": "Skip", "what": other, "why": "unknown event"})); }
        }
    }

    pub async fn run(mut self, script: &[J], final_ms: u64) -> Vec<J> {
        self.emit(json!({"ev": "Init", "side": if self.side_listener { "listener" } else { "client" }}));
        for e in script {
            // events flagged "nosettle" are issued back to back with the next one
            self.event(e).await;
            if !e.get("nosettle").and_then(|x| x.as_bool()).unwrap_or(false) { self.settle().await; }
        }
        // final: give pending calls a long virtual time to finish (default 1 h, in steps so that frames written meanwhile
        // are stamped accurately), then report what is still pending
        if !self.calls.is_empty() && final_ms > 0 {
            let step = (final_ms / 60).max(1);
            self.emit(json!({"ev": "Advance", "ms": final_ms, "step": step}));
            let mut left = final_ms;
            while left > 0 && !self.calls.is_empty() {
                let d = step.min(left);
                tokio::time::sleep(Duration::from_millis(d)).await;
                left -= d;
                self.drain().await;
                self.collect_calls().await;
            }
        }
        self.settle().await;
        let pend: Vec<J> = self.calls.iter().map(|c| {
            let label = c.scope.strip_prefix("l:").unwrap_or("");
            let sess = if label.is_empty() { c.scope.strip_prefix("s:").map(|x| format!("s:{x}")).unwrap_or_default() } else { self.link_sess.get(label).map(|x| format!("s:{x}")).unwrap_or_default() };
            json!({"call": c.id, "op": c.op, "scope": c.scope, "lname": self.names.get(label).cloned().unwrap_or_default(), "sess": sess})
        }).collect();
        self.emit(json!({"ev": "End", "pending": pend, "panics": crate::mon::panic_count()}));
        fe2o3_amqp::verif::disarm_all();
        for c in &self.calls { c.h.abort(); }
        // forget the handles: dropping them would start teardown traffic nobody observes
        std::mem::forget(self.conn.take()); for (_, s) in self.sessions.drain() { std::mem::forget(s); }
        for (_, s) in self.senders.drain() { std::mem::forget(s); } for (_, s) in self.receivers.drain() { std::mem::forget(s); }
        self.log
    }
}


/// vh ep <scripts.ndjson> <out.ndjson> [first-index]
/// each script line: {"side": "client"|"listener", "id": ..., "ev": [events...]}
pub fn main(args: &[String]) -> Result<(), String> {
    use std::io::Write;
    crate::mon::quiet_panics();
    let inp = std::fs::read_to_string(&args[0]).map_err(|e| e.to_string())?;
    let from: usize = args.get(2).map(|s| s.parse().unwrap()).unwrap_or(0);
    let mut out = std::fs::OpenOptions::new().create(true).append(true).open(&args[1]).map_err(|e| e.to_string())?;
    // watchdog: a settle that never returns means the endpoint keeps a task runnable (spin)
    let idx = std::sync::Arc::new(AtomicU64::new(from as u64));
    {
        let idx = idx.clone();
        std::thread::spawn(move || {
            let mut last = (PROGRESS.load(Ordering::Relaxed), std::time::Instant::now());
            loop {
                std::thread::sleep(Duration::from_millis(200));
                let p = PROGRESS.load(Ordering::Relaxed);
                if p != last.0 { last = (p, std::time::Instant::now()); }
                else if last.1.elapsed() > Duration::from_secs(8) && p % 2 == 1 {
                    eprintln!("VH-SPIN script={}", idx.load(Ordering::Relaxed));
                    std::process::exit(3);
                }
            }
        });
    }
    // a runtime whose tasks were left behind keeps its driver's descriptors: the caller restarts this process every `max` scripts
    let max: usize = args.get(3).map(|s| s.parse().unwrap()).unwrap_or(usize::MAX);
    for (k, line) in inp.lines().filter(|l| !l.trim().is_empty()).enumerate().skip(from).take(max) {
        idx.store(k as u64, Ordering::Relaxed);
        let sc: J = serde_json::from_str(line).map_err(|e| e.to_string())?;
        let rt = tokio::runtime::Builder::new_current_thread().enable_all().start_paused(true).build().unwrap();
        let listener = sc["side"] == "listener";
        let evs = sc["ev"].as_array().cloned().unwrap_or_default();
        let final_ms = sc.get("final_ms").and_then(|x| x.as_u64()).unwrap_or(3_600_000);
        let log = rt.block_on(async move {
            Exec::new(listener).run(&evs, final_ms).await
        });
        rt.shutdown_background();
        let mut s = String::new();
        for mut l in log { l["sc"] = json!(k); s.push_str(&l.to_string()); s.push('\n'); }
        out.write_all(s.as_bytes()).map_err(|e| e.to_string())?;
        PROGRESS.fetch_add(2, Ordering::Relaxed);
    }
    Ok(())
}
