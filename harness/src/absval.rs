//! Abstract value (JSON produced by TLC, see AmqpCodec.tla) <-> `serde_amqp::Value`.
use serde_amqp::{described::Described, descriptor::Descriptor, primitives::*, Value};
use serde_json::{json, Value as J};

pub fn bytes(j: &J) -> Vec<u8> {
    j.as_array().map(|a| a.iter().map(|x| x.as_u64().unwrap() as u8).collect()).unwrap_or_default()
}
fn arr<const N: usize>(j: &J) -> [u8; N] {
    bytes(j).try_into().expect("width")
}

/// Build the Rust value an abstract value denotes.  Trusted transcription, one direction only.
pub fn build(j: &J) -> Value {
    let t = j["t"].as_str().unwrap();
    let x = &j["x"];
    match t {
        "null" => Value::Null,
        "bool" => Value::Bool(j["b"].as_bool().unwrap()),
        "ubyte" => Value::Ubyte(bytes(x)[0]),
        "ushort" => Value::Ushort(u16::from_be_bytes(arr(x))),
        "uint" => Value::Uint(u32::from_be_bytes(arr(x))),
        "ulong" => Value::Ulong(u64::from_be_bytes(arr(x))),
        "byte" => Value::Byte(bytes(x)[0] as i8),
        "short" => Value::Short(i16::from_be_bytes(arr(x))),
        "int" => Value::Int(i32::from_be_bytes(arr(x))),
        "long" => Value::Long(i64::from_be_bytes(arr(x))),
        "float" => Value::Float(f32::from_bits(u32::from_be_bytes(arr(x))).into()),
        "double" => Value::Double(f64::from_bits(u64::from_be_bytes(arr(x))).into()),
        "dec32" => Value::Decimal32(Dec32::from(arr::<4>(x))),
        "dec64" => Value::Decimal64(Dec64::from(arr::<8>(x))),
        "dec128" => Value::Decimal128(Dec128::from(arr::<16>(x))),
        "char" => Value::Char(char::from_u32(u32::from_be_bytes(arr(x))).unwrap()),
        "timestamp" => Value::Timestamp(Timestamp::from(i64::from_be_bytes(arr(x)))),
        "uuid" => Value::Uuid(Uuid::from(arr::<16>(x))),
        "binary" => Value::Binary(bytes(x).into()),
        "string" => Value::String(String::from_utf8(bytes(x)).unwrap()),
        "symbol" => Value::Symbol(Symbol::from(String::from_utf8(bytes(x)).unwrap())),
        "list" => Value::List(x.as_array().unwrap().iter().map(build).collect()),
        "map" => {
            let v = x.as_array().unwrap();
            let mut m = OrderedMap::new();
            for kv in v.chunks(2) {
                m.insert(build(&kv[0]), build(&kv[1]));
            }
            Value::Map(m)
        }
        "array" => Value::Array(Array::from(x.as_array().unwrap().iter().map(build).collect::<Vec<_>>())),
        "described" => {
            let d = match build(&j["d"]) {
                Value::Ulong(c) => Descriptor::Code(c),
                Value::Symbol(s) => Descriptor::Name(s),
                other => panic!("descriptor {:?}", other),
            };
            Value::Described(Box::new(Described { descriptor: d, value: build(x) }))
        }
        _ => panic!("abstract type {}", t),
    }
}

/// Bit-exact equality (floats compared by bit pattern, NaN payloads included).
pub fn same(a: &Value, b: &Value) -> bool {
    match (a, b) {
        (Value::Float(x), Value::Float(y)) => x.0.to_bits() == y.0.to_bits(),
        (Value::Double(x), Value::Double(y)) => x.0.to_bits() == y.0.to_bits(),
        (Value::List(x), Value::List(y)) => x.len() == y.len() && x.iter().zip(y).all(|(a, b)| same(a, b)),
        (Value::Array(x), Value::Array(y)) => x.len() == y.len() && x.iter().zip(y.iter()).all(|(a, b)| same(a, b)),
        (Value::Map(x), Value::Map(y)) => x.len() == y.len() && x.iter().zip(y.iter()).all(|((k1, v1), (k2, v2))| same(k1, k2) && same(v1, v2)),
        (Value::Described(x), Value::Described(y)) => x.descriptor == y.descriptor && same(&x.value, &y.value),
        _ => a == b,
    }
}

/// `Value` -> abstract JSON (used to log what the implementation *decoded*).
pub fn unbuild(v: &Value) -> J {
    fn bx(t: &str, b: &[u8]) -> J {
        json!({"t": t, "x": b})
    }
    match v {
        Value::Null => json!({"t": "null"}),
        Value::Bool(b) => json!({"t": "bool", "b": b}),
        Value::Ubyte(x) => bx("ubyte", &x.to_be_bytes()),
        Value::Ushort(x) => bx("ushort", &x.to_be_bytes()),
        Value::Uint(x) => bx("uint", &x.to_be_bytes()),
        Value::Ulong(x) => bx("ulong", &x.to_be_bytes()),
        Value::Byte(x) => bx("byte", &x.to_be_bytes()),
        Value::Short(x) => bx("short", &x.to_be_bytes()),
        Value::Int(x) => bx("int", &x.to_be_bytes()),
        Value::Long(x) => bx("long", &x.to_be_bytes()),
        Value::Float(x) => bx("float", &x.0.to_bits().to_be_bytes()),
        Value::Double(x) => bx("double", &x.0.to_bits().to_be_bytes()),
        Value::Decimal32(x) => bx("dec32", &x.clone().into_inner()),
        Value::Decimal64(x) => bx("dec64", &x.clone().into_inner()),
        Value::Decimal128(x) => bx("dec128", &x.clone().into_inner()),
        Value::Char(x) => bx("char", &(*x as u32).to_be_bytes()),
        Value::Timestamp(x) => bx("timestamp", &x.milliseconds().to_be_bytes()),
        Value::Uuid(x) => bx("uuid", &x.clone().into_inner()),
        Value::Binary(x) => bx("binary", x.as_ref()),
        Value::String(x) => bx("string", x.as_bytes()),
        Value::Symbol(x) => bx("symbol", x.as_str().as_bytes()),
        Value::List(x) => json!({"t": "list", "x": x.iter().map(unbuild).collect::<Vec<_>>()}),
        Value::Map(x) => json!({"t": "map", "x": x.iter().flat_map(|(k, v)| [unbuild(k), unbuild(v)]).collect::<Vec<_>>()}),
        Value::Array(x) => json!({"t": "array", "x": x.iter().map(unbuild).collect::<Vec<_>>()}),
        Value::Described(d) => {
            let dj = match &d.descriptor {
                Descriptor::Code(c) => bx("ulong", &c.to_be_bytes()),
                Descriptor::Name(s) => bx("symbol", s.as_str().as_bytes()),
            };
            json!({"t": "described", "d": dj, "x": unbuild(&d.value)})
        }
    }
}
