//! Trusted wire helpers: 8-byte frame header parser, performative extent, payload pattern.
use serde_json::{json, Value as J};

/// byte i of message m
pub fn pat(m: u32, i: usize) -> u8 {
    ((37 * m as usize + i) % 251) as u8
}
pub fn pattern(m: u32, len: usize) -> Vec<u8> {
    (0..len).map(|i| pat(m, i)).collect()
}
/// Does `chunk` continue message m at offset off?
pub fn matches(m: u32, off: usize, chunk: &[u8]) -> bool {
    chunk.iter().enumerate().all(|(i, b)| *b == pat(m, off + i))
}

/// Length of the described-list performative at the start of a frame body (None if malformed).
pub fn perf_len(b: &[u8]) -> Option<usize> {
    if b.first() != Some(&0x00) { return None; }
    let mut p = 1;
    p += match *b.get(p)? {
        0x53 => 2,
        0x80 => 9,
        0x44 => 1,
        0xa3 => 2 + *b.get(p + 1)? as usize,
        0xb3 => 5 + u32::from_be_bytes(b.get(p + 1..p + 5)?.try_into().ok()?) as usize,
        _ => return None,
    };
    p += match *b.get(p)? {
        0x45 => 1,
        0xc0 => 2 + *b.get(p + 1)? as usize,
        0xd0 => 5 + u32::from_be_bytes(b.get(p + 1..p + 5)?.try_into().ok()?) as usize,
        _ => return None,
    };
    if p <= b.len() { Some(p) } else { None }
}

pub struct RawFrame {
    pub size: usize,
    pub doff: u8,
    pub ftype: u8,
    pub ch: u16,
    pub body: Vec<u8>,
}
/// Split a byte stream into frames; returns the frames and the number of trailing bytes that do
/// not form a complete frame.
pub fn split_frames(mut s: &[u8]) -> (Vec<RawFrame>, usize) {
    let mut out = vec![];
    loop {
        if s.len() >= 8 && &s[..4] == b"AMQP" { s = &s[8..]; continue; }
        if s.len() < 8 { return (out, s.len()); }
        let size = u32::from_be_bytes(s[..4].try_into().unwrap()) as usize;
        if size < 8 || size > s.len() { return (out, s.len()); }
        let doff = s[4];
        let start = (doff as usize * 4).clamp(8, size);
        out.push(RawFrame { size, doff, ftype: s[5], ch: u16::from_be_bytes([s[6], s[7]]), body: s[start..size].to_vec() });
        s = &s[size..];
    }
}
pub fn frame_bytes(ftype: u8, ch: u16, body: &[u8]) -> Vec<u8> {
    let mut f = Vec::with_capacity(body.len() + 8);
    f.extend(((body.len() + 8) as u32).to_be_bytes());
    f.extend([2, ftype]);
    f.extend(ch.to_be_bytes());
    f.extend_from_slice(body);
    f
}
/// JSON view of a raw frame: performative bytes + payload slice identified against message m at
/// running offset `off`.
pub fn frame_json(f: &RawFrame, m: u32, off: usize) -> (J, usize) {
    let pl = perf_len(&f.body).unwrap_or(f.body.len());
    let payload = &f.body[pl..];
    let ok = matches(m, off, payload);
    (json!({"size": f.size, "doff": f.doff, "ftype": f.ftype, "ch": f.ch, "pb": &f.body[..pl], "off": off, "len": payload.len(), "pat": ok}), off + payload.len())
}

/// Length of one encoded AMQP value of the kinds that occur in message sections (None if unknown / truncated).
pub fn value_len(b: &[u8]) -> Option<usize> {
    let c = *b.first()?;
    Some(match c {
        0x00 => { let d = value_len(&b[1..])?; 1 + d + value_len(b.get(1 + d..)?)? }
        0x40 | 0x41 | 0x42 | 0x43 | 0x44 | 0x45 => 1,
        0x50 | 0x51 | 0x52 | 0x53 | 0x54 | 0x55 | 0x56 => 2,
        0x60 | 0x61 => 3,
        0x70 | 0x71 | 0x72 | 0x73 | 0x74 => 5,
        0x80 | 0x81 | 0x82 | 0x83 | 0x84 => 9,
        0x94 | 0x98 => 17,
        0xa0 | 0xa1 | 0xa3 | 0xc0 | 0xc1 | 0xe0 => 2 + *b.get(1)? as usize,
        0xb0 | 0xb1 | 0xb3 | 0xd0 | 0xd1 | 0xf0 => 5 + u32::from_be_bytes(b.get(1..5)?.try_into().ok()?) as usize,
        _ => return None,
    })
}
/// The message-id (ulong) of the message whose encoding starts with `payload` (first frame of a delivery).
pub fn message_id_of(payload: &[u8]) -> Option<u64> {
    let mut p = 0;
    loop {
        let b = payload.get(p..)?;
        if b.len() < 3 || b[0] != 0x00 || b[1] != 0x53 { return None; }
        if b[2] == 0x73 {
            // properties: described list; first field is the message-id
            let body = b.get(3..)?;
            let items = match *body.first()? { 0xc0 => body.get(3..)?, 0xd0 => body.get(9..)?, _ => return None };
            return match *items.first()? {
                0x44 => Some(0),
                0x53 => Some(*items.get(1)? as u64),
                0x80 => Some(u64::from_be_bytes(items.get(1..9)?.try_into().ok()?)),
                _ => None,
            };
        }
        if b[2] > 0x73 { return None; }
        p += 3 + value_len(b.get(3..)?)?;
    }
}
