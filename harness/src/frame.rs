//! Exec for C06: the real `Transport` as Sink / Stream over an in-memory pipe.
use crate::absval::bytes;
use crate::wire::*;
use fe2o3_amqp::frames::amqp::{Frame, FrameBody};
use fe2o3_amqp::transport::Transport;
use fe2o3_amqp_types::performatives::Performative;
use futures_util::{SinkExt, StreamExt};
use serde_json::{json, Value as J};
use std::io::{BufRead, Write};
use tokio::io::{AsyncReadExt, AsyncWriteExt};

fn body_of(p: Performative, payload: Vec<u8>) -> FrameBody {
    match p {
        Performative::Open(x) => FrameBody::Open(x),
        Performative::Begin(x) => FrameBody::Begin(x),
        Performative::Attach(x) => FrameBody::Attach(x),
        Performative::Flow(x) => FrameBody::Flow(x),
        Performative::Transfer(x) => FrameBody::Transfer { performative: x, payload: payload.into() },
        Performative::Disposition(x) => FrameBody::Disposition(x),
        Performative::Detach(x) => FrameBody::Detach(x),
        Performative::End(x) => FrameBody::End(x),
        Performative::Close(x) => FrameBody::Close(x),
    }
}
pub fn perf_of(b: FrameBody) -> (Option<Performative>, Vec<u8>) {
    match b {
        FrameBody::Open(x) => (Some(Performative::Open(x)), vec![]),
        FrameBody::Begin(x) => (Some(Performative::Begin(x)), vec![]),
        FrameBody::Attach(x) => (Some(Performative::Attach(x)), vec![]),
        FrameBody::Flow(x) => (Some(Performative::Flow(x)), vec![]),
        FrameBody::Transfer { performative, payload } => (Some(Performative::Transfer(performative)), payload.to_vec()),
        FrameBody::Disposition(x) => (Some(Performative::Disposition(x)), vec![]),
        FrameBody::Detach(x) => (Some(Performative::Detach(x)), vec![]),
        FrameBody::End(x) => (Some(Performative::End(x)), vec![]),
        FrameBody::Close(x) => (Some(Performative::Close(x)), vec![]),
        FrameBody::Empty => (None, vec![]),
    }
}

async fn enc_case(c: &J) -> J {
    let max = c["max"].as_u64().unwrap() as usize;
    let ch = c["ch"].as_u64().unwrap() as u16;
    let pb = bytes(&c["bytes"]);
    let perf: Performative = match serde_amqp::from_slice(&pb) {
        Ok(p) => p,
        Err(e) => return json!({"k": "enc", "ch": ch, "max": max, "more": c["more"], "pl": c["pl"], "L": 0, "perf": c["perf"], "err": format!("case performative does not decode: {e}"), "frames": [], "trail": 0}),
    };
    // payload length relative to the body room of this configuration
    let own = serde_amqp::to_vec(&perf).map(|v| v.len()).unwrap_or(pb.len());
    let room = max as i64 - 8 - own as i64;
    let (k, d) = (c["pl"][0].as_i64().unwrap(), c["pl"][1].as_i64().unwrap());
    let len = (k * room + d).max(0) as usize;
    let payload = pattern(1, len);
    let (a, mut b) = tokio::io::duplex(1 << 24);
    let mut t = Transport::<_, Frame>::bind(a, 512, None);
    t.set_encoder_max_frame_size(max);
    let r = t.send(Frame::new(ch, body_of(perf, payload))).await;
    let err = match r { Ok(_) => String::new(), Err(e) => format!("{e:?}") };
    let _ = t.close().await;
    drop(t);
    let mut out = vec![];
    let _ = b.read_to_end(&mut out).await;
    let (frames, trail) = split_frames(&out);
    let mut off = 0;
    let mut fj = vec![];
    for f in &frames {
        let (j, o) = frame_json(f, 1, off);
        off = o;
        fj.push(j);
    }
    json!({"k": "enc", "ch": ch, "max": max, "more": c["more"], "pl": c["pl"], "L": len, "perf": c["perf"], "err": err, "frames": fj, "trail": trail})
}

/// Feed `stream` to a transport in the given chunks; return what it decoded.
async fn feed(stream: &[u8], cuts: &[usize], max: usize) -> Vec<J> {
    let (a, mut b) = tokio::io::duplex(1 << 16);
    let mut t = Transport::<_, Frame>::bind(a, 512, None);
    t.set_decoder_max_frame_size(max);
    let reader = tokio::spawn(async move {
        let mut got = vec![];
        while let Some(item) = t.next().await {
            match item {
                Ok(fr) => {
                    let ch = fr.channel;
                    let (p, payload) = perf_of(fr.body);
                    let pb = p.map(|p| serde_amqp::to_vec(&p).unwrap_or_default()).unwrap_or_default();
                    got.push(json!({"ch": ch, "pb": pb, "len": payload.len(), "pat": matches(2, 0, &payload)}));
                }
                Err(e) => { got.push(json!({"err": format!("{e:?}")})); break; }
            }
        }
        got
    });
    let mut prev = 0;
    for &c in cuts.iter().chain([stream.len()].iter()) {
        if c <= prev || c > stream.len() { continue; }
        let _ = b.write_all(&stream[prev..c]).await;
        prev = c;
        // let the reader run until it is idle again
        tokio::time::sleep(std::time::Duration::from_micros(1)).await;
    }
    let _ = b.shutdown().await;
    reader.await.unwrap_or_default()
}

async fn dec_case(c: &J, stream_spec: &J) -> J {
    // build the stream
    let mut stream = vec![];
    let mut starts = vec![];
    for f in stream_spec.as_array().unwrap() {
        starts.push(stream.len());
        let mut body = bytes(&f["bytes"]);
        body.extend(pattern(2, f["pl"].as_u64().unwrap() as usize));
        stream.extend(frame_bytes(0, f["ch"].as_u64().unwrap() as u16, &body));
    }
    let max = 4096;
    let whole = feed(&stream, &[], max).await;
    let mode = c["mode"].as_str().unwrap();
    let partitions: Vec<Vec<usize>> = match mode {
        "whole" => vec![vec![]],
        "single" => (1..stream.len()).map(|i| vec![i]).collect(),
        "uniform" => { let n = c["cuts"][0][1].as_u64().unwrap() as usize; vec![(1..stream.len()).filter(|i| i % n == 0).collect()] }
        _ => {
            let mut v: Vec<usize> = c["cuts"].as_array().unwrap().iter().filter_map(|p| {
                let f = p[0].as_u64().unwrap() as usize - 1;
                let o = p[1].as_i64().unwrap();
                let pos = starts[f] as i64 + o;
                if pos > 0 && (pos as usize) < stream.len() { Some(pos as usize) } else { None }
            }).collect();
            v.sort(); v.dedup();
            vec![v]
        }
    };
    let mut same = true;
    let mut firstbad: Vec<usize> = vec![];
    for p in &partitions {
        let got = feed(&stream, p, max).await;
        if got != whole && same { same = false; firstbad = p.clone(); }
    }
    json!({"k": "dec", "mode": mode, "cuts": c["cuts"], "nparts": partitions.len(), "same": same, "bad": firstbad,
           "frames": if mode == "whole" { json!(whole) } else { json!([]) }, "nbytes": stream.len()})
}

pub fn main(args: &[String]) -> Result<(), String> {
    crate::mon::quiet_panics();
    let inp = std::fs::File::open(&args[0]).map_err(|e| e.to_string())?;
    let stream_spec: J = serde_json::from_str(&std::fs::read_to_string(&args[1]).map_err(|e| e.to_string())?).map_err(|e| e.to_string())?;
    let mut out = std::io::BufWriter::new(std::fs::File::create(&args[2]).map_err(|e| e.to_string())?);
    for line in std::io::BufReader::new(inp).lines() {
        let line = line.map_err(|e| e.to_string())?;
        if line.trim().is_empty() { continue; }
        let c: J = serde_json::from_str(&line).map_err(|e| e.to_string())?;
        let rt = tokio::runtime::Builder::new_current_thread().enable_all().start_paused(true).build().unwrap();
        let r = rt.block_on(async { if c["k"] == "enc" { enc_case(&c).await } else { dec_case(&c, &stream_spec).await } });
        rt.shutdown_background();
        writeln!(out, "{}", r).map_err(|e| e.to_string())?;
    }
    Ok(())
}
