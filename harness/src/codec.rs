//! Exec for the codec specifications (C03, C05, C20, C04).
//! Input: ndjson cases printed by MC_Codec.tla.  Output: ndjson facts about what the real
//! encoder / decoders did with them; CodecTrace.tla judges the bytes with the reference decoder.
use crate::absval::{build, bytes, same, unbuild};
use crate::mon;
use fe2o3_amqp_types::{
    definitions, messaging,
    messaging::message::__private::{Deserializable, Serializable},
    performatives, sasl, transaction,
};
use serde::{de::DeserializeOwned, Serialize};
use serde_amqp::Value;
use serde_json::{json, Value as J};
use std::fmt::Debug;
use std::io::{BufRead, Read, Write};
use std::panic::{catch_unwind, AssertUnwindSafe};

type R<T> = Result<T, String>;

/// A reader that hands out at most `chunk` bytes per read call.
pub struct Chunked<'a> {
    pub data: &'a [u8],
    pub pos: usize,
    pub chunk: usize,
}
impl<'a> Read for Chunked<'a> {
    fn read(&mut self, buf: &mut [u8]) -> std::io::Result<usize> {
        let n = buf.len().min(self.chunk).min(self.data.len() - self.pos);
        buf[..n].copy_from_slice(&self.data[self.pos..self.pos + n]);
        self.pos += n;
        Ok(n)
    }
}

fn guarded<T>(f: impl FnOnce() -> Result<T, serde_amqp::Error>) -> Result<T, &'static str> {
    match catch_unwind(AssertUnwindSafe(f)) {
        Ok(Ok(v)) => Ok(v),
        Ok(Err(_)) => Err("err"),
        Err(_) => Err("panic"),
    }
}
fn tag<T>(r: &Result<T, &'static str>) -> &'static str {
    match r {
        Ok(_) => "ok",
        Err(e) => e,
    }
}

const TAILS: [&[u8]; 3] = [&[0x40], &[0xa1, 0x01, 0x61, 0xff], &[0xde, 0xad]];
const CHUNKS: [usize; 6] = [1, 2, 3, 7, 16, 1 << 20];

/// Facts about one untyped value.
fn value_case(c: &J) -> J {
    let v = build(&c["v"]);
    let encs: Vec<Vec<u8>> = c["encs"].as_array().unwrap().iter().map(bytes).collect();
    // C05 decoder half / C04 accepts-valid: every spec-valid encoding decodes to v
    let mut dec_slice = vec![];
    let mut dec_reader = vec![];
    let mut consumed = vec![];
    for e in &encs {
        let r = guarded(|| serde_amqp::from_slice::<Value>(e));
        dec_slice.push(match &r { Ok(d) if same(d, &v) => "ok", Ok(_) => "wrong", Err(e) => e });
        // C20: slice and reader agree, for every chunking, and leave the tail untouched
        let mut rd = "ok";
        let mut cons = "ok";
        for ch in CHUNKS {
            for tail in TAILS.iter().copied().chain([&[][..]]) {
                let mut full = e.clone();
                full.extend_from_slice(tail);
                let mut src = Chunked { data: &full, pos: 0, chunk: ch };
                let rr = guarded(|| {
                    let mut de = serde_amqp::de::Deserializer::new(serde_amqp::read::IoReader::new(&mut src));
                    <Value as serde::Deserialize>::deserialize(&mut de)
                });
                match (&rr, &r) {
                    (Ok(a), Ok(b)) if same(a, b) => {}
                    (Err(_), Err(_)) => {}
                    _ => rd = "differs",
                }
                // the io reader may buffer ahead only as far as the value itself: what it has taken
                // from the underlying stream must not exceed the encoding
                if rr.is_ok() && src.pos > e.len() { cons = "overread"; }
                // slice reader with a tail
                let rs = guarded(|| {
                    let mut de = serde_amqp::de::Deserializer::new(serde_amqp::read::SliceReader::new(&full));
                    <Value as serde::Deserialize>::deserialize(&mut de)
                });
                match (&rs, &r) {
                    (Ok(a), Ok(b)) if same(a, b) => {}
                    (Err(_), Err(_)) => {}
                    _ => cons = "tail-changes-result",
                }
            }
        }
        dec_reader.push(rd);
        consumed.push(cons);
    }
    // C03 / C05 encoder half
    let enc = guarded(|| serde_amqp::to_vec(&v));
    let re = enc.clone().unwrap_or_default();
    let rt = match &enc {
        Ok(b) => match guarded(|| serde_amqp::from_slice::<Value>(b)) { Ok(d) if same(&d, &v) => "ok", Ok(_) => "wrong", Err(e) => e },
        Err(_) => "noenc",
    };
    let size = match (&enc, guarded(|| serde_amqp::serialized_size(&v))) { (Ok(b), Ok(n)) if n == b.len() => "ok", (Err(_), _) => "noenc", (_, Err(e)) => e, _ => "differs" };
    // C20 value tree: Value -> to_value -> Value is the identity; typed view through bytes equals typed view through the tree
    let tv = match guarded(|| serde_amqp::to_value(&v)) { Ok(t) if same(&t, &v) => "ok", Ok(_) => "wrong", Err(e) => e };
    let lazy = match &enc {
        Ok(b) => match guarded(|| serde_amqp::from_slice::<serde_amqp::lazy::LazyValue>(b)) { Ok(l) if l.as_slice() == &b[..] => "ok", Ok(_) => "wrong", Err(e) => e },
        Err(_) => "noenc",
    };
    json!({"k": "value", "ty": "value", "v": c["v"], "dec": dec_slice, "rd": dec_reader, "cons": consumed, "enc": tag(&enc), "re": re,
           "rt": rt, "size": size, "tv": tv, "tvback": tv, "tree": c["v"], "lazy": lazy, "same": "ok", "proj": "ok"})
}

/// Facts about one typed item decoded as `T`.
fn typed<T>(c: &J, proj: impl Fn(&T) -> &'static str) -> J
where
    T: Serialize + DeserializeOwned + Debug,
{
    let encs: Vec<Vec<u8>> = c["encs"].as_array().unwrap().iter().map(bytes).collect();
    let mut dec = vec![];
    let mut rdv = vec![];
    let mut cons = vec![];
    let mut first: Option<T> = None;
    let mut all_same = "ok";
    for e in &encs {
        let r = guarded(|| serde_amqp::from_slice::<T>(e));
        dec.push(tag(&r));
        let mut rd = "ok";
        for ch in [1usize, 3, 1 << 20] {
            let mut src = Chunked { data: e, pos: 0, chunk: ch };
            let rr = guarded(|| serde_amqp::from_reader::<T>(&mut src));
            match (&rr, &r) { (Ok(a), Ok(b)) if eqv(a, b) => {} (Err(_), Err(_)) => {} _ => rd = "differs" }
        }
        rdv.push(rd);
        // performative followed by payload: decoding must stop exactly at the end of the value
        // (a message is by definition the whole payload: sections are read until the input ends)
        let mut full = e.clone();
        if c["k"] != "message" { full.extend_from_slice(&[1, 2, 3, 0xff]); }
        let rs = guarded(|| {
            let mut de = serde_amqp::de::Deserializer::new(serde_amqp::read::SliceReader::new(&full));
            <T as serde::Deserialize>::deserialize(&mut de)
        });
        cons.push(match (&rs, &r) { (Ok(a), Ok(b)) if eqv(a, b) => "ok", (Err(_), Err(_)) => "ok", _ => "tail-changes-result" });
        if let Ok(x) = r {
            match &first { None => first = Some(x), Some(f) => if !eqv(f, &x) { all_same = "differs" } }
        }
    }
    let mut tree = json!({"t": "null"});
    let mut tvback = "nodec";
    let (enc, re, rt, size, tv, pj) = match &first {
        None => ("nodec", vec![], "nodec", "nodec", "nodec", "nodec"),
        Some(x) => {
            let enc = guarded(|| serde_amqp::to_vec(x));
            let re = enc.clone().unwrap_or_default();
            let rt = match &enc { Ok(b) => match guarded(|| serde_amqp::from_slice::<T>(b)) { Ok(d) if eqv(&d, x) => "ok", Ok(_) => "wrong", Err(e) => e }, Err(_) => "noenc" };
            let size = match (&enc, guarded(|| serde_amqp::serialized_size(x))) { (Ok(b), Ok(n)) if n == b.len() => "ok", (Err(_), _) => "noenc", (_, Err(e)) => e, _ => "differs" };
            // C20: typed -> value tree; the tree is logged (abstract form) and judged by the spec;
            // tree -> bytes must decode to x; tree -> typed (from_value) must give x back
            let tv = match guarded(|| serde_amqp::to_value(x)) {
                Ok(t) => {
                    tree = unbuild(&t);
                    let via = guarded(|| serde_amqp::to_vec(&t)).and_then(|b| guarded(|| serde_amqp::from_slice::<T>(&b)));
                    tvback = match guarded(|| serde_amqp::from_value::<T>(t.clone())) { Ok(a) if eqv(&a, x) => "ok", Ok(_) => "wrong", Err(e) => e };
                    match via { Ok(b) if eqv(&b, x) => "ok", Err(e) => e, _ => "wrong" }
                }
                Err(e) => e,
            };
            (tag(&enc), re, rt, size, tv, proj(x))
        }
    };
    json!({"k": c["k"], "ty": c["ty"], "v": c["v"], "dec": dec, "rd": rdv, "cons": cons, "enc": enc, "re": re,
           "rt": rt, "size": size, "tv": tv, "tvback": tvback, "tree": tree, "lazy": "ok", "same": all_same, "proj": pj})
}

/// Equality of decoded typed items by their Debug rendering (several protocol types have no PartialEq).
fn eqv<T: Debug>(a: &T, b: &T) -> bool { format!("{a:?}") == format!("{b:?}") }
fn noproj<T>(_: &T) -> &'static str { "ok" }

/// Decode as the composite itself, then (for performatives) also through the `Performative` enum.
fn typed_case(c: &J) -> Vec<J> {
    let ty = c["ty"].as_str().unwrap();
    let mut out = vec![];
    macro_rules! perf {
        ($t:ty, $var:ident) => {{
            out.push(typed::<$t>(c, noproj));
            let mut c2 = c.clone();
            c2["ty"] = json!(format!("performative/{}", ty));
            out.push(typed::<performatives::Performative>(&c2, |p| if matches!(p, performatives::Performative::$var(_)) { "ok" } else { "wrong-variant" }));
        }};
    }
    macro_rules! via {
        ($t:ty, $name:expr, $pat:pat) => {{
            let mut c2 = c.clone();
            c2["ty"] = json!(format!("{}/{}", $name, ty));
            out.push(typed::<$t>(&c2, |p| if matches!(p, $pat) { "ok" } else { "wrong-variant" }));
        }};
    }
    match ty {
        "open" => perf!(performatives::Open, Open),
        "begin" => perf!(performatives::Begin, Begin),
        "attach" => perf!(performatives::Attach, Attach),
        "flow" => perf!(performatives::Flow, Flow),
        "transfer" => perf!(performatives::Transfer, Transfer),
        "disposition" => perf!(performatives::Disposition, Disposition),
        "detach" => perf!(performatives::Detach, Detach),
        "end" => perf!(performatives::End, End),
        "close" => perf!(performatives::Close, Close),
        "error" => out.push(typed::<definitions::Error>(c, noproj)),
        "received" => { out.push(typed::<messaging::Received>(c, noproj)); via!(messaging::DeliveryState, "delivery-state", messaging::DeliveryState::Received(_)); }
        "accepted" => { out.push(typed::<messaging::Accepted>(c, noproj)); via!(messaging::DeliveryState, "delivery-state", messaging::DeliveryState::Accepted(_)); via!(messaging::Outcome, "outcome", messaging::Outcome::Accepted(_)); }
        "rejected" => { out.push(typed::<messaging::Rejected>(c, noproj)); via!(messaging::DeliveryState, "delivery-state", messaging::DeliveryState::Rejected(_)); via!(messaging::Outcome, "outcome", messaging::Outcome::Rejected(_)); }
        "released" => { out.push(typed::<messaging::Released>(c, noproj)); via!(messaging::DeliveryState, "delivery-state", messaging::DeliveryState::Released(_)); via!(messaging::Outcome, "outcome", messaging::Outcome::Released(_)); }
        "modified" => { out.push(typed::<messaging::Modified>(c, noproj)); via!(messaging::DeliveryState, "delivery-state", messaging::DeliveryState::Modified(_)); via!(messaging::Outcome, "outcome", messaging::Outcome::Modified(_)); }
        "source" => out.push(typed::<messaging::Source>(c, noproj)),
        "target" => { out.push(typed::<messaging::Target>(c, noproj)); via!(messaging::TargetArchetype, "target-archetype", messaging::TargetArchetype::Target(_)); }
        "coordinator" => { out.push(typed::<transaction::Coordinator>(c, noproj)); via!(messaging::TargetArchetype, "target-archetype", messaging::TargetArchetype::Coordinator(_)); }
        "declare" => out.push(typed::<transaction::Declare>(c, noproj)),
        "discharge" => out.push(typed::<transaction::Discharge>(c, noproj)),
        "declared" => { out.push(typed::<transaction::Declared>(c, noproj)); via!(messaging::DeliveryState, "delivery-state", messaging::DeliveryState::Declared(_)); via!(messaging::Outcome, "outcome", messaging::Outcome::Declared(_)); }
        "transactional-state" => { out.push(typed::<transaction::TransactionalState>(c, noproj)); via!(messaging::DeliveryState, "delivery-state", messaging::DeliveryState::TransactionalState(_)); }
        "sasl-mechanisms" => { out.push(typed::<sasl::SaslMechanisms>(c, noproj)); via!(fe2o3_amqp::frames::sasl::Frame, "sasl-frame", fe2o3_amqp::frames::sasl::Frame::Mechanisms(_)); }
        "sasl-init" => { out.push(typed::<sasl::SaslInit>(c, noproj)); via!(fe2o3_amqp::frames::sasl::Frame, "sasl-frame", fe2o3_amqp::frames::sasl::Frame::Init(_)); }
        "sasl-challenge" => { out.push(typed::<sasl::SaslChallenge>(c, noproj)); via!(fe2o3_amqp::frames::sasl::Frame, "sasl-frame", fe2o3_amqp::frames::sasl::Frame::Challenge(_)); }
        "sasl-response" => { out.push(typed::<sasl::SaslResponse>(c, noproj)); via!(fe2o3_amqp::frames::sasl::Frame, "sasl-frame", fe2o3_amqp::frames::sasl::Frame::Response(_)); }
        "sasl-outcome" => { out.push(typed::<sasl::SaslOutcome>(c, noproj)); via!(fe2o3_amqp::frames::sasl::Frame, "sasl-frame", fe2o3_amqp::frames::sasl::Frame::Outcome(_)); }
        "header" => out.push(typed::<messaging::Header>(c, noproj)),
        "properties" => out.push(typed::<messaging::Properties>(c, noproj)),
        other => panic!("no Rust type bound to composite {other}"),
    }
    out
}

/// A wrapper giving `Message<Body<Value>>` plain Serialize / Deserialize for the generic path.
#[derive(Debug)]
struct Msg(messaging::Message<messaging::Body<Value>>);
impl Serialize for Msg {
    fn serialize<S: serde::Serializer>(&self, s: S) -> Result<S::Ok, S::Error> {
        Serializable(&self.0).serialize(s)
    }
}
impl<'de> serde::Deserialize<'de> for Msg {
    fn deserialize<D: serde::Deserializer<'de>>(d: D) -> Result<Self, D::Error> {
        Deserializable::<messaging::Message<messaging::Body<Value>>>::deserialize(d).map(|m| Msg(m.0))
    }
}

pub fn run_case(c: &J) -> Vec<J> {
    match c["k"].as_str().unwrap() {
        "value" => vec![value_case(c)],
        "typed" => typed_case(c),
        "message" => {
            let mut c2 = c.clone();
            c2["ty"] = json!("message");
            vec![typed::<Msg>(&c2, noproj)]
        }
        k => panic!("case kind {k}"),
    }
}

pub fn main(args: &[String]) -> R<()> {
    mon::quiet_panics();
    let inp = std::fs::File::open(&args[0]).map_err(|e| e.to_string())?;
    let mut out = std::io::BufWriter::new(std::fs::File::create(&args[1]).map_err(|e| e.to_string())?);
    let mut n = 0usize;
    for line in std::io::BufReader::new(inp).lines() {
        let line = line.map_err(|e| e.to_string())?;
        if line.trim().is_empty() { continue; }
        let c: J = serde_json::from_str(&line).map_err(|e| e.to_string())?;
        for r in run_case(&c) {
            writeln!(out, "{}", r).map_err(|e| e.to_string())?;
            n += 1;
        }
    }
    eprintln!("vh codec: {n} records");
    Ok(())
}

pub fn decode_main(_args: &[String]) -> R<()> {
    Err("not built yet".into())
}
