//! Exec for the codec specifications (C03, C05, C20, C04).
//! Input: ndjson cases printed by MC_Codec.tla.  Output: ndjson facts about what the real
//! encoder / decoders did with them; CodecTrace.tla judges the bytes with the reference decoder.
use crate::absval::{build, bytes, same, unbuild};
use crate::mon;
use fe2o3_amqp_types::{
    definitions, messaging,
    messaging::message::__private::{Deserializable, Serializable},
    performatives, sasl, transaction,
};
use serde::{de::DeserializeOwned, Serialize};
use serde_amqp::Value;
use serde_json::{json, Value as J};
use std::fmt::Debug;
use std::io::{BufRead, Read, Write};
use std::panic::{catch_unwind, AssertUnwindSafe};

type R<T> = Result<T, String>;

/// A reader that hands out at most `chunk` bytes per read call.
pub struct Chunked<'a> {
    pub data: &'a [u8],
    pub pos: usize,
    pub chunk: usize,
}
/// A reader that answers every other call with `ErrorKind::Interrupted` (a signal arrived; the caller is expected to retry) and
/// otherwise hands out at most `chunk` bytes.
pub struct Interrupting<'a> {
    pub data: &'a [u8],
    pub pos: usize,
    pub chunk: usize,
    pub calls: usize,
}
impl<'a> Read for Interrupting<'a> {
    fn read(&mut self, buf: &mut [u8]) -> std::io::Result<usize> {
        self.calls += 1;
        if self.calls % 2 == 1 { return Err(std::io::Error::new(std::io::ErrorKind::Interrupted, "interrupted")); }
        let n = buf.len().min(self.chunk).min(self.data.len() - self.pos);
        buf[..n].copy_from_slice(&self.data[self.pos..self.pos + n]);
        self.pos += n;
        Ok(n)
    }
}
impl<'a> Read for Chunked<'a> {
    fn read(&mut self, buf: &mut [u8]) -> std::io::Result<usize> {
        let n = buf.len().min(self.chunk).min(self.data.len() - self.pos);
        buf[..n].copy_from_slice(&self.data[self.pos..self.pos + n]);
        self.pos += n;
        Ok(n)
    }
}

fn guarded<T>(f: impl FnOnce() -> Result<T, serde_amqp::Error>) -> Result<T, &'static str> {
    match catch_unwind(AssertUnwindSafe(f)) {
        Ok(Ok(v)) => Ok(v),
        Ok(Err(_)) => Err("err"),
        Err(_) => Err("panic"),
    }
}
fn tag<T>(r: &Result<T, &'static str>) -> &'static str {
    match r {
        Ok(_) => "ok",
        Err(e) => e,
    }
}

const TAILS: [&[u8]; 3] = [&[0x40], &[0xa1, 0x01, 0x61, 0xff], &[0xde, 0xad]];
const CHUNKS: [usize; 6] = [1, 2, 3, 7, 16, 1 << 20];

/// Facts about one untyped value.
fn value_case(c: &J) -> J {
    let v = build(&c["v"]);
    let encs: Vec<Vec<u8>> = c["encs"].as_array().unwrap().iter().map(bytes).collect();
    // C05 decoder half / C04 accepts-valid: every spec-valid encoding decodes to v
    let mut dec_slice = vec![];
    let mut dec_reader = vec![];
    let mut consumed = vec![];
    for e in &encs {
        let r = guarded(|| serde_amqp::from_slice::<Value>(e));
        dec_slice.push(match &r { Ok(d) if same(d, &v) => "ok", Ok(_) => "wrong", Err(e) => e });
        // C20: slice and reader agree, for every chunking, and leave the tail untouched
        let mut rd = "ok";
        let mut cons = "ok";
        for ch in CHUNKS {
            for tail in TAILS.iter().copied().chain([&[][..]]) {
                let mut full = e.clone();
                full.extend_from_slice(tail);
                let mut src = Chunked { data: &full, pos: 0, chunk: ch };
                let rr = guarded(|| {
                    let mut de = serde_amqp::de::Deserializer::new(serde_amqp::read::IoReader::new(&mut src));
                    <Value as serde::Deserialize>::deserialize(&mut de)
                });
                match (&rr, &r) {
                    (Ok(a), Ok(b)) if same(a, b) => {}
                    (Err(_), Err(_)) => {}
                    _ => rd = "differs",
                }
                // the io reader may buffer ahead only as far as the value itself: what it has taken
                // from the underlying stream must not exceed the encoding
                if rr.is_ok() && src.pos > e.len() { cons = "overread"; }
                // slice reader with a tail
                let rs = guarded(|| {
                    let mut de = serde_amqp::de::Deserializer::new(serde_amqp::read::SliceReader::new(&full));
                    <Value as serde::Deserialize>::deserialize(&mut de)
                });
                match (&rs, &r) {
                    (Ok(a), Ok(b)) if same(a, b) => {}
                    (Err(_), Err(_)) => {}
                    _ => cons = "tail-changes-result",
                }
            }
        }
        dec_reader.push(rd);
        consumed.push(cons);
    }
    // C03 / C05 encoder half
    let enc = guarded(|| serde_amqp::to_vec(&v));
    let re = enc.clone().unwrap_or_default();
    let rt = match &enc {
        Ok(b) => match guarded(|| serde_amqp::from_slice::<Value>(b)) { Ok(d) if same(&d, &v) => "ok", Ok(_) => "wrong", Err(e) => e },
        Err(_) => "noenc",
    };
    let size = match (&enc, guarded(|| serde_amqp::serialized_size(&v))) { (Ok(b), Ok(n)) if n == b.len() => "ok", (Err(_), _) => "noenc", (_, Err(e)) => e, _ => "differs" };
    // C20 value tree: Value -> to_value -> Value is the identity; typed view through bytes equals typed view through the tree
    let tv = match guarded(|| serde_amqp::to_value(&v)) { Ok(t) if same(&t, &v) => "ok", Ok(_) => "wrong", Err(e) => e };
    let lazy = match &enc {
        Ok(b) => match guarded(|| serde_amqp::from_slice::<serde_amqp::lazy::LazyValue>(b)) { Ok(l) if l.as_slice() == &b[..] => "ok", Ok(_) => "wrong", Err(e) => e },
        Err(_) => "noenc",
    };
    json!({"k": "value", "ty": "value", "v": c["v"], "dec": dec_slice, "rd": dec_reader, "cons": consumed, "enc": tag(&enc), "re": re,
           "rt": rt, "size": size, "tv": tv, "tvback": tv, "tree": c["v"], "lazy": lazy, "same": "ok", "proj": "ok", "dbg": ""})
}

/// Facts about one typed item decoded as `T`.
fn typed<T>(c: &J, proj: impl Fn(&T) -> &'static str) -> J
where
    T: Serialize + DeserializeOwned + Debug,
{
    let encs: Vec<Vec<u8>> = c["encs"].as_array().unwrap().iter().map(bytes).collect();
    let mut dec = vec![];
    let mut rdv = vec![];
    let mut cons = vec![];
    let mut first: Option<T> = None;
    let mut all_same = "ok";
    for e in &encs {
        let r = guarded(|| serde_amqp::from_slice::<T>(e));
        dec.push(tag(&r));
        let mut rd = "ok";
        for ch in [1usize, 3, 1 << 20] {
            let mut src = Chunked { data: e, pos: 0, chunk: ch };
            let rr = guarded(|| serde_amqp::from_reader::<T>(&mut src));
            match (&rr, &r) { (Ok(a), Ok(b)) if eqv(a, b) => {} (Err(_), Err(_)) => {} _ => rd = "differs" }
        }
        // a stream whose reads are interrupted now and then is still the same stream
        {
            let mut src = Interrupting { data: e, pos: 0, chunk: 3, calls: 0 };
            let rr = guarded(|| serde_amqp::from_reader::<T>(&mut src));
            match (&rr, &r) { (Ok(a), Ok(b)) if eqv(a, b) => {} (Err(_), Err(_)) => {} _ => if rd == "ok" { rd = "differs-interrupted" } }
        }
        // a stream reader must not take more from the stream than the value: whatever it reads ahead is lost with it
        // (the frame decoder hands the rest of the stream on as payload).  Fed one byte at a time the position is exact.
        if c["k"] != "message" && r.is_ok() {
            let mut full = e.clone();
            full.extend_from_slice(&[1, 2, 3, 0xff]);
            let mut src = Chunked { data: &full, pos: 0, chunk: 1 };
            let rr = guarded(|| serde_amqp::from_reader::<T>(&mut src));
            if rr.is_ok() && src.pos != e.len() { rd = "overreads"; }
        }
        rdv.push(rd);
        // performative followed by payload: decoding must stop exactly at the end of the value
        // (a message is by definition the whole payload: sections are read until the input ends)
        let mut full = e.clone();
        if c["k"] != "message" { full.extend_from_slice(&[1, 2, 3, 0xff]); }
        let rs = guarded(|| {
            let mut de = serde_amqp::de::Deserializer::new(serde_amqp::read::SliceReader::new(&full));
            <T as serde::Deserialize>::deserialize(&mut de)
        });
        cons.push(match (&rs, &r) { (Ok(a), Ok(b)) if eqv(a, b) => "ok", (Err(_), Err(_)) => "ok", _ => "tail-changes-result" });
        if let Ok(x) = r {
            match &first { None => first = Some(x), Some(f) => if !eqv(f, &x) { all_same = "differs" } }
        }
    }
    let mut tree = json!({"t": "null"});
    let mut tvback = "nodec";
    // the decoded item's Debug rendering: field names with their values, for the field-position projection
    let dbg: String = first.as_ref().map(|x| format!("{x:?}").chars().take(8000).collect()).unwrap_or_default();
    let (enc, re, rt, size, tv, pj) = match &first {
        None => ("nodec", vec![], "nodec", "nodec", "nodec", "nodec"),
        Some(x) => {
            let enc = guarded(|| serde_amqp::to_vec(x));
            let re = enc.clone().unwrap_or_default();
            let rt = match &enc { Ok(b) => match guarded(|| serde_amqp::from_slice::<T>(b)) { Ok(d) if eqv(&d, x) => "ok", Ok(_) => "wrong", Err(e) => e }, Err(_) => "noenc" };
            let size = match (&enc, guarded(|| serde_amqp::serialized_size(x))) { (Ok(b), Ok(n)) if n == b.len() => "ok", (Err(_), _) => "noenc", (_, Err(e)) => e, _ => "differs" };
            // C20: typed -> value tree; the tree is logged (abstract form) and judged by the spec;
            // tree -> bytes must decode to x; tree -> typed (from_value) must give x back
            let tv = match guarded(|| serde_amqp::to_value(x)) {
                Ok(t) => {
                    tree = unbuild(&t);
                    let via = guarded(|| serde_amqp::to_vec(&t)).and_then(|b| guarded(|| serde_amqp::from_slice::<T>(&b)));
                    tvback = match guarded(|| serde_amqp::from_value::<T>(t.clone())) { Ok(a) if eqv(&a, x) => "ok", Ok(_) => "wrong", Err(e) => e };
                    match via { Ok(b) if eqv(&b, x) => "ok", Err(e) => e, _ => "wrong" }
                }
                Err(e) => e,
            };
            (tag(&enc), re, rt, size, tv, proj(x))
        }
    };
    json!({"k": c["k"], "ty": c["ty"], "v": c["v"], "dec": dec, "rd": rdv, "cons": cons, "enc": enc, "re": re,
           "rt": rt, "size": size, "tv": tv, "tvback": tvback, "tree": tree, "lazy": "ok", "same": all_same, "proj": pj, "dbg": dbg})
}

/// Equality of decoded typed items by their Debug rendering (several protocol types have no PartialEq).
fn eqv<T: Debug>(a: &T, b: &T) -> bool { format!("{a:?}") == format!("{b:?}") }
fn noproj<T>(_: &T) -> &'static str { "ok" }

/// Decode as the composite itself, then (for performatives) also through the `Performative` enum.
fn typed_case(c: &J) -> Vec<J> {
    let ty = c["ty"].as_str().unwrap();
    let mut out = vec![];
    macro_rules! perf {
        ($t:ty, $var:ident) => {{
            out.push(typed::<$t>(c, noproj));
            let mut c2 = c.clone();
            c2["ty"] = json!(format!("performative/{}", ty));
            out.push(typed::<performatives::Performative>(&c2, |p| if matches!(p, performatives::Performative::$var(_)) { "ok" } else { "wrong-variant" }));
        }};
    }
    macro_rules! via {
        ($t:ty, $name:expr, $pat:pat) => {{
            let mut c2 = c.clone();
            c2["ty"] = json!(format!("{}/{}", $name, ty));
            out.push(typed::<$t>(&c2, |p| if matches!(p, $pat) { "ok" } else { "wrong-variant" }));
        }};
    }
    match ty {
        "open" => perf!(performatives::Open, Open),
        "begin" => perf!(performatives::Begin, Begin),
        "attach" => perf!(performatives::Attach, Attach),
        "flow" => perf!(performatives::Flow, Flow),
        "transfer" => perf!(performatives::Transfer, Transfer),
        "disposition" => perf!(performatives::Disposition, Disposition),
        "detach" => perf!(performatives::Detach, Detach),
        "end" => perf!(performatives::End, End),
        "close" => perf!(performatives::Close, Close),
        "error" => out.push(typed::<definitions::Error>(c, noproj)),
        "received" => { out.push(typed::<messaging::Received>(c, noproj)); via!(messaging::DeliveryState, "delivery-state", messaging::DeliveryState::Received(_)); }
        "accepted" => { out.push(typed::<messaging::Accepted>(c, noproj)); via!(messaging::DeliveryState, "delivery-state", messaging::DeliveryState::Accepted(_)); via!(messaging::Outcome, "outcome", messaging::Outcome::Accepted(_)); }
        "rejected" => { out.push(typed::<messaging::Rejected>(c, noproj)); via!(messaging::DeliveryState, "delivery-state", messaging::DeliveryState::Rejected(_)); via!(messaging::Outcome, "outcome", messaging::Outcome::Rejected(_)); }
        "released" => { out.push(typed::<messaging::Released>(c, noproj)); via!(messaging::DeliveryState, "delivery-state", messaging::DeliveryState::Released(_)); via!(messaging::Outcome, "outcome", messaging::Outcome::Released(_)); }
        "modified" => { out.push(typed::<messaging::Modified>(c, noproj)); via!(messaging::DeliveryState, "delivery-state", messaging::DeliveryState::Modified(_)); via!(messaging::Outcome, "outcome", messaging::Outcome::Modified(_)); }
        "source" => out.push(typed::<messaging::Source>(c, noproj)),
        "target" => { out.push(typed::<messaging::Target>(c, noproj)); via!(messaging::TargetArchetype, "target-archetype", messaging::TargetArchetype::Target(_)); }
        "coordinator" => { out.push(typed::<transaction::Coordinator>(c, noproj)); via!(messaging::TargetArchetype, "target-archetype", messaging::TargetArchetype::Coordinator(_)); }
        "declare" => out.push(typed::<transaction::Declare>(c, noproj)),
        "discharge" => out.push(typed::<transaction::Discharge>(c, noproj)),
        "declared" => { out.push(typed::<transaction::Declared>(c, noproj)); via!(messaging::DeliveryState, "delivery-state", messaging::DeliveryState::Declared(_)); via!(messaging::Outcome, "outcome", messaging::Outcome::Declared(_)); }
        "transactional-state" => { out.push(typed::<transaction::TransactionalState>(c, noproj)); via!(messaging::DeliveryState, "delivery-state", messaging::DeliveryState::TransactionalState(_)); }
        "sasl-mechanisms" => { out.push(typed::<sasl::SaslMechanisms>(c, noproj)); via!(fe2o3_amqp::frames::sasl::Frame, "sasl-frame", fe2o3_amqp::frames::sasl::Frame::Mechanisms(_)); }
        "sasl-init" => { out.push(typed::<sasl::SaslInit>(c, noproj)); via!(fe2o3_amqp::frames::sasl::Frame, "sasl-frame", fe2o3_amqp::frames::sasl::Frame::Init(_)); }
        "sasl-challenge" => { out.push(typed::<sasl::SaslChallenge>(c, noproj)); via!(fe2o3_amqp::frames::sasl::Frame, "sasl-frame", fe2o3_amqp::frames::sasl::Frame::Challenge(_)); }
        "sasl-response" => { out.push(typed::<sasl::SaslResponse>(c, noproj)); via!(fe2o3_amqp::frames::sasl::Frame, "sasl-frame", fe2o3_amqp::frames::sasl::Frame::Response(_)); }
        "sasl-outcome" => { out.push(typed::<sasl::SaslOutcome>(c, noproj)); via!(fe2o3_amqp::frames::sasl::Frame, "sasl-frame", fe2o3_amqp::frames::sasl::Frame::Outcome(_)); }
        "header" => out.push(typed::<messaging::Header>(c, noproj)),
        "properties" => out.push(typed::<messaging::Properties>(c, noproj)),
        other => panic!("no Rust type bound to composite {other}"),
    }
    out
}

/// A wrapper giving `Message<Body<Value>>` plain Serialize / Deserialize for the generic path.
#[derive(Debug)]
struct Msg(messaging::Message<messaging::Body<Value>>);
impl Serialize for Msg {
    fn serialize<S: serde::Serializer>(&self, s: S) -> Result<S::Ok, S::Error> {
        Serializable(&self.0).serialize(s)
    }
}
impl<'de> serde::Deserialize<'de> for Msg {
    fn deserialize<D: serde::Deserializer<'de>>(d: D) -> Result<Self, D::Error> {
        Deserializable::<messaging::Message<messaging::Body<Value>>>::deserialize(d).map(|m| Msg(m.0))
    }
}

pub fn run_case(c: &J) -> Vec<J> {
    match c["k"].as_str().unwrap() {
        "value" => vec![value_case(c)],
        "typed" => typed_case(c),
        "message" => {
            let mut c2 = c.clone();
            c2["ty"] = json!("message");
            vec![typed::<Msg>(&c2, noproj)]
        }
        k => panic!("case kind {k}"),
    }
}

pub fn main(args: &[String]) -> R<()> {
    mon::quiet_panics();
    let inp = std::fs::File::open(&args[0]).map_err(|e| e.to_string())?;
    let mut out = std::io::BufWriter::new(std::fs::File::create(&args[1]).map_err(|e| e.to_string())?);
    let mut n = 0usize;
    for line in std::io::BufReader::new(inp).lines() {
        let line = line.map_err(|e| e.to_string())?;
        if line.trim().is_empty() { continue; }
        let c: J = serde_json::from_str(&line).map_err(|e| e.to_string())?;
        for r in run_case(&c) {
            writeln!(out, "{}", r).map_err(|e| e.to_string())?;
            n += 1;
        }
    }
    eprintln!("vh codec: {n} records");
    Ok(())
}

/// Expand a parametric family descriptor (MC_Decode.tla `Families`) into bytes.
fn family(name: &str, d: usize) -> Vec<u8> {
    let rep = |unit: &[u8], tail: &[u8]| { let mut v = Vec::with_capacity(unit.len() * d + tail.len()); for _ in 0..d { v.extend_from_slice(unit); } v.extend_from_slice(tail); v };
    match name {
        "list8" => rep(&[0xc0, 0xff, 0x01], &[0x40]),
        "list32" => rep(&[0xd0, 0x00, 0xff, 0xff, 0xff, 0, 0, 0, 1], &[0x40]),
        "map8" => rep(&[0xc1, 0xff, 0x02, 0x40], &[0x40]),
        "array8" => rep(&[0xe0, 0xff, 0x01], &[0x40]),
        "array32" => rep(&[0xf0, 0x00, 0xff, 0xff, 0xff, 0, 0, 0, 1], &[0x40]),
        "described" => rep(&[0x00, 0x44], &[0x40]),
        "described-desc" => rep(&[0x00], &[0x44, 0x40]),
        "described-sym" => rep(&[0x00, 0xa3, 0x01, 0x61], &[0x40]),
        "described-ulong" => rep(&[0x00, 0x80, 0, 0, 0, 0, 0, 0, 0, 0x77], &[0x40]),
        "described-list" => rep(&[0x00, 0x53, 0x77, 0xc0, 0xff, 0x01], &[0x40]),
        "mixed" => rep(&[0xc0, 0xff, 0x01, 0xc1, 0xff, 0x02, 0x40, 0xe0, 0xff, 0x01, 0x00, 0x44], &[0x40]),
        "amqp-value-nest" => { let mut v = vec![0x00, 0x53, 0x77]; v.extend(rep(&[0xc0, 0xff, 0x01], &[0x40])); v },
        "bin32-huge" => if d == 1 { vec![0xb0, 0x80, 0, 0, 0] } else { vec![0xb0, 0xff, 0xff, 0xff, 0xff, 1, 2, 3] },
        "str32-huge" => if d == 1 { vec![0xb1, 0x80, 0, 0, 0] } else { vec![0xb1, 0xff, 0xff, 0xff, 0xff, 97, 98, 99] },
        "sym32-huge" => if d == 1 { vec![0xb3, 0x80, 0, 0, 0] } else { vec![0xb3, 0xff, 0xff, 0xff, 0xff, 97, 98, 99] },
        "list32-hugecount" => if d == 1 { vec![0xd0, 0, 0, 0, 8, 0xff, 0xff, 0xff, 0xff, 0x40, 0x40, 0x40, 0x40] } else { vec![0xd0, 0x7f, 0xff, 0xff, 0xff, 0x7f, 0xff, 0xff, 0xff, 0x40] },
        "map32-hugecount" => if d == 1 { vec![0xd1, 0, 0, 0, 8, 0xff, 0xff, 0xff, 0xfe, 0x40, 0x40, 0x40, 0x40] } else { vec![0xd1, 0x7f, 0xff, 0xff, 0xff, 0x7f, 0xff, 0xff, 0xfe, 0x40] },
        "array32-hugecount" => if d == 1 { vec![0xf0, 0, 0, 0, 5, 0xff, 0xff, 0xff, 0xff, 0x40] } else { vec![0xf0, 0x7f, 0xff, 0xff, 0xff, 0x7f, 0xff, 0xff, 0xff, 0x40] },
        "array8-zerowidth" => if d == 1 { vec![0xe0, 0x02, 0xff, 0x40] } else { vec![0xf0, 0, 0, 0, 5, 0, 1, 0, 0, 0x40] },
        other => panic!("family {other}"),
    }
}

/// One entry point: decode, and if it decodes, re-encode and decode again (C04 idempotence).
fn entry<T: Serialize + DeserializeOwned + Debug>(b: &[u8], reader: bool) -> (&'static str, &'static str) {
    let r = if reader {
        let mut src = Chunked { data: b, pos: 0, chunk: 5 };
        guarded(|| serde_amqp::from_reader::<T>(&mut src))
    } else {
        guarded(|| serde_amqp::from_slice::<T>(b))
    };
    let idem = match &r {
        Ok(x) => match guarded(|| serde_amqp::to_vec(x)) {
            Ok(e) => match guarded(|| serde_amqp::from_slice::<T>(&e)) { Ok(y) if eqv(&y, x) => "ok", Ok(_) => "differs", Err("panic") => "panic", Err(_) => "redecode-err" },
            Err("panic") => "panic",
            Err(_) => "reencode-err",
        },
        Err(_) => "na",
    };
    (tag(&r), idem)
}

/// Messages: a message without any body section decodes to `Body::Empty`, which the encoder
/// deliberately writes as an `amqp-value null` section (the specification demands one body
/// section).  Idempotence is therefore judged on the bytes: enc(dec(enc(x))) == enc(x).
fn entry_msg(b: &[u8], reader: bool) -> (&'static str, &'static str) {
    let r = if reader {
        let mut src = Chunked { data: b, pos: 0, chunk: 5 };
        guarded(|| serde_amqp::from_reader::<Msg>(&mut src))
    } else {
        guarded(|| serde_amqp::from_slice::<Msg>(b))
    };
    let idem = match &r {
        Ok(x) => match guarded(|| serde_amqp::to_vec(x)) {
            Ok(e) => match guarded(|| serde_amqp::from_slice::<Msg>(&e)) {
                Ok(y) => match guarded(|| serde_amqp::to_vec(&y)) { Ok(e2) if e2 == e => "ok", Ok(_) => "differs", Err("panic") => "panic", Err(_) => "reencode-err" },
                Err("panic") => "panic",
                Err(_) => "redecode-err",
            },
            Err("panic") => "panic",
            Err(_) => "reencode-err",
        },
        Err(_) => "na",
    };
    (tag(&r), idem)
}

fn decode_case(c: &J, only: Option<usize>) -> J {
    let fam = c["k"] == "family";
    let b: Vec<u8> = if fam { family(c["src"].as_str().unwrap(), c["b"][0].as_u64().unwrap() as usize) } else { bytes(&c["b"]) };
    let mark = mon::alloc_mark();
    let t0 = mon::thread_cpu_ns();
    let want = |i: usize| only.is_none() || only == Some(i);
    // Value through the slice reader: its result is logged in abstract form for the spec to judge
    // (in an isolated run of another entry point the Value decode is left out, so that a decoder that dies is named by its own run)
    let rv = if want(0) { guarded(|| serde_amqp::from_slice::<Value>(&b)) } else { Err("skip") };
    let v = match &rv { Ok(x) if !fam => unbuild(x), _ => json!({"t": "null"}) };
    let mut st = vec![tag(&rv)];
    let mut idem = vec![match &rv {
        Ok(x) => match guarded(|| serde_amqp::to_vec(x)) {
            Ok(e) => match guarded(|| serde_amqp::from_slice::<Value>(&e)) { Ok(y) if same(&y, x) => "ok", Ok(_) => "differs", Err("panic") => "panic", Err(_) => "redecode-err" },
            Err("panic") => "panic",
            Err(_) => "reencode-err",
        },
        Err(_) => "na",
    }];
    let mut push = |i: usize, f: &mut dyn FnMut() -> (&'static str, &'static str)| { let r = if want(i) { f() } else { ("skip", "na") }; st.push(r.0); idem.push(r.1); };
    push(1, &mut || entry::<Value>(&b, true));
    push(2, &mut || entry::<performatives::Performative>(&b, false));
    push(3, &mut || entry::<performatives::Performative>(&b, true));
    push(4, &mut || entry::<fe2o3_amqp::frames::sasl::Frame>(&b, false));
    push(5, &mut || entry_msg(&b, false));
    push(6, &mut || entry_msg(&b, true));
    push(7, &mut || entry::<messaging::DeliveryState>(&b, false));
    push(8, &mut || entry::<definitions::Error>(&b, false));
    push(9, &mut || entry::<messaging::Source>(&b, false));
    // lazy value: must hold exactly the bytes of the first value
    push(10, &mut || {
        let lz = guarded(|| serde_amqp::from_slice::<serde_amqp::lazy::LazyValue>(&b));
        (tag(&lz), match (&lz, &rv) { (Ok(l), Ok(_)) => if b.starts_with(l.as_slice()) { "ok" } else { "differs" }, _ => "na" })
    });
    // frame body through the AMQP frame decoder (doff 2, type 0, channel 0 prepended)
    {
        use tokio_util::codec::Decoder;
        push(11, &mut || {
            let mut src = bytes::BytesMut::with_capacity(b.len() + 4);
            src.extend_from_slice(&[2, 0, 0, 0]);
            src.extend_from_slice(&b);
            let r = match catch_unwind(AssertUnwindSafe(|| (fe2o3_amqp::frames::amqp::FrameDecoder {}).decode(&mut src))) { Ok(Ok(_)) => "ok", Ok(Err(_)) => "err", Err(_) => "panic" };
            (r, "na")
        });
        push(12, &mut || {
            let mut src = bytes::BytesMut::with_capacity(b.len() + 4);
            src.extend_from_slice(&[2, 1, 0, 0]);
            src.extend_from_slice(&b);
            let r = match catch_unwind(AssertUnwindSafe(|| (fe2o3_amqp::frames::sasl::FrameCodec {}).decode(&mut src))) { Ok(Ok(_)) => "ok", Ok(Err(_)) => "err", Err(_) => "panic" };
            (r, "na")
        });
        // the same body behind every other kind of frame header: data offsets 0, 1, 3, 64, 255, and the input itself taken as the whole frame
        push(13, &mut || {
            let mut worst = "err";
            for hdr in [Some([0u8, 0, 0, 0]), Some([1, 0, 0, 0]), Some([3, 0, 0, 0]), Some([64, 0, 0, 0]), Some([255, 0, 0, 0]), Some([3, 1, 0, 0]), Some([255, 1, 0, 0]), None] {
                for sasl in [false, true] {
                    let mut src = bytes::BytesMut::with_capacity(b.len() + 4);
                    if let Some(h) = hdr { if sasl != (h[1] == 1) { continue; } src.extend_from_slice(&h); }
                    src.extend_from_slice(&b);
                    let r = if sasl { match catch_unwind(AssertUnwindSafe(|| (fe2o3_amqp::frames::sasl::FrameCodec {}).decode(&mut src))) { Ok(Ok(_)) => "ok", Ok(Err(_)) => "err", Err(_) => "panic" } }
                            else { match catch_unwind(AssertUnwindSafe(|| (fe2o3_amqp::frames::amqp::FrameDecoder {}).decode(&mut src))) { Ok(Ok(_)) => "ok", Ok(Err(_)) => "err", Err(_) => "panic" } };
                    if r == "panic" { worst = "panic"; } else if r == "ok" && worst != "panic" { worst = "ok"; }
                }
            }
            (worst, "na")
        });
        // a lazy value and a message through the stream reader (the reader the frame decoders use)
        push(14, &mut || {
            let mut src = Chunked { data: &b, pos: 0, chunk: 5 };
            let lz = guarded(|| serde_amqp::from_reader::<serde_amqp::lazy::LazyValue>(&mut src));
            (tag(&lz), match (&lz, &rv) { (Ok(l), Ok(_)) => if b.starts_with(l.as_slice()) { "ok" } else { "differs" }, _ => "na" })
        });
    }
    let cpu_ms = (mon::thread_cpu_ns() - t0) / 1_000_000;
    let peak_kb = mon::alloc_peak_since(mark) / 1024;
    let panic = mon::take_panic().unwrap_or_default();
    json!({"k": c["k"], "src": c["src"], "b": if fam { json!([]) } else { c["b"].clone() }, "n": b.len().min(1 << 30), "arg": if fam { c["b"][0].clone() } else { json!(0) },
           "v": v, "st": st, "idem": idem, "peak_kb": peak_kb.min(1 << 30), "cpu_ms": cpu_ms.min(1 << 30), "panic": panic.chars().take(160).collect::<String>()})
}

/// Index of the case the decode thread is working on and the process CPU time when it started it (watchdog).
static CUR_CASE: std::sync::atomic::AtomicUsize = std::sync::atomic::AtomicUsize::new(usize::MAX);
static CUR_T0: std::sync::atomic::AtomicU64 = std::sync::atomic::AtomicU64::new(0);
/// CPU budget of one input through all entry points; an input that exceeds it ends the child with a marker (C04 "no hang").
const CASE_CPU_NS: u64 = 5_000_000_000;

/// vh decode <cases.ndjson> <out.ndjson> [first-index [only-entry-point]]   (appends to out; one flushed line per case;
/// with an entry point given, only the case at first-index is run and only through that entry point)
pub fn decode_main(args: &[String]) -> R<()> {
    use std::sync::atomic::Ordering::SeqCst;
    mon::quiet_panics();
    let inp = std::fs::read_to_string(&args[0]).map_err(|e| e.to_string())?;
    let from: usize = args.get(2).map(|s| s.parse().unwrap()).unwrap_or(0);
    let only: Option<usize> = args.get(3).map(|s| s.parse().unwrap());
    let mut out = std::fs::OpenOptions::new().create(true).append(true).open(&args[1]).map_err(|e| e.to_string())?;
    let lines: Vec<String> = inp.lines().filter(|l| !l.trim().is_empty()).map(|s| s.to_string()).collect();
    // tokio worker threads have 2 MiB stacks: decode under the same budget
    let h = std::thread::Builder::new().stack_size(2 << 20).spawn(move || -> R<()> {
        for (i, line) in lines.iter().enumerate().skip(from) {
            let c: J = serde_json::from_str(line).map_err(|e| e.to_string())?;
            CUR_T0.store(mon::process_cpu_ns(), SeqCst);
            CUR_CASE.store(i, SeqCst);
            let r = decode_case(&c, only);
            writeln!(out, "{}", r).map_err(|e| e.to_string())?;
            if only.is_some() { break; }
        }
        CUR_CASE.store(usize::MAX, SeqCst);
        Ok(())
    }).map_err(|e| e.to_string())?;
    // watchdog: process CPU time (only the decode thread works), so machine load cannot trip it
    while !h.is_finished() {
        std::thread::sleep(std::time::Duration::from_millis(50));
        if CUR_CASE.load(SeqCst) != usize::MAX && mon::process_cpu_ns().saturating_sub(CUR_T0.load(SeqCst)) > CASE_CPU_NS {
            eprintln!("VH-CPU-EXCEEDED case {}", CUR_CASE.load(SeqCst));
            std::process::exit(86);
        }
    }
    h.join().map_err(|_| "decode thread panicked".to_string())?
}
