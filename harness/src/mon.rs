#![allow(dead_code)]
//! Trusted monitors: counting allocator, panic capture, thread CPU time.
use std::alloc::{GlobalAlloc, Layout, System};
use std::sync::atomic::{AtomicUsize, Ordering::Relaxed};

pub struct Counting;
static CUR: AtomicUsize = AtomicUsize::new(0);
static PEAK: AtomicUsize = AtomicUsize::new(0);
static BIGGEST: AtomicUsize = AtomicUsize::new(0);
/// Requests above this are refused (null), which aborts the process: the driver sees the child die.
const REFUSE: usize = 1 << 30;

unsafe impl GlobalAlloc for Counting {
    unsafe fn alloc(&self, l: Layout) -> *mut u8 {
        note(l.size());
        if l.size() > REFUSE { refused(l.size()); return std::ptr::null_mut(); }
        System.alloc(l)
    }
    unsafe fn alloc_zeroed(&self, l: Layout) -> *mut u8 {
        note(l.size());
        if l.size() > REFUSE { refused(l.size()); return std::ptr::null_mut(); }
        System.alloc_zeroed(l)
    }
    unsafe fn dealloc(&self, p: *mut u8, l: Layout) {
        CUR.fetch_sub(l.size(), Relaxed);
        System.dealloc(p, l)
    }
    unsafe fn realloc(&self, p: *mut u8, l: Layout, new: usize) -> *mut u8 {
        if new > l.size() { note(new - l.size()); BIGGEST.fetch_max(new, Relaxed); } else { CUR.fetch_sub(l.size() - new, Relaxed); }
        if new > REFUSE { refused(new); return std::ptr::null_mut(); }
        System.realloc(p, l, new)
    }
}
fn refused(n: usize) {
    // no allocation here: write a fixed marker so the driver can tell this abort from others
    let msg = b"VH-ALLOC-REFUSED\n";
    unsafe { libc::write(2, msg.as_ptr() as *const libc::c_void, msg.len()) };
    let _ = n;
}
fn note(n: usize) {
    let c = CUR.fetch_add(n, Relaxed) + n;
    PEAK.fetch_max(c, Relaxed);
    BIGGEST.fetch_max(n, Relaxed);
}
#[global_allocator]
static A: Counting = Counting;

/// Start a measurement window: returns the baseline; `alloc_peak_since` gives the peak growth.
pub fn alloc_mark() -> usize {
    let c = CUR.load(Relaxed);
    PEAK.store(c, Relaxed);
    BIGGEST.store(0, Relaxed);
    c
}
pub fn alloc_peak_since(mark: usize) -> usize {
    PEAK.load(Relaxed).saturating_sub(mark)
}
pub fn alloc_biggest() -> usize {
    BIGGEST.load(Relaxed)
}

pub fn thread_cpu_ns() -> u64 {
    let mut ts = libc::timespec { tv_sec: 0, tv_nsec: 0 };
    unsafe { libc::clock_gettime(libc::CLOCK_THREAD_CPUTIME_ID, &mut ts) };
    ts.tv_sec as u64 * 1_000_000_000 + ts.tv_nsec as u64
}
pub fn process_cpu_ns() -> u64 {
    let mut ts = libc::timespec { tv_sec: 0, tv_nsec: 0 };
    unsafe { libc::clock_gettime(libc::CLOCK_PROCESS_CPUTIME_ID, &mut ts) };
    ts.tv_sec as u64 * 1_000_000_000 + ts.tv_nsec as u64
}

/// Silence the default panic message; remember the last one.
pub fn quiet_panics() {
    std::panic::set_hook(Box::new(|info| {
        let s = info.to_string();
        *LAST_PANIC.lock().unwrap() = Some(s);
        PANICS.fetch_add(1, Relaxed);
    }));
}
pub static PANICS: AtomicUsize = AtomicUsize::new(0);
pub static LAST_PANIC: std::sync::Mutex<Option<String>> = std::sync::Mutex::new(None);
pub fn take_panic() -> Option<String> {
    LAST_PANIC.lock().unwrap().take()
}
pub fn panic_count() -> usize {
    PANICS.load(Relaxed)
}
