//! Performative <-> flat JSON (the trace / script vocabulary of spec/endpoint/*.tla).
//! Absent optional numbers are -1, absent optional booleans "none": TLC's Json module has no null.
//! Serial numbers are logged as offsets: `real = off + shift (mod 2^32)` with one shift per
//! sequence space ("out": ids chosen by the EUT, "in": ids chosen by the peer, likewise for
//! delivery-counts), so that TLC's 32-bit integers never see values near 2^32.
use fe2o3_amqp_types::{
    definitions::{self, AmqpError, ErrorCondition, Handle, ReceiverSettleMode, Role, SenderSettleMode},
    messaging::{Accepted, DeliveryState, Modified, Outcome, Received, Rejected, Released, Source, Target, TargetArchetype},
    performatives::*,
    transaction::{Coordinator, Declared, TransactionalState},
};
use serde_amqp::primitives::{Binary, Symbol};
use serde_json::{json, Value as J};

#[derive(Clone, Copy, Debug, Default)]
pub struct Shifts {
    /// ids chosen by the EUT (its next-outgoing-id space, its delivery-ids)
    pub out: u32,
    /// ids chosen by the peer
    pub inn: u32,
    /// delivery-counts of links on which the EUT is the sender
    pub dc_out: u32,
    /// delivery-counts of links on which the peer is the sender
    pub dc_in: u32,
}
pub fn off(real: u32, shift: u32) -> i64 {
    let o = real.wrapping_sub(shift);
    if o >= 1 << 30 { -2 } else { o as i64 }
}
pub fn real(o: i64, shift: u32) -> u32 {
    (o as u32).wrapping_add(shift)
}
fn oo(x: Option<u32>, shift: u32) -> i64 { x.map(|v| off(v, shift)).unwrap_or(-1) }
fn cap(x: u64) -> i64 { x.min(1 << 30) as i64 }
fn tri(x: Option<bool>) -> &'static str { match x { None => "none", Some(true) => "t", Some(false) => "f" } }

pub fn cond_str(e: &Option<definitions::Error>) -> String {
    match e {
        None => String::new(),
        // the symbol is what the condition serializes to
        Some(e) => match serde_amqp::to_value(&e.condition) { Ok(serde_amqp::Value::Symbol(s)) => s.to_string(), _ => format!("{:?}", e.condition) },
    }
}
pub fn state_json(s: &Option<DeliveryState>) -> J {
    let (k, cond, txn): (&str, String, Vec<u8>) = match s {
        None => ("none", String::new(), vec![]),
        Some(DeliveryState::Accepted(_)) => ("accepted", String::new(), vec![]),
        Some(DeliveryState::Rejected(r)) => ("rejected", cond_str(&r.error), vec![]),
        Some(DeliveryState::Released(_)) => ("released", String::new(), vec![]),
        Some(DeliveryState::Modified(_)) => ("modified", String::new(), vec![]),
        Some(DeliveryState::Received(_)) => ("received", String::new(), vec![]),
        Some(DeliveryState::Declared(d)) => ("declared", String::new(), d.txn_id.to_vec()),
        Some(DeliveryState::TransactionalState(t)) => {
            let inner = match &t.outcome { None => "none", Some(Outcome::Accepted(_)) => "accepted", Some(Outcome::Rejected(_)) => "rejected", Some(Outcome::Released(_)) => "released", Some(Outcome::Modified(_)) => "modified", Some(Outcome::Declared(_)) => "declared" };
            return json!({"k": "txn", "cond": inner, "txn": t.txn_id.to_vec()});
        }
    };
    json!({"k": k, "cond": cond, "txn": txn})
}
pub fn state_from(j: &J) -> Option<DeliveryState> {
    let k = if j.is_string() { j.as_str().unwrap() } else { j["k"].as_str().unwrap_or("none") };
    let txn: Vec<u8> = j.get("txn").map(crate::absval::bytes).unwrap_or_default();
    Some(match k {
        "none" => return None,
        "accepted" => DeliveryState::Accepted(Accepted {}),
        "rejected" => DeliveryState::Rejected(Rejected { error: j.get("cond").and_then(|c| c.as_str()).filter(|c| !c.is_empty()).map(|c| definitions::Error::new(ErrorCondition::Custom(Symbol::from(c)), None, None)) }),
        "released" => DeliveryState::Released(Released {}),
        "modified" => DeliveryState::Modified(Modified { delivery_failed: Some(true), undeliverable_here: None, message_annotations: None }),
        "received" => DeliveryState::Received(Received { section_number: j.get("sn").and_then(|x| x.as_u64()).unwrap_or(0) as u32, section_offset: j.get("so").and_then(|x| x.as_u64()).unwrap_or(0) }),
        "declared" => DeliveryState::Declared(Declared { txn_id: Binary::from(txn) }),
        "txn" => {
            let inner = match j["cond"].as_str().unwrap_or("none") { "accepted" => Some(Outcome::Accepted(Accepted {})), "rejected" => Some(Outcome::Rejected(Rejected { error: None })), "released" => Some(Outcome::Released(Released {})), "modified" => Some(Outcome::Modified(Modified { delivery_failed: None, undeliverable_here: None, message_annotations: None })), _ => None };
            DeliveryState::TransactionalState(TransactionalState { txn_id: Binary::from(txn), outcome: inner })
        }
        other => panic!("state {other}"),
    })
}
pub fn err_from(j: &J) -> Option<definitions::Error> {
    match j.as_str() {
        None | Some("") => None,
        Some(c) => Some(definitions::Error::new(ErrorCondition::Custom(Symbol::from(c)), Some("scripted".to_string()), None)),
    }
}

/// Which direction a frame travels decides which shift applies to which field.
#[derive(Clone, Copy, PartialEq)]
pub enum Dir { FromEut, FromPeer }

pub fn perf_name(p: &Performative) -> &'static str {
    match p {
        Performative::Open(_) => "open", Performative::Begin(_) => "begin", Performative::Attach(_) => "attach", Performative::Flow(_) => "flow",
        Performative::Transfer(_) => "transfer", Performative::Disposition(_) => "disposition", Performative::Detach(_) => "detach",
        Performative::End(_) => "end", Performative::Close(_) => "close",
    }
}

/// `role_of_sender_is_eut(handle)` tells, for a flow / attach with a handle, whether the EUT is the sender of that link.
pub fn perf_json(p: &Performative, dir: Dir, sh: &Shifts, eut_is_sender: impl Fn(u32) -> bool) -> J {
    // ids originated by the frame's author vs by the other side
    let (mine, theirs) = if dir == Dir::FromEut { (sh.out, sh.inn) } else { (sh.inn, sh.out) };
    match p {
        Performative::Open(o) => json!({"cid": o.container_id, "mfs": cap(o.max_frame_size.0 as u64), "chmax": o.channel_max.0, "idle": o.idle_time_out.map(|x| cap(x as u64)).unwrap_or(-1)}),
        Performative::Begin(b) => json!({"rch": b.remote_channel.map(|x| x as i64).unwrap_or(-1), "noi": off(b.next_outgoing_id, mine), "iw": cap(b.incoming_window as u64), "ow": cap(b.outgoing_window as u64), "hmax": cap(b.handle_max.0 as u64)}),
        Performative::Attach(a) => {
            let author_is_sender = a.role == Role::Sender;
            let eut_sender = (dir == Dir::FromEut) == author_is_sender;
            let dcs = if eut_sender { sh.dc_out } else { sh.dc_in };
            json!({"name": a.name, "h": cap(a.handle.0 as u64), "role": if author_is_sender { "s" } else { "r" },
                   "snd": u8::from(a.snd_settle_mode.clone()), "rcv": u8::from(a.rcv_settle_mode.clone()),
                   "src": a.source.is_some(), "tgt": a.target.is_some(), "coord": matches!(a.target.as_deref(), Some(TargetArchetype::Coordinator(_))),
                   "idc": oo(a.initial_delivery_count, dcs), "mms": a.max_message_size.map(cap).unwrap_or(-1),
                   "unsettled": a.unsettled.as_ref().map(|u| u.len() as i64).unwrap_or(-1),
                   // the unsettled map itself (at most 16 entries): tag and state kind ("null" for an entry without a state)
                   "unsl": a.unsettled.as_ref().map(|u| u.iter().take(16).map(|(t, st)| json!({"tag": t.to_vec(), "k": match st { None => "null".to_string(), Some(_) => state_json(st)["k"].as_str().unwrap_or("none").to_string() }})).collect::<Vec<_>>()).unwrap_or_default()})
        }
        Performative::Flow(f) => {
            let dcs = match f.handle.as_ref() { Some(h) => if eut_is_sender(h.0) { sh.dc_out } else { sh.dc_in }, None => 0 };
            json!({"nii": oo(f.next_incoming_id, theirs), "iw": cap(f.incoming_window as u64), "noi": off(f.next_outgoing_id, mine), "ow": cap(f.outgoing_window as u64),
                   "h": f.handle.as_ref().map(|h| cap(h.0 as u64)).unwrap_or(-1), "dc": oo(f.delivery_count, dcs), "lc": f.link_credit.map(|x| cap(x as u64)).unwrap_or(-1),
                   "avail": f.available.map(|x| cap(x as u64)).unwrap_or(-1), "drain": f.drain, "echo": f.echo})
        }
        Performative::Transfer(t) => json!({"h": cap(t.handle.0 as u64), "did": oo(t.delivery_id, mine), "tagn": t.delivery_tag.as_ref().map(|x| x.len() as i64).unwrap_or(-1),
                   "tag": t.delivery_tag.as_ref().map(|x| x.to_vec()).unwrap_or_default(), "fmt": t.message_format.map(|x| cap(x as u64)).unwrap_or(-1),
                   "settled": tri(t.settled), "more": t.more, "rcv": t.rcv_settle_mode.clone().map(|m| u8::from(m) as i64).unwrap_or(-1),
                   "state": state_json(&t.state), "resume": t.resume, "aborted": t.aborted, "batchable": t.batchable}),
        Performative::Disposition(d) => {
            // a receiver-role disposition names the sender's delivery-ids (the other side's), a sender-role one its own
            let ids = if d.role == Role::Receiver { theirs } else { mine };
            json!({"role": if d.role == Role::Sender { "s" } else { "r" }, "first": off(d.first, ids), "last": oo(d.last, ids), "settled": d.settled,
                   "state": state_json(&d.state), "batchable": d.batchable})
        }
        Performative::Detach(d) => json!({"h": cap(d.handle.0 as u64), "closed": d.closed, "err": cond_str(&d.error)}),
        Performative::End(e) => json!({"err": cond_str(&e.error)}),
        Performative::Close(c) => json!({"err": cond_str(&c.error)}),
    }
}

fn num(j: &J, k: &str, d: i64) -> i64 { j.get(k).and_then(|x| x.as_i64()).unwrap_or(d) }
fn opt(j: &J, k: &str, shift: u32) -> Option<u32> { let v = num(j, k, -1); if v < 0 { None } else { Some(real(v, shift)) } }
fn optraw(j: &J, k: &str) -> Option<u32> { let v = num(j, k, -1); if v < 0 { None } else { Some(v as u32) } }
fn boolean(j: &J, k: &str) -> bool { j.get(k).and_then(|x| x.as_bool()).unwrap_or(false) }
fn snd_mode(v: i64) -> SenderSettleMode { match v { 0 => SenderSettleMode::Unsettled, 1 => SenderSettleMode::Settled, _ => SenderSettleMode::Mixed } }
fn rcv_mode(v: i64) -> ReceiverSettleMode { if v == 1 { ReceiverSettleMode::Second } else { ReceiverSettleMode::First } }

/// Build a peer frame from script JSON (`perf` name + `f` fields, offsets in the peer's view).
pub fn perf_from(name: &str, f: &J, sh: &Shifts, eut_is_sender: impl Fn(u32) -> bool) -> Performative {
    // the author is the peer
    let (mine, theirs) = (sh.inn, sh.out);
    match name {
        "open" => Performative::Open(Open { container_id: f.get("cid").and_then(|x| x.as_str()).unwrap_or("peer").to_string(), hostname: None,
            max_frame_size: (num(f, "mfs", 65536) as u32).into(), channel_max: (num(f, "chmax", 65535) as u16).into(), idle_time_out: optraw(f, "idle"),
            outgoing_locales: None, incoming_locales: None, offered_capabilities: None, desired_capabilities: None, properties: None }),
        "begin" => Performative::Begin(Begin { remote_channel: { let v = num(f, "rch", -1); if v < 0 { None } else { Some(v as u16) } }, next_outgoing_id: real(num(f, "noi", 0), mine),
            incoming_window: num(f, "iw", 100) as u32, outgoing_window: num(f, "ow", 100) as u32, handle_max: Handle(num(f, "hmax", u32::MAX as i64) as u32),
            offered_capabilities: None, desired_capabilities: None, properties: None }),
        "attach" => {
            let sender = f["role"] == "s";
            let dcs = if sender { sh.dc_in } else { sh.dc_out };
            let target: Option<Box<TargetArchetype>> = if boolean(f, "coord") { Some(Box::new(TargetArchetype::Coordinator(Coordinator::new(None)))) }
                else if f.get("tgt").and_then(|x| x.as_bool()).unwrap_or(true) { Some(Box::new(TargetArchetype::Target(Target::builder().address("q").build()))) } else { None };
            Performative::Attach(Attach { name: f["name"].as_str().unwrap_or("l").to_string(), handle: Handle(num(f, "h", 0) as u32), role: if sender { Role::Sender } else { Role::Receiver },
                snd_settle_mode: snd_mode(num(f, "snd", 2)), rcv_settle_mode: rcv_mode(num(f, "rcv", 0)),
                source: if f.get("src").and_then(|x| x.as_bool()).unwrap_or(true) { Some(Box::new(Source::builder().address("q").build())) } else { None },
                target,
                // "uns": the unsettled map of a resuming peer: [{tag: [bytes], st: <state> | "null"}]; "incomplete": the incomplete-unsettled flag
                unsettled: f.get("uns").and_then(|u| u.as_array()).map(|a| { let mut m = serde_amqp::primitives::OrderedMap::new();
                    for x in a { m.insert(serde_bytes::ByteBuf::from(crate::absval::bytes(&x["tag"])), if x["st"].is_string() && x["st"] == "null" { None } else { state_from(&x["st"]) }); } m }),
                incomplete_unsettled: boolean(f, "incomplete"), initial_delivery_count: if sender { Some(real(num(f, "idc", 0).max(0), dcs)) } else { opt(f, "idc", dcs) },
                max_message_size: { let v = num(f, "mms", -1); if v < 0 { None } else { Some(v as u64) } }, offered_capabilities: None, desired_capabilities: None, properties: None })
        }
        "flow" => {
            let h = optraw(f, "h");
            let dcs = match h { Some(h) => if eut_is_sender(h) { sh.dc_out } else { sh.dc_in }, None => 0 };
            Performative::Flow(Flow { next_incoming_id: opt(f, "nii", theirs), incoming_window: num(f, "iw", 100) as u32, next_outgoing_id: real(num(f, "noi", 0), mine), outgoing_window: num(f, "ow", 100) as u32,
                handle: h.map(Handle), delivery_count: opt(f, "dc", dcs), link_credit: optraw(f, "lc"), available: optraw(f, "avail"), drain: boolean(f, "drain"), echo: boolean(f, "echo"), properties: None })
        }
        "transfer" => Performative::Transfer(Transfer { handle: Handle(num(f, "h", 0) as u32), delivery_id: opt(f, "did", mine),
            delivery_tag: { let n = num(f, "tagn", -1); if n < 0 { None } else { Some(serde_bytes::ByteBuf::from(f.get("tag").map(crate::absval::bytes).unwrap_or_default())) } },
            message_format: optraw(f, "fmt"), settled: match f.get("settled").and_then(|x| x.as_str()) { Some("t") => Some(true), Some("f") => Some(false), _ => None },
            more: boolean(f, "more"), rcv_settle_mode: { let v = num(f, "rcv", -1); if v < 0 { None } else { Some(rcv_mode(v)) } }, state: f.get("state").and_then(state_from),
            resume: boolean(f, "resume"), aborted: boolean(f, "aborted"), batchable: boolean(f, "batchable") }),
        "disposition" => {
            let sender = f["role"] == "s";
            let ids = if sender { mine } else { theirs };
            Performative::Disposition(Disposition { role: if sender { Role::Sender } else { Role::Receiver }, first: real(num(f, "first", 0), ids), last: opt(f, "last", ids),
                settled: boolean(f, "settled"), state: f.get("state").and_then(state_from), batchable: boolean(f, "batchable") })
        }
        "detach" => Performative::Detach(Detach { handle: Handle(num(f, "h", 0) as u32), closed: boolean(f, "closed"), error: f.get("err").and_then(err_from) }),
        "end" => Performative::End(End { error: f.get("err").and_then(err_from) }),
        "close" => Performative::Close(Close { error: f.get("err").and_then(err_from) }),
        other => panic!("performative {other}"),
    }
}
pub fn amqp_err(cond: &str) -> definitions::Error {
    match cond {
        "internal" => definitions::Error::new(AmqpError::InternalError, None, None),
        c => definitions::Error::new(ErrorCondition::Custom(Symbol::from(c)), None, None),
    }
}
