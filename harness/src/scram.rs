//! Reference SCRAM (RFC 5802) and SASL frame construction for the scripted peer of the C19 check.
//! Written against the RFC with the hash crates directly; it shares no code with fe2o3-amqp's
//! `auth::scram`, so the scripted peer is an independent second implementation.
use base64::Engine;
use hmac::{digest::KeyInit, Hmac, Mac};
use serde_amqp::{described::Described, descriptor::Descriptor, primitives::*, Value};
use sha1::Sha1;
use sha2::{Digest, Sha256, Sha512};

#[derive(Clone, Copy, Debug, PartialEq, Default)]
pub enum Hash { S1, #[default] S256, S512 }

impl Hash {
    pub fn of_mech(m: &str) -> Hash { match m { "SCRAM-SHA-1" => Hash::S1, "SCRAM-SHA-512" => Hash::S512, _ => Hash::S256 } }
    pub fn hmac(self, key: &[u8], msg: &[u8]) -> Vec<u8> {
        match self {
            Hash::S1 => { let mut m = <Hmac<Sha1> as KeyInit>::new_from_slice(key).unwrap(); m.update(msg); m.finalize().into_bytes().to_vec() }
            Hash::S256 => { let mut m = <Hmac<Sha256> as KeyInit>::new_from_slice(key).unwrap(); m.update(msg); m.finalize().into_bytes().to_vec() }
            Hash::S512 => { let mut m = <Hmac<Sha512> as KeyInit>::new_from_slice(key).unwrap(); m.update(msg); m.finalize().into_bytes().to_vec() }
        }
    }
    pub fn h(self, msg: &[u8]) -> Vec<u8> {
        match self { Hash::S1 => Sha1::digest(msg).to_vec(), Hash::S256 => Sha256::digest(msg).to_vec(), Hash::S512 => Sha512::digest(msg).to_vec() }
    }
    /// Hi(str, salt, i) of RFC 5802 section 2.2 (PBKDF2 with one block)
    pub fn hi(self, pw: &[u8], salt: &[u8], iters: u32) -> Vec<u8> {
        let mut s = salt.to_vec();
        s.extend_from_slice(&1u32.to_be_bytes());
        let mut u = self.hmac(pw, &s);
        let mut out = u.clone();
        for _ in 1..iters.max(1) {
            u = self.hmac(pw, &u);
            for (o, x) in out.iter_mut().zip(u.iter()) { *o ^= x; }
        }
        out
    }
}

pub fn b64(b: &[u8]) -> String { base64::engine::general_purpose::STANDARD.encode(b) }
pub fn unb64(s: &str) -> Option<Vec<u8>> { base64::engine::general_purpose::STANDARD.decode(s).ok() }

/// attribute `k=` of a comma separated SCRAM message
pub fn attr<'a>(msg: &'a str, k: char) -> Option<&'a str> {
    msg.split(',').find_map(|p| { let mut c = p.chars(); if c.next() == Some(k) && c.next() == Some('=') { Some(&p[2..]) } else { None } })
}

pub fn auth_message(cfirst_bare: &str, sfirst: &str, cfinal_wo_proof: &str) -> String { format!("{cfirst_bare},{sfirst},{cfinal_wo_proof}") }

pub fn client_proof(h: Hash, salted: &[u8], am: &str) -> Vec<u8> {
    let ck = h.hmac(salted, b"Client Key");
    let sk = h.h(&ck);
    let sig = h.hmac(&sk, am.as_bytes());
    ck.iter().zip(sig.iter()).map(|(a, b)| a ^ b).collect()
}
pub fn server_signature(h: Hash, salted: &[u8], am: &str) -> Vec<u8> {
    let sk = h.hmac(salted, b"Server Key");
    h.hmac(&sk, am.as_bytes())
}

// ---------------------------------------------------------------------------- SASL frames
fn described(code: u64, fields: Vec<Value>) -> Value {
    Value::Described(Box::new(Described { descriptor: Descriptor::Code(code), value: Value::List(fields) }))
}
fn bin(b: &[u8]) -> Value { Value::Binary(serde_bytes::ByteBuf::from(b.to_vec())) }
fn opt_bin(b: &Option<Vec<u8>>) -> Value { match b { Some(b) => bin(b), None => Value::Null } }

pub fn mechanisms(list: &[String]) -> Vec<u8> {
    let arr = Value::Array(Array::from(list.iter().map(|s| Value::Symbol(Symbol::from(s.as_str()))).collect::<Vec<_>>()));
    serde_amqp::to_vec(&described(0x40, vec![arr])).unwrap()
}
pub fn init(mech: &str, resp: &Option<Vec<u8>>, host: Option<&str>) -> Vec<u8> {
    let mut f = vec![Value::Symbol(Symbol::from(mech)), opt_bin(resp)];
    if let Some(h) = host { f.push(Value::String(h.to_string())); }
    serde_amqp::to_vec(&described(0x41, f)).unwrap()
}
pub fn challenge(c: &[u8]) -> Vec<u8> { serde_amqp::to_vec(&described(0x42, vec![bin(c)])).unwrap() }
pub fn response(c: &[u8]) -> Vec<u8> { serde_amqp::to_vec(&described(0x43, vec![bin(c)])).unwrap() }
pub fn outcome(code: u8, data: &Option<Vec<u8>>) -> Vec<u8> {
    let mut f = vec![Value::Ubyte(code)];
    if data.is_some() { f.push(opt_bin(data)); }
    serde_amqp::to_vec(&described(0x44, f)).unwrap()
}

/// What the endpoint sent, decoded without the library's SASL types.
pub fn decode(body: &[u8]) -> serde_json::Value {
    use serde_json::json;
    let Ok(Value::Described(d)) = serde_amqp::from_slice::<Value>(body) else { return json!({"kind": "undecodable"}); };
    let code = match &d.descriptor { Descriptor::Code(c) => *c, Descriptor::Name(n) => match n.as_str() {
        "amqp:sasl-mechanisms:list" => 0x40, "amqp:sasl-init:list" => 0x41, "amqp:sasl-challenge:list" => 0x42, "amqp:sasl-response:list" => 0x43, "amqp:sasl-outcome:list" => 0x44, _ => 0 } };
    let Value::List(f) = &d.value else { return json!({"kind": "undecodable"}); };
    let text = |v: Option<&Value>| -> serde_json::Value { match v { Some(Value::Binary(b)) => json!(String::from_utf8_lossy(b).to_string()), _ => serde_json::Value::Null } };
    match code {
        0x40 => { let l: Vec<String> = match f.first() { Some(Value::Array(a)) => a.0.iter().filter_map(|x| if let Value::Symbol(s) = x { Some(s.as_str().to_string()) } else { None }).collect(), Some(Value::Symbol(s)) => vec![s.as_str().to_string()], _ => vec![] };
            json!({"kind": "mechanisms", "mechs": l}) }
        0x41 => json!({"kind": "init", "mech": match f.first() { Some(Value::Symbol(s)) => s.as_str().to_string(), _ => String::new() }, "resp": text(f.get(1))}),
        0x42 => json!({"kind": "challenge", "data": text(f.first())}),
        0x43 => json!({"kind": "response", "resp": text(f.first())}),
        0x44 => json!({"kind": "outcome", "code": match f.first() { Some(Value::Ubyte(c)) => *c as i64, _ => -1 }, "data": text(f.get(1))}),
        _ => json!({"kind": "undecodable"}),
    }
}
