//! Exec for the replay clause of C19 (C19_NoReplay): one listener instance, two connections.  The first is an honest SCRAM / PLAIN login of
//! the library's own client whose client-to-server bytes are recorded by a tap; the second peer knows nothing but that recording and writes
//! it to a fresh connection of the SAME acceptor.  Sasl.tla draws a fresh server nonce per exchange, so for SCRAM the recorded proof is
//! about another exchange and the listener must refuse; for PLAIN the recording contains the password itself and opens (the control).
use fe2o3_amqp::acceptor::ConnectionAcceptor;
use fe2o3_amqp::Connection;
use serde_json::json;
use std::io::Write;
use tokio::io::{AsyncReadExt, AsyncWriteExt};

type R<T> = Result<T, String>;

async fn run_one(mech: &str) -> serde_json::Value {
    use fe2o3_amqp::acceptor::SaslPlainMechanism;
    use fe2o3_amqp::auth::scram::{ScramAuthenticator, ScramVersion};
    use fe2o3_amqp::sasl_profile::{scram::{SaslScramSha1, SaslScramSha256, SaslScramSha512}, SaslProfile};
    let (u, p) = ("user".to_string(), "pencil".to_string());
    macro_rules! body { ($acc:expr) => {{
        let acc = $acc;
        // connection 1: honest client through a tap that records what the client writes
        let (client_io, tap_c) = tokio::io::duplex(1 << 20);
        let (tap_s, server_io) = tokio::io::duplex(1 << 20);
        let rec = std::sync::Arc::new(std::sync::Mutex::new(Vec::<u8>::new()));
        let rec2 = rec.clone();
        let (mut tc_r, mut tc_w) = tokio::io::split(tap_c);
        let (mut ts_r, mut ts_w) = tokio::io::split(tap_s);
        let up = tokio::spawn(async move { let mut b = [0u8; 4096]; loop { match tc_r.read(&mut b).await { Ok(0) | Err(_) => { let _ = ts_w.shutdown().await; break; } Ok(n) => { rec2.lock().unwrap().extend_from_slice(&b[..n]); if ts_w.write_all(&b[..n]).await.is_err() { break; } } } } });
        let down = tokio::spawn(async move { let mut b = [0u8; 4096]; loop { match ts_r.read(&mut b).await { Ok(0) | Err(_) => { let _ = tc_w.shutdown().await; break; } Ok(n) => { if tc_w.write_all(&b[..n]).await.is_err() { break; } } } } });
        let profile = match mech { "SCRAM-SHA-1" => SaslProfile::ScramSha1(SaslScramSha1::new(u.clone(), p.clone())), "SCRAM-SHA-512" => SaslProfile::ScramSha512(SaslScramSha512::new(u.clone(), p.clone())),
                                   "SCRAM-SHA-256" => SaslProfile::ScramSha256(SaslScramSha256::new(u.clone(), p.clone())), _ => SaslProfile::Plain { username: u.clone(), password: p.clone() } };
        let cl = tokio::spawn(async move { match Connection::builder().container_id("c").sasl_profile(profile).open_with_stream(client_io).await { Ok(mut c) => { let _ = c.close().await; true } Err(_) => false } });
        let first = match tokio::time::timeout(std::time::Duration::from_secs(20), acc.accept(server_io)).await { Ok(Ok(mut c)) => { let _ = c.on_close().await; true } _ => false };
        let client_ok = tokio::time::timeout(std::time::Duration::from_secs(20), cl).await.map(|r| r.unwrap_or(false)).unwrap_or(false);
        up.abort(); down.abort();
        let recording = rec.lock().unwrap().clone();
        // connection 2 to the same acceptor: the recording, nothing else
        let (mut peer, server_io2) = tokio::io::duplex(1 << 20);
        let n = recording.len();
        let w = tokio::spawn(async move { let _ = peer.write_all(&recording).await; let mut sink = vec![0u8; 1 << 16]; let mut got = 0usize;
            loop { match tokio::time::timeout(std::time::Duration::from_secs(5), peer.read(&mut sink)).await { Ok(Ok(0)) | Ok(Err(_)) | Err(_) => break, Ok(Ok(k)) => got += k } } got });
        let second = match tokio::time::timeout(std::time::Duration::from_secs(20), acc.accept(server_io2)).await { Ok(Ok(mut c)) => { let _ = c.on_close().await; true } _ => false };
        let _ = w.await;
        json!({"ev": "Replay", "mech": mech, "first_opened": first, "client_ok": client_ok, "recorded": n.min(1 << 30), "replay_opened": second})
    }} }
    match mech {
        "PLAIN" => body!(ConnectionAcceptor::builder().container_id("eut").sasl_acceptor(SaslPlainMechanism::new(u.clone(), p.clone())).build()),
        m => {
            let v = match m { "SCRAM-SHA-1" => ScramVersion::Sha1, "SCRAM-SHA-512" => ScramVersion::Sha512, _ => ScramVersion::Sha256 };
            let cred = std::sync::Arc::new(fe2o3_amqp::acceptor::scram::SingleScramCredential::new(u.clone(), p.clone(), v).expect("scram credential"));
            body!(ConnectionAcceptor::builder().container_id("eut").sasl_acceptor(ScramAuthenticator::new(cred)).build())
        }
    }
}

/// vh replay <out.ndjson>
pub fn main(args: &[String]) -> R<()> {
    let mut out = std::fs::File::create(&args[0]).map_err(|e| e.to_string())?;
    let rt = tokio::runtime::Builder::new_current_thread().enable_all().start_paused(true).build().map_err(|e| e.to_string())?;
    for mech in ["SCRAM-SHA-256", "SCRAM-SHA-1", "SCRAM-SHA-512", "PLAIN"] {
        let row = rt.block_on(run_one(mech));
        writeln!(out, "{}", row).map_err(|e| e.to_string())?;
    }
    Ok(())
}
