//! Exec for E2E.tla (C01): one real client and one real listener talk to each other through a
//! byte tap that re-chunks both directions.  The sending application submits the case's message
//! sequence, the receiving application takes deliveries with recv(); every submit, every result
//! and every delivery is logged in the order it happened.  The configuration (frame sizes, windows,
//! credit policy, settle modes, channel capacities, chunk pattern, direction, pipelining, runtime
//! flavour) comes from a TLC-generated case.
use crate::ep::{build_message, encode_message};
use fe2o3_amqp::acceptor::{ConnectionAcceptor, LinkAcceptor, LinkEndpoint, SessionAcceptor};
use fe2o3_amqp::connection::Connection;
use fe2o3_amqp::link::receiver::CreditMode;
use fe2o3_amqp::link::{Receiver, Sender};
use fe2o3_amqp::session::Session;
use fe2o3_amqp::Sendable;
use fe2o3_amqp_types::definitions::{ReceiverSettleMode, SenderSettleMode};
use fe2o3_amqp_types::messaging::{Body, Message};
use fe2o3_amqp_types::messaging::message::__private::Serializable;
use serde_amqp::Value;
use serde_json::{json, Value as J};
use std::sync::{Arc, Mutex};
use std::time::Duration;
use tokio::io::{AsyncReadExt, AsyncWriteExt, DuplexStream};

type Log = Arc<Mutex<Vec<J>>>;
fn emit(log: &Log, mut j: J) { let mut g = log.lock().unwrap(); j["i"] = json!(g.len() + 1); g.push(j); }

/// copies bytes one way, cutting the stream into the chunk sizes of the pattern (cyclic)
async fn tap(mut from: tokio::io::ReadHalf<DuplexStream>, mut to: tokio::io::WriteHalf<DuplexStream>, pattern: Vec<usize>, dir: &'static str, log: Log, wire: bool) {
    let mut k = 0usize;
    let mut buf = vec![0u8; 1 << 17];
    let mut acc: Vec<u8> = vec![];
    let mut hdr = false;
    loop {
        let want = pattern[k % pattern.len()].clamp(1, buf.len());
        k += 1;
        match from.read(&mut buf[..want]).await {
            Ok(0) | Err(_) => { let _ = to.shutdown().await; return; }
            Ok(n) => {
                if wire {
                    // independent frame parser on the byte stream: one Wire row per frame
                    acc.extend_from_slice(&buf[..n]);
                    if !hdr && acc.len() >= 8 { acc.drain(..8); hdr = true; }
                    while hdr && acc.len() >= 8 {
                        let size = u32::from_be_bytes(acc[..4].try_into().unwrap()) as usize;
                        if size < 8 || acc.len() < size { break; }
                        let f: Vec<u8> = acc.drain(..size).collect();
                        let body = &f[(f[4] as usize * 4).clamp(8, size)..];
                        let name = crate::wire::perf_len(body).and_then(|pl| serde_amqp::from_slice::<fe2o3_amqp_types::performatives::Performative>(&body[..pl]).ok()).map(|p| crate::perfjson::perf_name(&p)).unwrap_or("empty");
                        emit(&log, json!({"ev": "Wire", "dir": dir, "perf": name, "size": size}));
                    }
                }
                if to.write_all(&buf[..n]).await.is_err() { return; }
                tokio::task::yield_now().await;
            }
        }
    }
}

fn snd_mode(c: &J) -> SenderSettleMode { match c["snd"].as_i64().unwrap_or(2) { 0 => SenderSettleMode::Unsettled, 1 => SenderSettleMode::Settled, _ => SenderSettleMode::Mixed } }
fn rcv_mode(c: &J) -> ReceiverSettleMode { if c["rcv"].as_i64().unwrap_or(0) == 1 { ReceiverSettleMode::Second } else { ReceiverSettleMode::First } }
/// messages of link `ln`: ids 1000 * ln + 1 ..
fn msgs(c: &J, ln: u32) -> Vec<(u32, usize, String)> {
    c["msgs"].as_array().map(|a| a.iter().enumerate().map(|(i, m)| (1000 * ln + i as u32 + 1, m["len"].as_u64().unwrap_or(0) as usize, m["shape"].as_str().unwrap_or("data").to_string())).collect()).unwrap_or_default()
}

async fn send_all(mut s: Sender, c: J, log: Log, ln: u32) -> Sender {
    let batch = c["batch"].as_bool().unwrap_or(false);
    let mut futs = vec![];
    for (m, len, shape) in msgs(&c, ln) {
        emit(&log, json!({"ev": "Submit", "ln": ln, "m": m, "len": len}));
        let sendable = Sendable::builder().message(build_message(m, len, &shape)).build();
        if batch {
            match s.send_batchable(sendable).await { Ok(f) => futs.push((m, f)), Err(e) => emit(&log, json!({"ev": "SendRet", "ln": ln, "m": m, "ok": false, "outcome": format!("{e:?}").chars().take(120).collect::<String>()})) }
        } else {
            match s.send(sendable).await {
                Ok(o) => emit(&log, json!({"ev": "SendRet", "ln": ln, "m": m, "ok": true, "outcome": crate::ep::class_of(&format!("{o:?}")).to_lowercase()})),
                Err(e) => emit(&log, json!({"ev": "SendRet", "ln": ln, "m": m, "ok": false, "outcome": format!("{e:?}").chars().take(120).collect::<String>()})),
            }
        }
    }
    for (m, f) in futs {
        match f.await {
            Ok(o) => emit(&log, json!({"ev": "SendRet", "ln": ln, "m": m, "ok": true, "outcome": crate::ep::class_of(&format!("{o:?}")).to_lowercase()})),
            Err(e) => emit(&log, json!({"ev": "SendRet", "ln": ln, "m": m, "ok": false, "outcome": format!("{e:?}").chars().take(120).collect::<String>()})),
        }
    }
    s
}

async fn recv_all(mut r: Receiver, c: J, log: Log, ln: u32) -> Receiver {
    let all = msgs(&c, ln);
    let credit = c["credit"].as_i64().unwrap_or(10);
    let auto = c["auto"].as_bool().unwrap_or(false);
    let mut got_n = 0usize;
    // one recv result: logs it, accepts the delivery; false = the link failed
    macro_rules! take { ($res:expr) => { match $res {
        Ok(d) => {
            let msg: &Message<Body<Value>> = d.message();
            let m = match msg.properties.as_ref().and_then(|p| p.message_id.as_ref()) { Some(fe2o3_amqp_types::messaging::MessageId::Ulong(u)) => *u as i64, _ => -1 };
            let got = serde_amqp::to_vec(&Serializable(msg)).unwrap_or_default();
            let want = all.iter().find(|x| x.0 as i64 == m).map(|x| encode_message(&build_message(x.0, x.1, &x.2))).unwrap_or_default();
            // a message of another link has no expected encoding here: it shows as not intact and as a routing failure in the trace
            emit(&log, json!({"ev": "Recv", "ln": ln, "m": m, "intact": got == want, "len": got.len()}));
            if !auto { let _ = r.accept(&d).await; }
            got_n += 1; true
        }
        Err(e) => { emit(&log, json!({"ev": "RecvErr", "ln": ln, "err": format!("{e:?}").chars().take(120).collect::<String>()})); false }
    } } }
    if credit == -2 {
        // Manual, credit raised over a delivery that has arrived but has not been taken yet: grant 1, let the delivery arrive, make it 2 in
        // total, take the two, then look whether a third one comes although no credit is left (a sender that honours the grant sends none;
        // one that does not makes this recv fail with a transfer-limit error)
        while got_n < all.len() {
            let _ = r.set_credit(1).await;
            tokio::time::sleep(Duration::from_millis(20)).await;
            let _ = r.set_credit(2).await;
            for _ in 0..2 { if got_n < all.len() && !take!(r.recv::<Body<Value>>().await) { return r; } }
            if got_n < all.len() { if let Ok(res) = tokio::time::timeout(Duration::from_millis(30), r.recv::<Body<Value>>()).await { if !take!(res) { return r; } } }
        }
        return r;
    }
    while got_n < all.len() {
        // Manual: one credit per recv (0), or |credit| credits granted again before every recv, i.e. while earlier deliveries are in flight or queued (< 0)
        if credit <= 0 { let _ = r.set_credit(if credit < 0 { (-credit) as u32 } else { 1 }).await; }
        if !take!(r.recv::<Body<Value>>().await) { break; }
    }
    r
}

/// waits until `want` rows of kind `ev` (or an error row) are in the log
async fn wait_done(log: &Log, ev: &str, want: usize) {
    loop {
        { let g = log.lock().unwrap(); let n = g.iter().filter(|r| r["ev"] == ev).count(); let bad = g.iter().any(|r| r["ev"] == "RecvErr" || r["ev"] == "SetupErr"); if n >= want || bad { return; } }
        tokio::time::sleep(Duration::from_millis(5)).await;
    }
}

async fn run_case(c: J, log: Log) {
    let pipe = c["pipe"].as_u64().unwrap_or(1 << 16) as usize;
    let (ca, ta) = tokio::io::duplex(pipe);
    let (tb, lb) = tokio::io::duplex(pipe);
    let pattern: Vec<usize> = c["chunks"].as_array().map(|a| a.iter().map(|x| x.as_u64().unwrap_or(1) as usize).collect()).unwrap_or(vec![1 << 16]);
    let (tar, taw) = tokio::io::split(ta);
    let (tbr, tbw) = tokio::io::split(tb);
    let wire = c["wire"].as_bool().unwrap_or(false);
    let t1 = tokio::spawn(tap(tar, tbw, pattern.clone(), "c2l", log.clone(), wire));
    let t2 = tokio::spawn(tap(tbr, taw, pattern.iter().rev().cloned().collect(), "l2c", log.clone(), wire));
    let buf = c["buf"].as_u64().unwrap_or(256) as usize;
    let c2l = c["dir"].as_str().unwrap_or("c2l") == "c2l";
    let credit = c["credit"].as_i64().unwrap_or(10);
    // max-message-size of the links (0 = none): messages above it are split by the sending link, on top of the split at max-frame-size
    let mms = c.get("mms").and_then(|x| x.as_u64()).unwrap_or(0);
    let auto = c["auto"].as_bool().unwrap_or(false);
    let (cl, ll) = (c.clone(), c.clone());
    let (log_c, log_l) = (log.clone(), log.clone());
    // neither side tears anything down before both applications are finished
    let (cdone_tx, cdone_rx) = tokio::sync::oneshot::channel::<()>();
    let (ldone_tx, ldone_rx) = tokio::sync::oneshot::channel::<()>();

    let nlinks = c["links"].as_u64().unwrap_or(1).max(1) as u32;
    let nsess = c["sessions"].as_u64().unwrap_or(1).max(1) as u32;
    let client = tokio::spawn(async move {
        let c = cl;
        let mut conn = match Connection::builder().container_id("c").max_frame_size(c["mfs_c"].as_u64().unwrap_or(4096) as u32).buffer_size(buf).open_with_stream(ca).await {
            Ok(x) => x, Err(e) => { emit(&log_c, json!({"ev": "SetupErr", "who": "client-open", "err": format!("{e:?}")})); return; } };
        let mut sessions = vec![];
        for _ in 0..nsess {
            match Session::builder().incoming_window(c["iw_c"].as_u64().unwrap_or(2048) as u32).outgoing_window(c["ow_c"].as_u64().unwrap_or(2048) as u32).buffer_size(buf).begin(&mut conn).await {
                Ok(x) => sessions.push(x), Err(e) => { emit(&log_c, json!({"ev": "SetupErr", "who": "client-begin", "err": format!("{e:?}")})); return; } }
        }
        // link i lives on session i mod nsess; every link runs its own application task
        let mut apps = vec![];
        for ln in 0..nlinks {
            let sess = &mut sessions[(ln % nsess) as usize];
            let name = format!("L{ln}");
            if c2l {
                match { let mut b = Sender::builder().name(name).target("q").sender_settle_mode(snd_mode(&c)).receiver_settle_mode(rcv_mode(&c)); if mms > 0 { b = b.max_message_size(mms); } b }.attach(sess).await {
                    Ok(s) => { let (c2, l2) = (c.clone(), log_c.clone()); apps.push(tokio::spawn(async move { let _s = send_all(s, c2, l2, ln).await; let () = std::future::pending().await; })); }
                    Err(e) => { emit(&log_c, json!({"ev": "SetupErr", "who": "client-attach", "err": format!("{e:?}")})); return; }
                }
            } else {
                match { let mut b = Receiver::builder().name(name).source("q").sender_settle_mode(snd_mode(&c)).receiver_settle_mode(rcv_mode(&c)).auto_accept(auto)
                    .credit_mode(if credit > 0 { CreditMode::Auto(credit as u32) } else { CreditMode::Manual }); if mms > 0 { b = b.max_message_size(mms); } b }.attach(sess).await {
                    Ok(r) => { let (c2, l2) = (c.clone(), log_c.clone()); apps.push(tokio::spawn(async move { let _r = recv_all(r, c2, l2, ln).await; let () = std::future::pending().await; })); }
                    Err(e) => { emit(&log_c, json!({"ev": "SetupErr", "who": "client-attach", "err": format!("{e:?}")})); return; }
                }
            }
        }
        // the applications never return their links (they stay attached); completion is read off the log
        let want = nlinks as usize * c["msgs"].as_array().map(|a| a.len()).unwrap_or(0);
        wait_done(&log_c, if c2l { "SendRet" } else { "Recv" }, want).await;
        let _ = cdone_tx.send(()); let _ = ldone_rx.await;
        for a in apps { a.abort(); }
        let _keep = (conn, sessions);
    });
    let listener = tokio::spawn(async move {
        let c = ll;
        let acc = ConnectionAcceptor::builder().container_id("l").max_frame_size(c["mfs_l"].as_u64().unwrap_or(4096) as u32).buffer_size(buf).build();
        let mut conn = match acc.accept(lb).await { Ok(x) => x, Err(e) => { emit(&log_l, json!({"ev": "SetupErr", "who": "listener-accept", "err": format!("{e:?}")})); return; } };
        let sacc = SessionAcceptor::builder().incoming_window(c["iw_l"].as_u64().unwrap_or(2048) as u32).outgoing_window(c["ow_l"].as_u64().unwrap_or(2048) as u32).buffer_size(buf).build();
        let mut sessions = vec![];
        for _ in 0..nsess {
            match sacc.accept(&mut conn).await { Ok(x) => sessions.push(x), Err(e) => { emit(&log_l, json!({"ev": "SetupErr", "who": "listener-session", "err": format!("{e:?}")})); return; } }
        }
        let mut apps = vec![];
        for ln in 0..nlinks {
            let sess = &mut sessions[(ln % nsess) as usize];
            match { let mut b = LinkAcceptor::builder(); if mms > 0 { b = b.max_message_size(mms); } b }.build().accept(sess).await {
                Ok(LinkEndpoint::Receiver(mut r)) => {
                    if credit > 0 { r.set_credit_mode(CreditMode::Auto(credit as u32)); let _ = r.set_credit(credit as u32).await; } else { r.set_credit_mode(CreditMode::Manual); let _ = r.set_credit(0).await; }
                    r.set_auto_accept(auto);
                    let (c2, l2) = (c.clone(), log_l.clone());
                    apps.push(tokio::spawn(async move { let _r = recv_all(r, c2, l2, ln).await; let () = std::future::pending().await; }));
                }
                Ok(LinkEndpoint::Sender(s)) => { let (c2, l2) = (c.clone(), log_l.clone()); apps.push(tokio::spawn(async move { let _s = send_all(s, c2, l2, ln).await; let () = std::future::pending().await; })); }
                Err(e) => { emit(&log_l, json!({"ev": "SetupErr", "who": "listener-link", "err": format!("{e:?}")})); return; }
            }
        }
        let want = nlinks as usize * c["msgs"].as_array().map(|a| a.len()).unwrap_or(0);
        wait_done(&log_l, if c2l { "Recv" } else { "SendRet" }, want).await;
        let _ = ldone_tx.send(()); let _ = cdone_rx.await;
        for a in apps { a.abort(); }
        let _keep = (conn, sessions);
    });
    let limit = if c["mt"].as_bool().unwrap_or(false) { Duration::from_secs(30) } else { Duration::from_secs(3600) };
    let all = async { let _ = client.await; let _ = listener.await; };
    let timed_out = tokio::time::timeout(limit, all).await.is_err();
    t1.abort(); t2.abort();
    emit(&log, json!({"ev": "End", "timeout": timed_out, "panics": crate::mon::panic_count()}));
}

pub fn main(args: &[String]) -> Result<(), String> {
    use std::io::Write;
    crate::mon::quiet_panics();
    let inp = std::fs::read_to_string(&args[0]).map_err(|e| e.to_string())?;
    let mut out = std::fs::OpenOptions::new().create(true).append(true).open(&args[1]).map_err(|e| e.to_string())?;
    for (k, line) in inp.lines().filter(|l| !l.trim().is_empty()).enumerate() {
        let c: J = serde_json::from_str(line).map_err(|e| e.to_string())?;
        let log: Log = Arc::new(Mutex::new(vec![]));
        emit(&log, json!({"ev": "Init", "n": c["msgs"].as_array().map(|a| a.len()).unwrap_or(0), "links": c["links"].as_u64().unwrap_or(1).max(1), "snd": c["snd"], "rcv": c["rcv"], "batch": c["batch"]}));
        let mt = c["mt"].as_bool().unwrap_or(false);
        let rt = if mt { tokio::runtime::Builder::new_multi_thread().worker_threads(4).enable_all().build() }
                 else { tokio::runtime::Builder::new_current_thread().enable_all().start_paused(true).build() }.map_err(|e| e.to_string())?;
        rt.block_on(run_case(c.clone(), log.clone()));
        rt.shutdown_timeout(Duration::from_millis(200));
        for mut r in log.lock().unwrap().drain(..) { r["sc"] = json!(k); writeln!(out, "{}", r).map_err(|e| e.to_string())?; }
    }
    Ok(())
}
