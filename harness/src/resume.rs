//! Exec for Resume.tla (link resumption, AMQP 1.0 section 2.6.13): every cell of the decision table is put to the real
//! `resume_delivery` through the cfg hook `fe2o3_amqp::verif::resume_decision`; ResumeTrace.tla compares the answers with the table.
//! A position p of the specification is mapped to a (section-number, section-offset) pair of a real encoded message whose section
//! boundaries are computed here independently (each section encoded on its own).
use fe2o3_amqp_types::messaging::{
    message::__private::Serializable, Accepted, AmqpValue, Data, DeliveryState, Header, Message, Modified, Properties, Received, Rejected, Released,
};
use serde_amqp::Value;
use serde_json::{json, Value as J};
use std::io::Write;

type R<T> = Result<T, String>;

/// The message: header, properties, one data section; returns the encoding and the byte offset at which each section starts.
fn message() -> (Vec<u8>, Vec<usize>) {
    let header = Header { durable: true, priority: 7.into(), ..Default::default() };
    let props = Properties::builder().message_id(5u64).subject("s").build();
    let body: Vec<u8> = (0..40u32).map(|i| ((37 * 3 + i) % 251) as u8).collect();
    let msg = Message::builder().header(header.clone()).properties(props.clone()).data(serde_amqp::primitives::Binary::from(body.clone())).build();
    let enc = serde_amqp::to_vec(&Serializable(msg)).unwrap();
    let h = serde_amqp::to_vec(&header).unwrap().len();
    let p = serde_amqp::to_vec(&props).unwrap().len();
    let _ = (AmqpValue(Value::Null), Data(serde_amqp::primitives::Binary::from(vec![])));
    (enc, vec![0, h, h + p])
}

/// position p -> (section-number, section-offset): even positions are section starts, odd ones lie 3 bytes into the section
fn pos(p: u64) -> (u32, u64) { ((p / 2) as u32, (p % 2) * 3) }

fn state(j: &J) -> Option<Option<DeliveryState>> {
    let k = j["k"].as_str().unwrap();
    let p = j["p"].as_u64().unwrap_or(0);
    Some(Some(match k {
        "absent" => return None,
        "none" | "null" => return Some(None),
        "received" => { let (s, o) = pos(p); DeliveryState::Received(Received { section_number: s, section_offset: o }) }
        "accepted" => DeliveryState::Accepted(Accepted {}),
        "rejected" => DeliveryState::Rejected(Rejected { error: None }),
        "released" => DeliveryState::Released(Released {}),
        "modified" => DeliveryState::Modified(Modified { delivery_failed: Some(true), undeliverable_here: None, message_annotations: None }),
        other => panic!("state {other}"),
    }))
}
fn kind(s: &Option<DeliveryState>) -> &'static str {
    match s { None => "none", Some(DeliveryState::Accepted(_)) => "accepted", Some(DeliveryState::Rejected(_)) => "rejected", Some(DeliveryState::Released(_)) => "released",
              Some(DeliveryState::Modified(_)) => "modified", Some(DeliveryState::Received(_)) => "received", _ => "other" }
}

/// vh resume <cells.ndjson> <out.ndjson>
pub fn main(args: &[String]) -> R<()> {
    let inp = std::fs::read_to_string(&args[0]).map_err(|e| e.to_string())?;
    let mut out = std::fs::File::create(&args[1]).map_err(|e| e.to_string())?;
    let (enc, starts) = message();
    for line in inp.lines().filter(|l| !l.trim().is_empty()) {
        let c: J = serde_json::from_str(line).map_err(|e| e.to_string())?;
        let local = state(&c["l"]).flatten();
        let remote = state(&c["r"]);
        let r = std::panic::catch_unwind(|| fe2o3_amqp::verif::resume_decision(bytes::Bytes::from(enc.clone()), local.clone(), remote.clone()));
        let (d, n, res) = match r { Ok(x) => x, Err(_) => ("panic", 0, None) };
        // the byte offset that the remote position denotes in this message (-1: beyond the message)
        let rp = c["r"]["p"].as_u64().unwrap_or(0);
        let (s, o) = pos(rp);
        let cut = starts.get(s as usize).map(|b| (*b as i64) + o as i64).unwrap_or(-1);
        let resolved = match &res { None => "unresolved".to_string(), Some(st) => kind(st).to_string() };
        writeln!(out, "{}", json!({"l": c["l"], "r": c["r"], "d": d, "n": n, "total": enc.len(), "cut": cut, "resolved": resolved})).map_err(|e| e.to_string())?;
    }
    Ok(())
}
