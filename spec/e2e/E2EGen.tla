------------------------------ MODULE E2EGen ------------------------------
(* Gen for C01: configurations of the real client <-> listener pair.  Every configuration differs
   from the base one in at most Strength parameters (all value combinations of every parameter
   subset of that size), so every pair (thorough: triple) of parameter values meets in some run. *)
EXTENDS Integers, Sequences, FiniteSets, TLC, Json
CONSTANTS Strength, Deep

Small == <<[len |-> 0, shape |-> "data"], [len |-> 10, shape |-> "full"], [len |-> 700, shape |-> "value"], [len |-> 3, shape |-> "data2"]>>
Mixed == <<[len |-> 0, shape |-> "all"], [len |-> 2100, shape |-> "all"], [len |-> 1, shape |-> "value"], [len |-> 9000, shape |-> "data2"], [len |-> 511, shape |-> "data"], [len |-> 20000, shape |-> "full"], [len |-> 5, shape |-> "seq"]>>
Many == [i \in 1..25 |-> [len |-> (i * 37) % 900, shape |-> IF i % 3 = 0 THEN "full" ELSE "data"]]
Edge == <<[len |-> 480, shape |-> "data"], [len |-> 481, shape |-> "data"], [len |-> 495, shape |-> "data"], [len |-> 1000, shape |-> "data"], [len |-> 4070, shape |-> "data"], [len |-> 4096, shape |-> "data"]>>

Base == [mfs_c |-> 4096, mfs_l |-> 4096, iw_c |-> 2048, ow_c |-> 2048, iw_l |-> 2048, ow_l |-> 2048, credit |-> 10, snd |-> 2, rcv |-> 0, buf |-> 256,
         mms |-> 0, chunks |-> <<65536>>, dir |-> "c2l", batch |-> FALSE, auto |-> FALSE, mt |-> FALSE, pipe |-> 65536, links |-> 1, sessions |-> 1, msgs |-> Mixed]
Pal == [mfs_c |-> {512, 1000, 65536}, mfs_l |-> {512, 777, 65536}, iw_c |-> {1, 5000}, ow_c |-> {1, 3}, iw_l |-> {1, 2, 5}, ow_l |-> {1, 5000}, credit |-> {0, 1, 2, 200, -3, -2}, mms |-> {300, 1500},
        snd |-> {0, 1}, rcv |-> {1}, buf |-> {1, 2}, chunks |-> {<<1>>, <<3, 7>>, <<500, 1, 12>>}, dir |-> {"l2c"}, batch |-> {TRUE}, auto |-> {TRUE},
        mt |-> IF Deep THEN {TRUE} ELSE {}, links |-> {2, 3}, sessions |-> {2}, msgs |-> {Small, Many, Edge}]
\* (the capacity of the in-memory transport is not varied: with a few dozen bytes of transport buffer both engines block in a write
\*  while neither reads -- a property of any two peers that write inline, not of delivery; see DESIGN.md)
Params == DOMAIN Pal
RECURSIVE Variants(_, _)
\* all configurations obtained from cfg by changing the parameters of set ps (each to every palette value)
Variants(cfg, ps) == IF ps = {} THEN {cfg} ELSE LET p == CHOOSE p \in ps : TRUE IN UNION {Variants([cfg EXCEPT ![p] = v], ps \ {p}) : v \in Pal[p]}
Cases == UNION {Variants(Base, ps) : ps \in {q \in SUBSET Params : Cardinality(q) <= Strength}}

VARIABLE z
Init == z = [k |-> "start"]
Next == z.k = "start" /\ \E c \in Cases : z' = [k |-> "case", c |-> c]
Spec == Init /\ [][Next]_z
Emit == z.k = "start" \/ PrintT(<<"CASE", ToJson(z.c)>>)
=============================================================================
