SPECIFICATION Spec
CONSTANTS N = 3 MaxF = 3 Win = 2 Cred = 2 Cap = 2 HeldFirst = TRUE
INVARIANTS C01_Prefix WindowRespected
PROPERTY C01_Delivers
CHECK_DEADLOCK FALSE
