SPECIFICATION Spec
CONSTANTS Strength = 3 Deep = TRUE
INVARIANT Emit
CHECK_DEADLOCK FALSE
