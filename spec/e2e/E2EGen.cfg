SPECIFICATION Spec
CONSTANTS Strength = 2 Deep = FALSE
INVARIANT Emit
CHECK_DEADLOCK FALSE
