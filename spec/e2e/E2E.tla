-------------------------------- MODULE E2E --------------------------------
(* C01.  The path of a message from Sender::send on one endpoint to Receiver::recv on the other,
   at the grain of the hand-offs that could reorder, drop or duplicate:

     application --(one credit per delivery)--> sender link: split into frames of at most max-frame-size
       --(bounded FIFO)--> sender session: held back while the peer's incoming window is closed,
                           buffered transfers leave before later ones
       --(byte stream, FIFO)--> receiver session: window accounting, flow when the window is used up
       --(bounded FIFO)--> receiver link: reassembly until more = false
       --> recv(): one delivery per call, credit replenished by the Auto(n) policy

   Checked for every interleaving of the six processes and every window / credit / frame-count
   choice within the constants: what the receiving application has is always a prefix of what was
   submitted (order, exactly once, intact), and under weak fairness it eventually has everything.
   The conformance side (E2EGen.tla / E2ETrace.tla) runs the real pair of endpoints over an
   in-memory duplex through a byte tap and checks the same two statements on the recorded run. *)
EXTENDS Naturals, Sequences, SequencesExt, TLC
CONSTANTS N,        \* messages
          MaxF,     \* frames per message 1..MaxF (sizes relative to max-frame-size)
          Win,      \* incoming window of the receiving session
          Cred,     \* Auto(Cred)
          Cap,      \* capacity of the bounded FIFOs
          HeldFirst \* TRUE: buffered transfers leave before the current one (the code); FALSE: negative control

VARIABLES frames,    \* frames[i]: number of frames of message i (chosen initially)
          next,      \* next message the application submits
          credit,    \* link credit the sender holds
          linkQ,     \* link -> session FIFO: <<msg, idx, last>>
          held,      \* session buffer while the window is closed
          winS,      \* sender's view of the remote incoming window
          wire,      \* frames on the transport
          winR,      \* receiver's own incoming window
          recvQ,     \* session -> link FIFO
          partial,   \* frames of the delivery being reassembled
          ready,     \* complete deliveries waiting for recv
          got,       \* what recv has returned
          consumed   \* deliveries consumed since the last credit flow
vars == <<frames, next, credit, linkQ, held, winS, wire, winR, recvQ, partial, ready, got, consumed>>

Init == /\ frames \in [1..N -> 1..MaxF] /\ next = 1 /\ credit = Cred /\ linkQ = <<>> /\ held = <<>> /\ winS = Win /\ wire = <<>>
        /\ winR = Win /\ recvQ = <<>> /\ partial = <<>> /\ ready = <<>> /\ got = <<>> /\ consumed = 0

F(m, i) == [m |-> m, i |-> i, last |-> (i = frames[m])]
\* the application submits the next message when it has credit and the link FIFO has room for all its frames one by one
Submit == /\ next <= N /\ credit > 0 /\ Len(linkQ) < Cap
          /\ linkQ' = linkQ \o [i \in 1..frames[next] |-> F(next, i)]
          /\ credit' = credit - 1 /\ next' = next + 1
          /\ UNCHANGED <<frames, held, winS, wire, winR, recvQ, partial, ready, got, consumed>>
\* the session takes one frame from the link: buffered ones first, then the new one; it leaves only with an open window
SessOut == /\ linkQ # <<>> \/ held # <<>>
           /\ LET new == IF linkQ # <<>> THEN <<Head(linkQ)>> ELSE <<>>
                  q == IF HeldFirst THEN held \o new ELSE new \o held IN
              /\ linkQ' = IF linkQ # <<>> THEN Tail(linkQ) ELSE linkQ
              /\ IF winS > 0 THEN wire' = Append(wire, Head(q)) /\ held' = Tail(q) /\ winS' = winS - 1
                 ELSE wire' = wire /\ held' = q /\ winS' = winS
           /\ (winS > 0 \/ linkQ # <<>>)
           /\ UNCHANGED <<frames, next, credit, winR, recvQ, partial, ready, got, consumed>>
\* the receiving session takes a frame off the transport; when its window is used up it re-opens it with a flow
SessIn == /\ wire # <<>> /\ Len(recvQ) < Cap
          /\ wire' = Tail(wire) /\ recvQ' = Append(recvQ, Head(wire))
          /\ IF winR = 1 THEN winR' = Win /\ winS' = Win ELSE winR' = winR - 1 /\ winS' = winS
          /\ UNCHANGED <<frames, next, credit, linkQ, held, partial, ready, got, consumed>>
\* the receiving link appends the payload; more = false completes the delivery
LinkIn == /\ recvQ # <<>> /\ recvQ' = Tail(recvQ)
          /\ LET f == Head(recvQ) IN
             IF f.last THEN ready' = Append(ready, Append(partial, f)) /\ partial' = <<>>
             ELSE partial' = Append(partial, f) /\ ready' = ready
          /\ UNCHANGED <<frames, next, credit, linkQ, held, winS, wire, winR, got, consumed>>
\* recv returns one delivery; Auto(n) re-issues credit once half of it has been consumed
Recv == /\ ready # <<>> /\ ready' = Tail(ready) /\ got' = Append(got, Head(ready))
        /\ IF 2 * (consumed + 1) >= Cred THEN consumed' = 0 /\ credit' = credit + consumed + 1 ELSE consumed' = consumed + 1 /\ credit' = credit
        /\ UNCHANGED <<frames, next, linkQ, held, winS, wire, winR, recvQ, partial>>
Next == Submit \/ SessOut \/ SessIn \/ LinkIn \/ Recv
Spec == Init /\ [][Next]_vars /\ WF_vars(Submit) /\ WF_vars(SessOut) /\ WF_vars(SessIn) /\ WF_vars(LinkIn) /\ WF_vars(Recv)

Whole(m) == [i \in 1..frames[m] |-> F(m, i)]
Sent == [m \in 1..(next - 1) |-> Whole(m)]
\* order, exactly once, intact
C01_Prefix == IsPrefix(got, Sent)
\* nothing is held for ever
C01_Delivers == <>(Len(got) = N)
\* the window is respected on the way (the link between C01 and C07)
WindowRespected == Len(wire) <= Win
=============================================================================
