------------------------------ MODULE E2ETrace ------------------------------
(* Validate for C01: recorded runs of the real client <-> listener pair (harness `vh e2e`).  The
   same statements as E2E.tla, on the recorded order of events: what the receiving application
   has is at every moment a prefix of what was submitted (C01_Order / C01_Once / C01_NotBeforeSent),
   byte for byte (C01_Intact); at the end it has everything (C01_Delivers) and every send has
   reported the receiver's outcome (C01_Outcome).  Monitor style. *)
EXTENDS Naturals, Sequences, TLC, Json, IOUtils
Rec == ndJsonDeserialize(IOEnv.TRACE)
VARIABLES l, s, nfail
tvars == <<l, s, nfail>>
Fl(name, line, detail) == IF PrintT(<<"FAIL", name, line, detail>>) THEN 1 ELSE 1
Chk(name, cond, line, detail) == IF cond THEN 0 ELSE Fl(name, line, detail)
Stat(name) == IF PrintT(<<"STAT", name>>) THEN 0 ELSE 0
R(st1, f) == [s |-> st1, f |-> f]
S0 == [n |-> 0, sub |-> <<>>, got |-> <<>>, rets |-> {}, broken |-> FALSE]
Step(z, r, ln) ==
  CASE r.ev = "Init" -> R([S0 EXCEPT !.n = r.n], 0)
    [] r.ev = "Submit" -> R([z EXCEPT !.sub = Append(@, r.m)], 0)
    [] r.ev = "Recv" ->
         R([z EXCEPT !.got = Append(@, r.m)],
             Chk("C01_Once", ~\E i \in DOMAIN z.got : z.got[i] = r.m, ln, "duplicate")
           + Chk("C01_NotBeforeSent", \E i \in DOMAIN z.sub : z.sub[i] = r.m, ln, "")
           + Chk("C01_Order", (Len(z.got) < Len(z.sub) /\ z.sub[Len(z.got) + 1] = r.m) \/ (\E i \in DOMAIN z.got : z.got[i] = r.m), ln, "")
           + Chk("C01_Intact", r.intact, ln, ""))
    [] r.ev = "SendRet" -> R([z EXCEPT !.rets = @ \cup {r.m}], Chk("C01_Outcome", r.ok /\ r.outcome = "accepted", ln, IF r.ok THEN r.outcome ELSE "error") + Chk("C01_Outcome", r.m \notin z.rets, ln, "twice"))
    [] r.ev \in {"RecvErr", "SetupErr"} -> R([z EXCEPT !.broken = TRUE], Fl("C01_Delivers", ln, r.ev))
    [] r.ev = "End" -> R(z, Chk("C01_Delivers", z.broken \/ ~r.timeout, ln, "stalled")
                          + Chk("C01_Delivers", z.broken \/ r.timeout \/ Len(z.got) = z.n, ln, "lost")
                          + Chk("C01_Outcome", z.broken \/ r.timeout \/ \A m \in 1..z.n : m \in z.rets, ln, "missing")
                          + Chk("C01_NoPanic", r.panics = 0, ln, "")
                          + (IF Len(z.got) = z.n /\ z.n > 0 THEN Stat("delivered") ELSE 0))
    [] OTHER -> R(z, 0)
TInit == l = 1 /\ s = S0 /\ nfail = 0
TNext == /\ l <= Len(Rec) /\ l' = l + 1
         /\ LET res == Step(s, Rec[l], l) IN s' = res.s /\ nfail' = nfail + res.f
TSpec == TInit /\ [][TNext]_tvars
Accepted == IF TLCGet("stats").diameter - 1 = Len(Rec) THEN PrintT(<<"VALIDATED", Len(Rec)>>)
            ELSE Print(<<"UNMATCHED", TLCGet("stats").diameter>>, FALSE)
=============================================================================
