------------------------------ MODULE E2ETrace ------------------------------
(* Validate for C01: recorded runs of the real client <-> listener pair (harness `vh e2e`).  The
   same statements as E2E.tla, on the recorded order of events: what the receiving application
   has is at every moment a prefix of what was submitted (C01_Order / C01_Once / C01_NotBeforeSent),
   byte for byte (C01_Intact), per link, and never a message of another link (C01_Routing); at the end it has everything (C01_Delivers) and every send has
   reported the receiver's outcome (C01_Outcome).  Monitor style. *)
EXTENDS Naturals, Sequences, FiniteSets, TLC, Json, IOUtils
Rec == ndJsonDeserialize(IOEnv.TRACE)
VARIABLES l, s, nfail
tvars == <<l, s, nfail>>
Fl(name, line, detail) == IF PrintT(<<"FAIL", name, line, detail>>) THEN 1 ELSE 1
Chk(name, cond, line, detail) == IF cond THEN 0 ELSE Fl(name, line, detail)
Stat(name) == IF PrintT(<<"STAT", name>>) THEN 0 ELSE 0
R(st1, f) == [s |-> st1, f |-> f]
S0 == [n |-> 0, links |-> 1, sub |-> <<>>, got |-> <<>>, rets |-> {}, broken |-> FALSE]
\* per link: what was submitted / received on link ln, in order (rows carry the link index; message ids are 1000 * ln + k)
Of(q, ln) == SelectSeq(q, LAMBDA x : x.ln = ln)
Step(z, r, ln) ==
  CASE r.ev = "Init" -> R([S0 EXCEPT !.n = r.n, !.links = r.links], 0)
    [] r.ev = "Submit" -> R([z EXCEPT !.sub = Append(@, [ln |-> r.ln, m |-> r.m])], 0)
    [] r.ev = "Recv" ->
         LET sub == Of(z.sub, r.ln) got == Of(z.got, r.ln)
             dup == \E i \in DOMAIN z.got : z.got[i].m = r.m IN
         R([z EXCEPT !.got = Append(@, [ln |-> r.ln, m |-> r.m])],
             Chk("C01_Once", ~dup, ln, "duplicate")
           \* a message submitted on another link must not come out of this one
           + Chk("C01_Routing", r.m \div 1000 = r.ln, ln, "")
           + Chk("C01_NotBeforeSent", \E i \in DOMAIN z.sub : z.sub[i].m = r.m, ln, "")
           + Chk("C01_Order", dup \/ r.m \div 1000 # r.ln \/ (Len(got) < Len(sub) /\ sub[Len(got) + 1].m = r.m), ln, "")
           + Chk("C01_Intact", r.intact \/ r.m \div 1000 # r.ln, ln, ""))
    [] r.ev = "SendRet" -> R([z EXCEPT !.rets = @ \cup {r.m}], Chk("C01_Outcome", r.ok /\ r.outcome = "accepted", ln, IF r.ok THEN r.outcome ELSE "error") + Chk("C01_Outcome", r.m \notin z.rets, ln, "twice"))
    [] r.ev \in {"RecvErr", "SetupErr"} -> R([z EXCEPT !.broken = TRUE], Fl("C01_Delivers", ln, r.ev))
    [] r.ev = "End" -> R(z, Chk("C01_Delivers", z.broken \/ ~r.timeout, ln, "stalled")
                          + Chk("C01_Delivers", z.broken \/ r.timeout \/ Len(z.got) = z.n * z.links, ln, "lost")
                          + Chk("C01_Outcome", z.broken \/ r.timeout \/ Cardinality(z.rets) = z.n * z.links, ln, "missing")
                          + Chk("C01_NoPanic", r.panics = 0, ln, "")
                          + (IF Len(z.got) = z.n * z.links /\ z.n > 0 THEN Stat("delivered") ELSE 0))
    [] OTHER -> R(z, 0)
TInit == l = 1 /\ s = S0 /\ nfail = 0
TNext == /\ l <= Len(Rec) /\ l' = l + 1
         /\ LET res == Step(s, Rec[l], l) IN s' = res.s /\ nfail' = nfail + res.f
TSpec == TInit /\ [][TNext]_tvars
Accepted == IF TLCGet("stats").diameter - 1 = Len(Rec) THEN PrintT(<<"VALIDATED", Len(Rec)>>)
            ELSE Print(<<"UNMATCHED", TLCGet("stats").diameter>>, FALSE)
=============================================================================
