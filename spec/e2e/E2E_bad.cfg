SPECIFICATION Spec
CONSTANTS N = 3 MaxF = 2 Win = 1 Cred = 2 Cap = 2 HeldFirst = FALSE
INVARIANTS C01_Prefix
CHECK_DEADLOCK FALSE
