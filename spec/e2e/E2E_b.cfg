SPECIFICATION Spec
CONSTANTS N = 4 MaxF = 2 Win = 1 Cred = 1 Cap = 1 HeldFirst = TRUE
INVARIANTS C01_Prefix WindowRespected
PROPERTY C01_Delivers
CHECK_DEADLOCK FALSE
