SPECIFICATION Spec
CONSTANT Depth = 6
INVARIANT Emit
CHECK_DEADLOCK FALSE
