SPECIFICATION Spec
CONSTANTS Depth = 2 Pre = 0 Deep = FALSE
INVARIANT Emit
CHECK_DEADLOCK FALSE
