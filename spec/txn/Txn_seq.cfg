SPECIFICATION Spec
CONSTANTS MaxTxn = 2 MaxMsg = 3 MaxSent = 6 Deferred = FALSE
INVARIANTS Isolation Atomicity NoGhosts DischargeOnce NoLatePost
CHECK_DEADLOCK FALSE
