-------------------------------- MODULE Txn --------------------------------
(* C18, resource side.  Implementation-shaped model of how the listener handles transactions:

     controller --wire--> session engine --coordQ--> coordinator task --ctrlQ--> session engine

   The session engine reads frames in wire order.  A transactional post is buffered (or refused)
   by the engine itself (transaction/session.rs on_incoming_transfer); a declare / discharge is a
   delivery on the control link, forwarded to the coordinator task (coordinator.rs event_loop),
   which turns it into a SessionControl request that the engine serves later
   (session/engine.rs on_control).  Dropping the control link makes the coordinator queue one
   AbortTransaction per id it still owns.

   Deferred = TRUE is that structure; Deferred = FALSE serves control-link deliveries in wire order
   (the sequential reading the trace monitor TxnTrace.tla uses as its oracle).

   Checked: Isolation, Atomicity, FreshIds, DischargeOnce for both; NoLatePost (a post the
   controller sent after its discharge of that transaction is never applied) holds for
   Deferred = FALSE and is refuted by TLC for Deferred = TRUE (Txn_race.cfg, negative control:
   the schedule is replayed against the real listener by TxnGen's back-to-back events). *)
EXTENDS Naturals, Sequences, FiniteSets, TLC
CONSTANTS MaxTxn, MaxMsg, MaxSent, Deferred

VARIABLES wire,      \* frames sent by the controller, not yet read by the engine
          nsent,     \* frames sent so far
          coordQ,    \* control-link deliveries waiting for the coordinator task
          ctrlQ,     \* requests of the coordinator waiting for the engine
          txns,      \* resource: live transaction id -> buffered posts
          owned,     \* coordinator: ids declared over the control link and not yet discharged
          nextId, nextMsg,
          known,     \* ids the controller has been told (declared replies)
          visible,   \* what the receiving application can see, in order
          \* history
          buffered,  \* id -> posts accepted into the transaction
          fate,      \* id -> "active" | "committed" | "rolledback" | "aborted"
          dischSent, \* ids whose discharge the controller has sent
          late,      \* messages posted (sent) under an id after the controller sent its discharge
          refused,   \* messages refused by the resource
          ctlUp
vars == <<wire, nsent, coordQ, ctrlQ, txns, owned, nextId, nextMsg, known, visible, buffered, fate, dischSent, late, refused, ctlUp>>

Ids == 1..MaxTxn
Init == /\ wire = <<>> /\ nsent = 0 /\ coordQ = <<>> /\ ctrlQ = <<>> /\ txns = <<>> /\ owned = {} /\ nextId = 1 /\ nextMsg = 1
        /\ known = {} /\ visible = <<>> /\ buffered = [i \in Ids |-> <<>>] /\ fate = [i \in Ids |-> "none"]
        /\ dischSent = {} /\ late = {} /\ refused = {} /\ ctlUp = TRUE

Send(f) == nsent < MaxSent /\ wire' = Append(wire, f) /\ nsent' = nsent + 1
(* ---------------- controller (environment) *)
SendDeclare == /\ ctlUp /\ Send([k |-> "declare"])
               /\ UNCHANGED <<coordQ, ctrlQ, txns, owned, nextId, nextMsg, known, visible, buffered, fate, dischSent, late, refused, ctlUp>>
SendPost == \E id \in known \cup {0} :      \* 0: not transactional
              /\ nextMsg <= MaxMsg /\ Send([k |-> "post", id |-> id, m |-> nextMsg]) /\ nextMsg' = nextMsg + 1
              /\ late' = IF id \in dischSent THEN late \cup {nextMsg} ELSE late
              /\ UNCHANGED <<coordQ, ctrlQ, txns, owned, nextId, known, visible, buffered, fate, dischSent, refused, ctlUp>>
SendDischarge == \E id \in known, fail \in BOOLEAN :
              /\ ctlUp /\ Send([k |-> "discharge", id |-> id, fail |-> fail]) /\ dischSent' = dischSent \cup {id}
              /\ UNCHANGED <<coordQ, ctrlQ, txns, owned, nextId, nextMsg, known, visible, buffered, fate, late, refused, ctlUp>>
SendCtlDetach == /\ ctlUp /\ Send([k |-> "ctldetach"]) /\ ctlUp' = FALSE
                 /\ UNCHANGED <<coordQ, ctrlQ, txns, owned, nextId, nextMsg, known, visible, buffered, fate, dischSent, late, refused>>

(* ---------------- resource *)
\* resource state as one record, so that a request is a function on it
RS == [txns |-> txns, owned |-> owned, known |-> known, fate |-> fate, nextId |-> nextId, visible |-> visible]
SetRS(r) == /\ txns' = r.txns /\ owned' = r.owned /\ known' = r.known /\ fate' = r.fate /\ nextId' = r.nextId /\ visible' = r.visible
Without(f, id) == [i \in DOMAIN f \ {id} |-> f[i]]
ApplyF(r, req) ==
  IF req.k = "alloc" THEN
       IF r.nextId > MaxTxn THEN r
       ELSE [r EXCEPT !.txns = [i \in DOMAIN r.txns \cup {r.nextId} |-> IF i = r.nextId THEN <<>> ELSE r.txns[i]],
                      !.owned = @ \cup {r.nextId}, !.known = @ \cup {r.nextId}, !.fate = [@ EXCEPT ![r.nextId] = "active"], !.nextId = @ + 1]
  ELSE IF req.id \notin DOMAIN r.txns THEN r
  ELSE [r EXCEPT !.visible = IF req.k = "commit" THEN @ \o r.txns[req.id] ELSE @,
                 !.txns = Without(@, req.id),
                 !.fate = [@ EXCEPT ![req.id] = IF req.k = "commit" THEN "committed" ELSE IF req.k = "rollback" THEN "rolledback" ELSE "aborted"]]
RECURSIVE ApplyAll(_, _)
ApplyAll(r, reqs) == IF reqs = <<>> THEN r ELSE ApplyAll(ApplyF(r, Head(reqs)), Tail(reqs))
\* the coordinator's part of a control-link delivery: the requests it raises and the ids it stops owning
SeqOf(S) == [i \in 1..Cardinality(S) |-> CHOOSE x \in S : Cardinality({y \in S : y < x}) = i - 1]
Raise(f, own) == IF f.k = "declare" THEN <<[k |-> "alloc"]>>
                 ELSE IF f.k = "discharge" THEN (IF f.id \in own THEN <<[k |-> IF f.fail THEN "rollback" ELSE "commit", id |-> f.id]>> ELSE <<>>)
                 ELSE [i \in 1..Cardinality(own) |-> [k |-> "abort", id |-> SeqOf(own)[i]]]
Disown(f, own) == IF f.k = "discharge" THEN own \ {f.id} ELSE IF f.k = "ctldetach" THEN {} ELSE own

EngineRead ==
  /\ wire # <<>> /\ wire' = Tail(wire)
  /\ LET f == Head(wire) IN
     IF f.k = "post" THEN
          /\ IF f.id = 0 THEN visible' = Append(visible, f.m) /\ UNCHANGED <<txns, buffered, refused>>
             ELSE IF f.id \in DOMAIN txns THEN txns' = [txns EXCEPT ![f.id] = Append(@, f.m)] /\ buffered' = [buffered EXCEPT ![f.id] = Append(@, f.m)] /\ UNCHANGED <<visible, refused>>
             ELSE refused' = refused \cup {f.m} /\ UNCHANGED <<txns, buffered, visible>>
          /\ UNCHANGED <<coordQ, ctrlQ, owned, nextId, known, fate>>
     ELSE IF Deferred THEN coordQ' = Append(coordQ, f) /\ UNCHANGED <<ctrlQ, txns, owned, nextId, known, visible, buffered, fate, refused>>
     ELSE \* wire order: the coordinator's requests are served at once
          /\ SetRS(ApplyAll([RS EXCEPT !.owned = Disown(f, owned)], Raise(f, owned)))
          /\ UNCHANGED <<coordQ, ctrlQ, buffered, refused>>
  /\ UNCHANGED <<nsent, nextMsg, dischSent, late, ctlUp>>

CoordinatorStep ==
  /\ coordQ # <<>> /\ coordQ' = Tail(coordQ)
  /\ LET f == Head(coordQ) IN ctrlQ' = ctrlQ \o Raise(f, owned) /\ owned' = Disown(f, owned)
  /\ UNCHANGED <<wire, nsent, txns, nextId, nextMsg, known, visible, buffered, fate, dischSent, late, refused, ctlUp>>

EngineControl ==
  /\ ctrlQ # <<>> /\ ctrlQ' = Tail(ctrlQ)
  /\ SetRS(ApplyF(RS, Head(ctrlQ)))
  /\ UNCHANGED <<wire, nsent, coordQ, nextMsg, buffered, dischSent, late, refused, ctlUp>>

Next == SendDeclare \/ SendPost \/ SendDischarge \/ SendCtlDetach \/ EngineRead \/ CoordinatorStep \/ EngineControl
Spec == Init /\ [][Next]_vars

(* ---------------- properties *)
Range(q) == {q[i] : i \in DOMAIN q}
\* posts of a live transaction are not visible
Isolation == \A id \in DOMAIN txns : Range(txns[id]) \cap Range(visible) = {}
\* all or nothing, in posting order, as one block
IsBlock(b, q) == b = <<>> \/ \E i \in 0..(Len(q) - Len(b)) : SubSeq(q, i + 1, i + Len(b)) = b
Atomicity == \A id \in Ids : /\ fate[id] = "committed" => IsBlock(buffered[id], visible)
                             /\ fate[id] \in {"rolledback", "aborted"} => Range(buffered[id]) \cap Range(visible) = {}
\* nothing refused is ever visible, nothing is visible twice
NoGhosts == Range(visible) \cap refused = {} /\ Cardinality(Range(visible)) = Len(visible)
\* a transaction is discharged at most once
DischargeOnce == \A id \in Ids : fate[id] \in {"committed", "rolledback", "aborted"} => id \notin DOMAIN txns
\* wire-order reading of "posts that arrive after discharge"
NoLatePost == late \cap Range(visible) = {}
=============================================================================
