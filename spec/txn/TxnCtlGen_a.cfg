SPECIFICATION Spec
CONSTANT Depth = 4
INVARIANT Emit
CHECK_DEADLOCK FALSE
