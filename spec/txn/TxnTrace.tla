------------------------------ MODULE TxnTrace ------------------------------
(* Validate for C18: recorded runs of the real endpoint (harness `vh ep`) against the sequential
   (wire-order) reading of Txn.tla.

   Listener side (the endpoint is the transactional resource, the scripted peer the controller):
   the peer's frames drive the ideal state -- transactions with their buffered posts, the queue of
   messages the receiving application may see -- and every recv() result, every reply on the
   control link and every refusal is compared with it.
   Client side (the endpoint is the controller, the scripted peer the coordinator): what the
   endpoint puts on the wire for post / commit / rollback and what it reports to the application
   are compared with what the application asked and what the coordinator answered.
   Monitor style: never rejects, prints <<"FAIL", clause, line, detail>>. *)
EXTENDS Naturals, Integers, Sequences, FiniteSets, TLC, Json, IOUtils
Rec == ndJsonDeserialize(IOEnv.TRACE)
VARIABLES l, s, nfail
tvars == <<l, s, nfail>>

Fl(name, line, detail) == IF PrintT(<<"FAIL", name, line, detail>>) THEN 1 ELSE 1
Chk(name, cond, line, detail) == IF cond THEN 0 ELSE Fl(name, line, detail)
Stat(name) == IF PrintT(<<"STAT", name>>) THEN 0 ELSE 0
R(st1, f) == [s |-> st1, f |-> f]
Get(r, k, d) == IF k \in DOMAIN r THEN r[k] ELSE d
IsTxnErr(c) == c \in {"amqp:transaction:unknown-id", "amqp:transaction:rollback", "amqp:transaction:timeout"}

S0 == [side |-> "client", dead |-> FALSE,
       txs |-> <<>>,        \* [st, posts (seq of [ln, m]), gen]
       ctlGen |-> 0, ctlUp |-> FALSE, ctlH |-> -1,
       names |-> <<>>,      \* peer handle -> link name: [h, name]
       vis |-> <<>>,        \* messages the application may see, in order: [ln, m]
       refused |-> {},      \* messages that must never be seen
       late |-> {},         \* ... because they were posted after the controller had sent the discharge that the endpoint had not answered yet
       lateDids |-> {},
       refOwed |-> 0,       \* refusals the endpoint has not yet signalled with a transaction error
       replies |-> <<>>,    \* replies owed on the control link: [did, want]
       cur |-> <<>>,        \* deliveries in progress per peer handle: [h, tx, txn (BOOLEAN)]
       \* retirement of a delivery the resource sent: the application's send, its delivery-id, and what has become of it
       snd |-> [call |-> -1, m |-> -1, did |-> -1, st |-> "none", tx |-> -1],   \* st: none | unsettled | retired (under tx, not yet discharged) | settled | dropped (rolled back)
       \* controller side
       xs |-> <<>>,         \* transactions of the application: [x, tx, st]
       decls |-> <<>>,      \* declares asked by the application: [call, x]
       wantPost |-> <<>>,   \* posts asked by the application, not yet seen on the wire: [m, x]
       sentPost |-> <<>>,   \* posts whose first frame has been seen: [m, x]
       wantDis |-> <<>>,    \* discharges asked: [x, fail, call]
       disSeen |-> <<>>,    \* discharges seen on the wire: [did, tx, x, call]
       verdicts |-> <<>>]   \* what the coordinator answered: [call, ok]

NameOf(z, h) == LET i == {j \in DOMAIN z.names : z.names[j].h = h} IN IF i = {} THEN "?" ELSE z.names[CHOOSE j \in i : \A k \in i : k <= j].name
TxOk(z, k) == k >= 0 /\ k < Len(z.txs)
Active(z, k) == TxOk(z, k) /\ z.txs[k + 1].st = "active"
FirstVis(z, ln) == LET i == {j \in DOMAIN z.vis : z.vis[j].ln = ln} IN IF i = {} THEN 0 ELSE CHOOSE j \in i : \A k \in i : j <= k
RemoveAt(q, i) == SubSeq(q, 1, i - 1) \o SubSeq(q, i + 1, Len(q))
PostsOf(z, pred(_)) == UNION {{z.txs[k].posts[i].m : i \in DOMAIN z.txs[k].posts} : k \in {k \in DOMAIN z.txs : pred(z.txs[k])}}
AbortAll(z, onlyGen) == [k \in DOMAIN z.txs |-> IF z.txs[k].st = "active" /\ (onlyGen < 0 \/ z.txs[k].gen = onlyGen) THEN [z.txs[k] EXCEPT !.st = "aborted"] ELSE z.txs[k]]

\* the retirement follows the fate of its transaction
RetireFate(z, k, commit) == IF z.snd.st = "retired" /\ z.snd.tx = k THEN [z.snd EXCEPT !.st = IF commit THEN "settled" ELSE "dropped"] ELSE z.snd
RetireAbort(z, txs2) == IF z.snd.st = "retired" /\ TxOk(z, z.snd.tx) /\ txs2[z.snd.tx + 1].st = "aborted" THEN [z.snd EXCEPT !.st = "dropped"] ELSE z.snd

(* ------------------------------------------------------------ listener side: peer frames *)
L_PFrame(z, r, ln) ==
  IF ~r.written \/ z.dead THEN R(z, 0) ELSE
  IF r.perf = "attach" THEN
       IF r.f.coord THEN R([z EXCEPT !.ctlGen = @ + 1, !.ctlUp = TRUE, !.ctlH = r.f.h], 0)
       ELSE R([z EXCEPT !.names = Append(@, [h |-> r.f.h, name |-> r.f.name])], 0)
  ELSE IF r.perf = "detach" /\ r.f.h = z.ctlH /\ z.ctlUp THEN R([z EXCEPT !.ctlUp = FALSE, !.txs = AbortAll(z, z.ctlGen), !.snd = RetireAbort(z, AbortAll(z, z.ctlGen))], 0)
  ELSE IF r.perf \in {"end", "close"} THEN R([z EXCEPT !.txs = AbortAll(z, -1), !.dead = TRUE], 0)
  ELSE IF r.perf = "disposition" THEN
       \* the controller settles a delivery of the resource: plainly (effective at once) or under a transaction (effective on commit)
       LET hi == IF r.f.last >= 0 THEN r.f.last ELSE r.f.first
           mine == z.snd.did >= 0 /\ z.snd.did >= r.f.first /\ z.snd.did <= hi /\ z.snd.st \in {"unsettled", "retired", "dropped"}
           k == r.f.state.tx IN
       \* a retirement that names a transaction which is not live has to be refused, whatever it covers
       IF r.f.role = "r" /\ r.f.state.k = "txn" /\ ~Active(z, k) THEN R([z EXCEPT !.refOwed = @ + 1], 0)
       ELSE IF r.f.role # "r" \/ ~mine THEN R(z, 0)
       ELSE IF r.f.state.k = "txn" THEN
            (IF z.snd.st = "retired" THEN R(z, 0)      \* a second transactional retirement of the same delivery is not judged
             ELSE IF Active(z, k) THEN R([z EXCEPT !.snd.st = "retired", !.snd.tx = k], 0)
             ELSE R([z EXCEPT !.refOwed = @ + 1], 0))
       ELSE IF r.f.settled THEN R([z EXCEPT !.snd.st = "settled"], 0) ELSE R(z, 0)
  ELSE IF r.perf # "transfer" THEN R(z, 0)
  ELSE IF "ctl" \in DOMAIN r THEN
       IF ~z.ctlUp \/ r.f.h # z.ctlH THEN R(z, 0)
       ELSE IF r.ctl.k = "declare"
       THEN R([z EXCEPT !.txs = Append(@, [st |-> "active", posts |-> <<>>, gen |-> z.ctlGen]), !.replies = Append(@, [did |-> r.f.did, want |-> "declared", tx |-> -1])], 0)
       ELSE LET k == r.ctl.tx
                ok == Active(z, k) /\ z.txs[k + 1].gen = z.ctlGen IN
            IF ~ok THEN R([z EXCEPT !.replies = Append(@, [did |-> r.f.did, want |-> "rejected", tx |-> k])], 0)
            ELSE R([z EXCEPT !.snd = RetireFate(z, k, ~r.ctl.fail),
                            !.txs[k + 1].st = IF r.ctl.fail THEN "rolledback" ELSE "committed",
                            !.vis = IF r.ctl.fail THEN @ ELSE @ \o z.txs[k + 1].posts,
                            !.replies = Append(@, [did |-> r.f.did, want |-> "accepted", tx |-> k])], 0)
  ELSE \* a post: the first frame says whether it is transactional and under which id; a post that has to be refused is refused
       \* at its first frame, one that is taken counts when its last frame (more = false) has arrived
       LET ci == {j \in DOMAIN z.cur : z.cur[j].h = r.f.h}
           first == ci = {}
           c0 == IF first THEN [h |-> r.f.h, tx |-> r.f.state.tx, txn |-> (r.f.state.k = "txn"), bad |-> FALSE] ELSE z.cur[CHOOSE j \in ci : TRUE]
           k == c0.tx
           isLate == TxOk(z, k) /\ \E j \in DOMAIN z.replies : z.replies[j].want # "declared" /\ z.replies[j].tx = k
           refuse == first /\ c0.txn /\ ~Active(z, k)
           c1 == [c0 EXCEPT !.bad = (@ \/ refuse)]
           cur2 == IF r.f.more THEN (IF first THEN Append(z.cur, c1) ELSE z.cur) ELSE SelectSeq(z.cur, LAMBDA c : c.h # r.f.h)
           e == [ln |-> NameOf(z, r.f.h), m |-> r.pl.m]
           z1 == [z EXCEPT !.cur = cur2] IN
       IF refuse THEN (IF isLate THEN R([z1 EXCEPT !.late = @ \cup {e.m}, !.lateDids = @ \cup {r.f.did}], 0)
                       ELSE R([z1 EXCEPT !.refused = @ \cup {e.m}, !.refOwed = @ + 1], 0))
       ELSE IF r.f.more \/ c1.bad THEN R(z1, 0)
       \* an aborted post is no post
       ELSE IF Get(r.f, "aborted", FALSE) THEN R(z1, 0)
       ELSE IF ~c1.txn THEN R([z1 EXCEPT !.vis = Append(@, e)], 0)
       ELSE IF Active(z, k) THEN R([z1 EXCEPT !.txs[k + 1].posts = Append(@, e)], 0)
       \* the transaction ended between the first and the last frame of the post: nothing is demanded of this delivery
       \* (it must never be seen; the endpoint may refuse it with a transaction error)
       ELSE R([z1 EXCEPT !.refused = @ \cup {e.m}, !.refOwed = @ + 1], 0)

(* ------------------------------------------------------------ listener side: what the endpoint does *)
L_EFrame(z, r, ln) ==
  IF r.perf = "transfer" THEN
       (IF z.snd.m >= 0 /\ r.pl.m = z.snd.m /\ z.snd.did < 0 THEN R([z EXCEPT !.snd.did = r.f.did, !.snd.st = "unsettled"], 0) ELSE R(z, 0))
  ELSE IF r.perf = "disposition" /\ r.f.role = "r" THEN
       LET hi == IF r.f.last >= 0 THEN r.f.last ELSE r.f.first
           idx == {j \in DOMAIN z.replies : z.replies[j].did >= r.f.first /\ z.replies[j].did <= hi}
           k == r.f.state.k IN
       IF idx = {} THEN
            \* not a control-link reply: a declared state has no business here; a rejection with a transaction error signals a refusal
            R([z EXCEPT !.refOwed = IF k = "rejected" /\ IsTxnErr(r.f.state.cond) THEN 0 ELSE @],
              Chk("C18_FreshId", k # "declared", ln, "declared-unasked")
            + Chk("C18_LatePost", ~(k = "txn" /\ \E d \in z.lateDids : d >= r.f.first /\ d <= hi), ln, "accepted"))
       ELSE LET j == CHOOSE j \in idx : TRUE
                want == z.replies[j].want IN
            R([z EXCEPT !.replies = SelectSeq(@, LAMBDA x : ~(x.did >= r.f.first /\ x.did <= hi))],
              Chk("C18_DischargeReply", (want = "declared" => k \in {"declared", "rejected"}) /\ (want = "accepted" => k = "accepted")
                                        /\ (want = "rejected" => k = "rejected" /\ IsTxnErr(r.f.state.cond)), ln, want \o "-got-" \o k)
            + Chk("C18_FreshId", k # "declared" \/ Get(r.f.state, "fresh", FALSE), ln, "reused")
            + (IF k = "declared" THEN Stat("declared") ELSE IF want = "rejected" /\ k = "rejected" THEN Stat("discharge-refused") ELSE 0))
  \* a transaction error from the endpoint answers a post it had to refuse; with nothing to refuse it is itself a violation
  \* (posts under live transactions must be taken)
  ELSE IF r.perf \in {"end", "detach", "close"} /\ IsTxnErr(r.f.err) THEN
       R([z EXCEPT !.refOwed = 0, !.dead = (@ \/ r.perf # "detach")],
         Chk("C18_SpuriousRefusal", z.refOwed > 0 \/ z.late # {} \/ z.dead, ln, r.perf) + Stat("post-refused"))
  ELSE IF r.perf \in {"end", "close"} THEN R([z EXCEPT !.dead = TRUE], 0)
  ELSE R(z, 0)

L_RecvRet(z, r, ln) ==
  IF ~r.res.ok THEN R(z, 0) ELSE
  LET m == r.res.m
      i == FirstVis(z, r.lname)
      exp == IF i = 0 THEN -1 ELSE z.vis[i].m
      live == PostsOf(z, LAMBDA t : t.st = "active")
      gone == PostsOf(z, LAMBDA t : t.st \in {"rolledback", "aborted"})
      j == {n \in DOMAIN z.vis : z.vis[n].m = m}
      vis2 == IF j = {} THEN z.vis ELSE RemoveAt(z.vis, CHOOSE n \in j : TRUE) IN
  R([z EXCEPT !.vis = vis2],
      Chk("C18_Isolation", m \notin live, ln, "before-discharge")
    + Chk("C18_Atomic", m \notin gone, ln, "after-rollback")
    + Chk("C18_Refused", m \notin z.refused, ln, "applied")
    + Chk("C18_LatePost", m \notin z.late, ln, "applied")
    + Chk("C18_Order", z.dead \/ m \in live \/ m \in gone \/ m \in z.refused \/ m \in z.late \/ m = exp, ln, "")
    + Stat("received"))

\* at rest: whatever has become visible is delivered to a waiting recv
L_Rest(z, r, ln, pend) ==
  Chk("C18_CommitDelivers", z.dead \/ \A i \in DOMAIN pend : ~(pend[i].op = "recv" /\ FirstVis(z, pend[i].lname) > 0), ln, "")

(* ------------------------------------------------------------ controller side *)
XIdx(z, x) == LET i == {j \in DOMAIN z.xs : z.xs[j].x = x} IN IF i = {} THEN 0 ELSE CHOOSE j \in i : \A k \in i : k <= j
C_ApiCall(z, r, ln) ==
  IF r.op = "txn_declare" THEN R([z EXCEPT !.decls = Append(@, [call |-> r.call, x |-> r.args.x])], 0)
  ELSE IF r.op = "txn_post" THEN R([z EXCEPT !.wantPost = Append(@, [m |-> r.args.m, x |-> r.args.x])], 0)
  ELSE IF r.op \in {"txn_commit", "txn_rollback"} THEN R([z EXCEPT !.wantDis = Append(@, [x |-> r.args.x, fail |-> (r.op = "txn_rollback"), call |-> r.call])], 0)
  ELSE R(z, 0)
C_EFrame(z, r, ln) ==
  IF r.perf # "transfer" THEN R(z, 0)
  ELSE IF "ctl" \in DOMAIN r THEN
       IF r.ctl.k # "discharge" THEN R(z, 0)
       \* a transaction that is dropped undischarged (also after a failed commit) is rolled back by the library: fail = true, its own id
       ELSE IF z.wantDis = <<>> THEN R(z, Chk("C18_DischargeWire", r.ctl.fail /\ \E j \in DOMAIN z.xs : z.xs[j].tx = r.ctl.tx, ln, "unasked"))
       ELSE LET w == Head(z.wantDis) xi == XIdx(z, w.x) IN
            R([z EXCEPT !.wantDis = Tail(@), !.disSeen = Append(@, [did |-> r.f.did, call |-> w.call])],
              Chk("C18_DischargeWire", xi > 0 /\ r.ctl.tx = z.xs[xi].tx, ln, "txn-id") + Chk("C18_DischargeWire", r.ctl.fail = w.fail, ln, "fail-flag") + Stat("discharge-sent"))
  ELSE LET wi == {j \in DOMAIN z.wantPost : z.wantPost[j].m = r.pl.m}
           si == {j \in DOMAIN z.sentPost : z.sentPost[j].m = r.pl.m} IN
       \* every further frame of a post that is split is associated with the same transaction explicitly (4.4.2)
       IF r.pl.off > 0 THEN (IF si = {} THEN R(z, 0)
                             ELSE LET w == z.sentPost[CHOOSE j \in si : TRUE] xi == XIdx(z, w.x) IN
                                  R(z, Chk("C18_PostCarriesId", r.f.state.k = "txn" /\ xi > 0 /\ r.f.state.tx = z.xs[xi].tx, ln, "continuation-frame:" \o r.f.state.k)))
       ELSE IF wi = {} THEN R(z, 0)
       ELSE LET w == z.wantPost[CHOOSE j \in wi : TRUE] xi == XIdx(z, w.x) IN
            R([z EXCEPT !.wantPost = SelectSeq(@, LAMBDA p : p.m # r.pl.m), !.sentPost = Append(@, w)],
              Chk("C18_PostCarriesId", r.f.state.k = "txn" /\ xi > 0 /\ r.f.state.tx = z.xs[xi].tx, ln, r.f.state.k) + Stat("post-sent"))
C_PFrame(z, r, ln) ==
  IF ~r.written \/ r.perf # "disposition" THEN R(z, 0) ELSE
  LET hi == IF r.f.last >= 0 THEN r.f.last ELSE r.f.first
      idx == {j \in DOMAIN z.disSeen : z.disSeen[j].did >= r.f.first /\ z.disSeen[j].did <= hi} IN
  IF idx = {} THEN R(z, 0)
  ELSE LET d == z.disSeen[CHOOSE j \in idx : TRUE] IN R([z EXCEPT !.verdicts = Append(@, [call |-> d.call, ok |-> (r.f.state.k = "accepted")])], 0)
C_ApiRet(z, r, ln) ==
  IF r.op = "txn_declare" THEN
       LET di == {j \in DOMAIN z.decls : z.decls[j].call = r.call} IN
       IF r.res.ok /\ di # {} THEN R([z EXCEPT !.xs = Append(@, [x |-> z.decls[CHOOSE j \in di : TRUE].x, tx |-> r.res.tx])], Stat("declare-ok")) ELSE R(z, 0)
  ELSE IF r.op \in {"txn_commit", "txn_rollback"} THEN
       LET vi == {j \in DOMAIN z.verdicts : z.verdicts[j].call = r.call} IN
       IF vi = {} THEN R(z, Chk("C18_OutcomeReported", ~r.res.ok, ln, "ok-without-answer"))
       ELSE R(z, Chk("C18_OutcomeReported", r.res.ok = z.verdicts[CHOOSE j \in vi : TRUE].ok, ln, IF r.res.ok THEN "ok-but-rejected" ELSE "error-but-accepted") + Stat("discharge-reported"))
  ELSE R(z, 0)

(* ------------------------------------------------------------ one step *)
Step(z, r, ln) ==
  CASE r.ev = "Init" -> R([S0 EXCEPT !.side = r.side], 0)
    [] r.ev = "PFrame" -> IF z.side = "listener" THEN L_PFrame(z, r, ln) ELSE C_PFrame(z, r, ln)
    [] r.ev = "EFrame" -> IF z.side = "listener" THEN L_EFrame(z, r, ln) ELSE C_EFrame(z, r, ln)
    [] r.ev \in {"PEof", "PReset", "EEof"} -> R([z EXCEPT !.dead = TRUE], 0)
    [] r.ev = "ApiCall" -> IF z.side = "listener" THEN (IF r.op = "send" THEN R([z EXCEPT !.snd.call = r.call, !.snd.m = r.args.m], 0) ELSE R(z, 0)) ELSE C_ApiCall(z, r, ln)
    [] r.ev = "ApiRet" -> IF z.side = "listener"
                          THEN (IF r.op = "recv" THEN L_RecvRet(z, r, ln)
                                \* the send resolves with the controller's outcome only once the retirement has taken effect
                                ELSE IF r.op = "send" /\ r.call = z.snd.call /\ r.res.ok THEN
                                     R([z EXCEPT !.snd.call = -1], Chk("C18_RetireIsolated", z.snd.st = "settled" \/ z.dead, ln,
                                                                        IF z.snd.st = "retired" THEN "before-discharge" ELSE IF z.snd.st = "dropped" THEN "after-rollback" ELSE "unsettled") + Stat("retired"))
                                ELSE IF r.op = "send" /\ r.call = z.snd.call THEN R([z EXCEPT !.snd.call = -1], 0)
                                ELSE R(z, 0))
                          ELSE C_ApiRet(z, r, ln)
    [] r.ev = "End" -> R(z, (IF z.side = "listener" THEN L_Rest(z, r, ln, r.pending) + Chk("C18_RefusalSignalled", z.dead \/ z.refOwed = 0, ln, "")
                                                             + Chk("C18_RetireApplied", z.dead \/ ~(z.snd.st = "settled" /\ \E i \in DOMAIN r.pending : r.pending[i].call = z.snd.call), ln, "") ELSE 0)
                            + Chk("C18_NoPanic", r.panics = 0, ln, ""))
    [] r.ev = "Spin" -> R(z, Fl("C18_NoHang", ln, "spin"))
    [] OTHER -> R(z, 0)

TInit == l = 1 /\ s = S0 /\ nfail = 0
TNext == /\ l <= Len(Rec) /\ l' = l + 1
         /\ LET res == Step(s, Rec[l], l) IN s' = res.s /\ nfail' = nfail + res.f
TSpec == TInit /\ [][TNext]_tvars
Accepted == IF TLCGet("stats").diameter - 1 = Len(Rec) THEN PrintT(<<"VALIDATED", Len(Rec)>>)
            ELSE Print(<<"UNMATCHED", TLCGet("stats").diameter>>, FALSE)
=============================================================================
