------------------------------ MODULE TxnCtlGen ------------------------------
(* Gen for C18, controller side: the application declares up to two transactions (each over its own
   control link), posts under them, commits / rolls back, drops; the scripted peer is the
   coordinator and answers every control message with accepted / declared or with a rejection
   carrying a transaction error.  Every enabled sequence up to Depth. *)
EXTENDS Integers, Sequences, TLC, Json
CONSTANTS Depth

VARIABLES script, live      \* live: transactions declared successfully and not yet discharged / dropped
vars == <<script, live>>
Init == script = <<>> /\ live = {}
X == {1, 2}
\* PostBig: a post of several frames (the peer's max-frame-size is 512)
Ev == [k : {"DeclareOk", "DeclareRej", "Post", "PostBig", "CommitOk", "CommitRej", "RollbackOk", "RollbackRej", "Drop"}, x : X]
Enabled(e) == IF e.k \in {"DeclareOk", "DeclareRej"} THEN e.x \notin live /\ ~\E i \in DOMAIN script : script[i].x = e.x /\ script[i].k \in {"DeclareOk", "DeclareRej"}
              ELSE e.x \in live
Next == \E e \in Ev : /\ Len(script) < Depth /\ Enabled(e) /\ script' = Append(script, e)
                      /\ live' = IF e.k = "DeclareOk" THEN live \cup {e.x} ELSE IF e.k \in {"CommitOk", "RollbackOk", "CommitRej", "RollbackRej", "Drop"} THEN live \ {e.x} ELSE live
Spec == Init /\ [][Next]_vars

PF(perf, f) == [e |-> "PFrame", perf |-> perf, ch |-> 3, ech |-> 0, f |-> f]
Name(x) == IF x = 1 THEN "T1" ELSE "T2"
Id(x) == <<x, x, x, x>>
H(x) == 20 + x
Last == [d |-> "last"]
Disp(st) == PF("disposition", [role |-> "r", first |-> Last, last |-> -1, settled |-> TRUE, state |-> st])
St(k, cond, t) == [k |-> k, cond |-> cond, txn |-> t]
Prefix == << [e |-> "AOpen", cfg |-> [mfs |-> 4096]], [e |-> "PHeader", kind |-> "amqp"], [e |-> "PFrame", perf |-> "open", ch |-> 0, f |-> [mfs |-> 512, chmax |-> 10]],
             [e |-> "ABegin", s |-> "s1", cfg |-> [noi |-> 1000, iw |-> 100, ow |-> 100]], [e |-> "PFrame", perf |-> "begin", ch |-> 3, f |-> [rch |-> [ref |-> "s1"], noi |-> 0, iw |-> 100, ow |-> 100]],
             [e |-> "AAttachS", l |-> "L1", s |-> "s1", cfg |-> [snd |-> 2, rcv |-> 0, idc |-> 0]], PF("attach", [name |-> "L1", h |-> 5, role |-> "r", snd |-> 2, rcv |-> 0]),
             PF("flow", [nii |-> [seen |-> 0], iw |-> 100, noi |-> 0, ow |-> 100, h |-> 5, dc |-> 0, lc |-> 50]) >>
CtlUp(x) == << [e |-> "ATxnDeclare", x |-> Name(x), s |-> "s1"],
               PF("attach", [name |-> "ctl-" \o Name(x), h |-> H(x), role |-> "r", snd |-> 2, rcv |-> 0, coord |-> TRUE]),
               PF("flow", [nii |-> [seen |-> 0], iw |-> 100, noi |-> 0, ow |-> 100, h |-> H(x), dc |-> 0, lc |-> 10]) >>
CtlDown(x) == << PF("detach", [h |-> H(x), closed |-> TRUE, err |-> ""]) >>
Conc(e, m) ==
  CASE e.k = "DeclareOk" -> CtlUp(e.x) \o <<Disp(St("declared", "", Id(e.x)))>>
    [] e.k = "DeclareRej" -> CtlUp(e.x) \o <<Disp(St("rejected", "amqp:transaction:unknown-id", <<>>))>> \o CtlDown(e.x)
    [] e.k = "Post" -> << [e |-> "ATxnPost", x |-> Name(e.x), l |-> "L1", m |-> m, len |-> 20], Disp(St("txn", "accepted", Id(e.x))) >>
    [] e.k = "PostBig" -> << [e |-> "ATxnPost", x |-> Name(e.x), l |-> "L1", m |-> m, len |-> 1500], Disp(St("txn", "accepted", Id(e.x))) >>
    [] e.k = "CommitOk" -> << [e |-> "ATxnCommit", x |-> Name(e.x)], Disp(St("accepted", "", <<>>)) >> \o CtlDown(e.x)
    [] e.k = "CommitRej" -> << [e |-> "ATxnCommit", x |-> Name(e.x)], Disp(St("rejected", "amqp:transaction:rollback", <<>>)) >> \o CtlDown(e.x)
    [] e.k = "RollbackOk" -> << [e |-> "ATxnRollback", x |-> Name(e.x)], Disp(St("accepted", "", <<>>)) >> \o CtlDown(e.x)
    [] e.k = "RollbackRej" -> << [e |-> "ATxnRollback", x |-> Name(e.x)], Disp(St("rejected", "amqp:transaction:unknown-id", <<>>)) >> \o CtlDown(e.x)
    [] e.k = "Drop" -> << [e |-> "ATxnDrop", x |-> Name(e.x)], Disp(St("accepted", "", <<>>)) >> \o CtlDown(e.x)
RECURSIVE Body(_, _)
Body(sc, i) == IF i > Len(sc) THEN <<>> ELSE Conc(sc[i], i) \o Body(sc, i + 1)
Suffix == << [e |-> "AClose", err |-> ""], [e |-> "PFrame", perf |-> "close", ch |-> 0, f |-> [err |-> ""]] >>
Done == Len(script) = Depth \/ \A e \in Ev : ~Enabled(e)
Emit == Done => PrintT(<<"SCRIPT", ToJson([side |-> "client", id |-> [i \in DOMAIN script |-> script[i].k \o Name(script[i].x)], final_ms |-> 1000, ev |-> Prefix \o Body(script, 1) \o Suffix])>>)
=============================================================================
