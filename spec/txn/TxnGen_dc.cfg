SPECIFICATION Spec
CONSTANTS Depth = 3 Pre = 0 Deep = TRUE
INVARIANT Emit
CHECK_DEADLOCK FALSE
