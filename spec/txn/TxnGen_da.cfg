SPECIFICATION Spec
CONSTANTS Depth = 4 Pre = 1 Deep = FALSE
INVARIANT Emit
CHECK_DEADLOCK FALSE
