SPECIFICATION Spec
CONSTANTS Depth = 4 Pre = 1 Deep = TRUE
INVARIANT Emit
CHECK_DEADLOCK FALSE
