SPECIFICATION Spec
CONSTANTS Depth = 4 Pre = 2 Deep = TRUE
INVARIANT Emit
CHECK_DEADLOCK FALSE
