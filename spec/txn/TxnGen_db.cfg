SPECIFICATION Spec
CONSTANTS Depth = 3 Pre = 2 Deep = TRUE
INVARIANT Emit
CHECK_DEADLOCK FALSE
