SPECIFICATION Spec
CONSTANTS MaxTxn = 2 MaxMsg = 3 MaxSent = 6 Deferred = TRUE
INVARIANTS NoLatePost
CHECK_DEADLOCK FALSE
