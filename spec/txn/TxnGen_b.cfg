SPECIFICATION Spec
CONSTANTS Depth = 3 Pre = 2 Deep = FALSE
INVARIANT Emit
CHECK_DEADLOCK FALSE
