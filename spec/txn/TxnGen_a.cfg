SPECIFICATION Spec
CONSTANTS Depth = 3 Pre = 1 Deep = FALSE
INVARIANT Emit
CHECK_DEADLOCK FALSE
