------------------------------ MODULE TxnGen ------------------------------
(* Gen for C18, resource side: the scripted peer is a transaction controller talking to a listener
   whose sessions accept control links.  Every sequence (up to Depth) over: declare, posts under
   the first / second declared transaction (one frame, two frames, on a second link), plain posts,
   a post under a never-declared id, commit / rollback of either transaction (also a second time,
   also after the control link has gone), discharge of a never-declared id, control link detach
   and re-attach, recv by the application -- and the schedule TLC finds in Txn.tla for
   Deferred = TRUE: a discharge and a post of the same transaction written back to back.
   Pre declares are issued in the prefix so that short scripts reach two concurrent transactions. *)
EXTENDS Integers, Sequences, TLC, Json
CONSTANTS Depth, Pre, Deep

VARIABLES script, nd, up, dead, sent, open
vars == <<script, nd, up, dead, sent, open>>
Init == script = <<>> /\ nd = Pre /\ up = TRUE /\ dead = FALSE /\ sent = FALSE /\ open = FALSE

Base == {"Declare", "Post0", "PostPlain", "PostUnknown", "Commit0", "Rollback0", "DischUnknown", "CtlDetach", "CtlAttach", "Recv", "CommitPost0", "RollbackPost0",
         \* retirement: the resource sends a delivery on L4 and the controller settles it under a transaction (or plainly)
         "SendU", "Retire0", "RetirePlain", "PEnd",
         \* a two-frame post whose frames are separated by other events (a discharge in particular)
         "BigFirst0", "BigRest",
         \* a two-frame post that the controller starts and then aborts: it yields nothing and must not disturb what was posted before it
         "BigAborted0"}
\* PostBigS0: a two-frame post whose continuation frame repeats the delivery-id, the tag and the transactional state (legal, and what a
\* transport-level split of the sender produces); what follows on that link is a delivery of its own
\* Interleave0: two two-frame posts of one transaction on two links with their frames interleaved on the wire (frames of one delivery are
\* contiguous per link, not per session)
Two == {"Post1", "Commit1", "Rollback1", "PostBig0", "PostBigS0", "Interleave0"}
More == {"Post0b", "Recvb", "Retire1", "RetireUnknown"}
Ev == Base \cup Two \cup (IF Deep THEN More ELSE {})
Enabled(e) ==
  /\ ~dead
  /\ (e \in {"Post0", "Commit0", "Rollback0", "CommitPost0", "RollbackPost0", "PostBig0", "PostBigS0", "Interleave0", "Post0b", "BigAborted0"} => nd >= 1)
  /\ (e \in Two \ {"PostBig0", "PostBigS0", "Interleave0"} => nd >= 2)
  /\ (e \in {"Declare", "Commit0", "Rollback0", "Commit1", "Rollback1", "DischUnknown", "CtlDetach", "CommitPost0", "RollbackPost0"} => up)
  /\ (e = "Declare" => nd < 3)
  /\ (e = "CtlAttach" => ~up)
  /\ (e = "BigFirst0" => nd >= 1 /\ ~open) /\ (e = "BigRest" => open)
  /\ (e \in {"Post0", "Post1", "PostPlain", "PostUnknown", "PostBig0", "PostBigS0", "Interleave0", "CommitPost0", "RollbackPost0", "BigAborted0"} => ~open)     \* one delivery at a time on L2
  /\ (e = "SendU" => ~sent) /\ (e \in {"Retire0", "Retire1", "RetirePlain", "RetireUnknown"} => sent)
  /\ (e = "Retire0" => nd >= 1) /\ (e = "Retire1" => nd >= 2)
Next == \E e \in Ev : /\ Len(script) < Depth /\ Enabled(e) /\ script' = Append(script, e)
                      /\ nd' = IF e = "Declare" THEN nd + 1 ELSE nd
                      /\ up' = IF e = "CtlDetach" THEN FALSE ELSE IF e = "CtlAttach" THEN TRUE ELSE up
                      /\ dead' = (e \in {"PostUnknown", "PEnd", "RetireUnknown"})
                      /\ sent' = (sent \/ e = "SendU")
                      /\ open' = IF e = "BigFirst0" THEN TRUE ELSE IF e = "BigRest" THEN FALSE ELSE open
Spec == Init /\ [][Next]_vars

PF(perf, f) == [e |-> "PFrame", perf |-> perf, ch |-> 3, f |-> f]
Xf(h, did, more) == [h |-> h, did |-> did, tagn |-> 1, tag |-> <<did % 250>>, fmt |-> 0, settled |-> "f", more |-> more]
CtlAtt == PF("attach", [name |-> "ctl", h |-> 9, role |-> "s", snd |-> 2, rcv |-> 0, idc |-> 0, coord |-> TRUE])
Decl(did) == [e |-> "PFrame", perf |-> "transfer", ch |-> 3, f |-> Xf(9, did, FALSE), ctl |-> [k |-> "declare"]]
Disch(did, t, fail, ns) == [e |-> "PFrame", perf |-> "transfer", ch |-> 3, f |-> Xf(9, did, FALSE), ctl |-> [k |-> "discharge", txn |-> t, fail |-> fail], nosettle |-> ns]
TxState(t) == [k |-> "txn", cond |-> "", txn |-> t]
Xs(h, did, more, st) == [h |-> h, did |-> did, tagn |-> 1, tag |-> <<did % 250>>, fmt |-> 0, settled |-> "f", more |-> more, state |-> st]
Post(h, did, m, t) == [e |-> "PFrame", perf |-> "transfer", ch |-> 3, f |-> Xs(h, did, FALSE, TxState(t)), msg |-> [m |-> m, len |-> 20, shape |-> "data"]]
Plain(h, did, m) == [e |-> "PFrame", perf |-> "transfer", ch |-> 3, f |-> Xf(h, did, FALSE), msg |-> [m |-> m, len |-> 20, shape |-> "data"]]
\* a transactional post in two frames; the continuation frame repeats nothing but the handle
Big(did, m, t) == << [e |-> "PFrame", perf |-> "transfer", ch |-> 3, f |-> Xs(6, did, TRUE, TxState(t)), msg |-> [m |-> m, len |-> 100, off |-> 0, n |-> 40, shape |-> "data"]],
                     [e |-> "PFrame", perf |-> "transfer", ch |-> 3, f |-> [h |-> 6, did |-> -1, tagn |-> -1, fmt |-> -1, settled |-> "none", more |-> FALSE], msg |-> [m |-> m, len |-> 100, off |-> 40, n |-> -1, shape |-> "data"]] >>
Ref(i) == [ref |-> i]
Prefix == << [e |-> "AAccept", cfg |-> [mfs |-> 4096]], [e |-> "PHeader", kind |-> "amqp"], [e |-> "PFrame", perf |-> "open", ch |-> 0, f |-> [mfs |-> 4096, chmax |-> 10]],
             [e |-> "AAcceptSession", s |-> "s1", cfg |-> [noi |-> 1000, iw |-> 100, ow |-> 100, txn |-> TRUE]], PF("begin", [rch |-> -1, noi |-> 0, iw |-> 100, ow |-> 100]),
             CtlAtt,
             [e |-> "AAcceptLink", l |-> "L2", s |-> "s1", cfg |-> [credit |-> 20]], PF("attach", [name |-> "L2", h |-> 6, role |-> "s", snd |-> 2, rcv |-> 0, idc |-> 0]),
             [e |-> "AAcceptLink", l |-> "L3", s |-> "s1", cfg |-> [credit |-> 20]], PF("attach", [name |-> "L3", h |-> 7, role |-> "s", snd |-> 2, rcv |-> 0, idc |-> 0]),
             [e |-> "AAcceptLink", l |-> "L4", s |-> "s1", cfg |-> [credit |-> 20]], PF("attach", [name |-> "L4", h |-> 8, role |-> "r", snd |-> 2, rcv |-> 0]),
             [e |-> "PFrame", perf |-> "flow", ch |-> 3, ech |-> 0, f |-> [nii |-> [seen |-> 0], iw |-> 100, noi |-> 0, ow |-> 100, h |-> 8, dc |-> 0, lc |-> 10]] >>
Retire(st) == [e |-> "PFrame", perf |-> "disposition", ch |-> 3, ech |-> 0, f |-> [role |-> "r", first |-> [d |-> 0], last |-> -1, settled |-> TRUE, state |-> st]]
\* concrete events of script element e, given the number of peer deliveries so far (d) and the next message number (m)
Conc(e, d, m) ==
  CASE e = "Declare" -> <<Decl(d)>>
    [] e = "Post0" -> <<Post(6, d, m, Ref(0))>>
    [] e = "Post1" -> <<Post(6, d, m, Ref(1))>>
    [] e = "Post0b" -> <<Post(7, d, m, Ref(0))>>
    [] e = "PostBig0" -> Big(d, m, Ref(0))
    [] e = "Interleave0" -> << Big(d, m, Ref(0))[1],
                               [e |-> "PFrame", perf |-> "transfer", ch |-> 3, f |-> Xs(7, d + 1, TRUE, TxState(Ref(0))), msg |-> [m |-> m + 1, len |-> 100, off |-> 0, n |-> 40, shape |-> "data"]],
                               Big(d, m, Ref(0))[2],
                               [e |-> "PFrame", perf |-> "transfer", ch |-> 3, f |-> [h |-> 7, did |-> -1, tagn |-> -1, fmt |-> -1, settled |-> "none", more |-> FALSE], msg |-> [m |-> m + 1, len |-> 100, off |-> 40, n |-> -1, shape |-> "data"]] >>
    [] e = "PostBigS0" -> << Big(d, m, Ref(0))[1],
                             [e |-> "PFrame", perf |-> "transfer", ch |-> 3, f |-> Xs(6, d, FALSE, TxState(Ref(0))), msg |-> [m |-> m, len |-> 100, off |-> 40, n |-> -1, shape |-> "data"]] >>
    [] e = "BigFirst0" -> <<Big(d, m, Ref(0))[1]>>
    [] e = "BigAborted0" -> <<Big(d, m, Ref(0))[1],
                              [e |-> "PFrame", perf |-> "transfer", ch |-> 3, f |-> [h |-> 6, did |-> -1, tagn |-> -1, fmt |-> -1, settled |-> "none", more |-> FALSE, aborted |-> TRUE],
                               msg |-> [m |-> m, len |-> 100, off |-> 40, n |-> 0, shape |-> "data"]]>>
    [] e = "BigRest" -> <<Big(d, m - 1, Ref(0))[2]>>
    [] e = "PostPlain" -> <<Plain(6, d, m)>>
    [] e = "PostUnknown" -> <<Post(6, d, m, [raw |-> <<7, 7, 7>>])>>
    [] e = "Commit0" -> <<Disch(d, Ref(0), FALSE, FALSE)>>
    [] e = "Commit1" -> <<Disch(d, Ref(1), FALSE, FALSE)>>
    [] e = "Rollback0" -> <<Disch(d, Ref(0), TRUE, FALSE)>>
    [] e = "Rollback1" -> <<Disch(d, Ref(1), TRUE, FALSE)>>
    [] e = "DischUnknown" -> <<Disch(d, [raw |-> <<8, 8>>], FALSE, FALSE)>>
    [] e = "CommitPost0" -> <<Disch(d, Ref(0), FALSE, TRUE), Post(6, d + 1, m, Ref(0))>>
    [] e = "RollbackPost0" -> <<Disch(d, Ref(0), TRUE, TRUE), Post(6, d + 1, m, Ref(0))>>
    [] e = "CtlDetach" -> <<PF("detach", [h |-> 9, closed |-> TRUE, err |-> ""])>>
    [] e = "CtlAttach" -> <<CtlAtt>>
    [] e = "SendU" -> <<[e |-> "ASend", l |-> "L4", m |-> 900, len |-> 20]>>
    [] e = "Retire0" -> <<Retire([k |-> "txn", cond |-> "accepted", txn |-> Ref(0)])>>
    [] e = "Retire1" -> <<Retire([k |-> "txn", cond |-> "accepted", txn |-> Ref(1)])>>
    [] e = "RetireUnknown" -> <<Retire([k |-> "txn", cond |-> "accepted", txn |-> [raw |-> <<6, 6>>]])>>
    [] e = "RetirePlain" -> <<Retire([k |-> "accepted", cond |-> "", txn |-> <<>>])>>
    [] e = "PEnd" -> <<PF("end", [err |-> ""])>>
    [] e = "Recv" -> <<[e |-> "ARecv", l |-> "L2"]>>
    [] e = "Recvb" -> <<[e |-> "ARecv", l |-> "L3"]>>
Dels(e) == IF e \in {"CtlDetach", "CtlAttach", "Recv", "Recvb", "BigRest", "SendU", "Retire0", "Retire1", "RetirePlain", "RetireUnknown", "PEnd"} THEN 0 ELSE IF e \in {"CommitPost0", "RollbackPost0", "Interleave0"} THEN 2 ELSE 1
Msgs(e) == IF e = "Interleave0" THEN 2 ELSE IF e \in {"Post0", "Post1", "Post0b", "PostBig0", "PostBigS0", "BigFirst0", "BigAborted0", "PostPlain", "PostUnknown", "CommitPost0", "RollbackPost0"} THEN 1 ELSE 0
RECURSIVE Body(_, _, _, _), Decls(_)
Body(sc, i, d, m) == IF i > Len(sc) THEN <<>> ELSE Conc(sc[i], d, m) \o Body(sc, i + 1, d + Dels(sc[i]), m + Msgs(sc[i]))
Decls(k) == IF k >= Pre THEN <<>> ELSE <<Decl(k)>> \o Decls(k + 1)
\* afterwards the application takes whatever it can get from both links; the last recv on each must stay pending
Suffix == [i \in 1..(Depth + 1) |-> [e |-> "ARecv", l |-> "L2"]] \o <<[e |-> "ARecv", l |-> "L3"], [e |-> "ARecv", l |-> "L3"]>>
Done == Len(script) = Depth \/ \A e \in Ev : ~Enabled(e)
Emit == Done => PrintT(<<"SCRIPT", ToJson([side |-> "listener", id |-> <<Pre>> \o script, final_ms |-> 1000, ev |-> Prefix \o Decls(0) \o Body(script, 1, Pre, 1) \o Suffix])>>)
=============================================================================
