---------------------------- MODULE FlowInd ----------------------------
(* Unbounded companion of SessionWin.tla and Credit.tla (C07, C08, C09): the counters of session
   flow control and of link credit as plain integers (positions on the wire instead of serial
   numbers), with NO bound on windows, credits or the number of frames.  TLC explores the
   serial-number versions exhaustively for a small modulus; here Apalache discharges an
   inductive invariant, so the safety clauses hold for every window / credit history of any
   length:

      Init => IndInv                       (apalache-mc check --cinit=CInitCode --init=Init     --inv=IndInv --length=0)
      IndInv /\ Next => IndInv'            (apalache-mc check --cinit=CInitCode --init=IndInit  --inv=IndInv --length=1)
      IndInv => Safety                     (apalache-mc check --cinit=CInitCode --init=IndInit  --inv=Safety --length=0)
   and, as negative controls, the inductive step must FAIL for --cinit=CInitWindowAsIs and --cinit=CInitCreditAsIs.

   The design rules are the guarded actions of the two TLC models:
     session, sending side    on flow: remote-incoming-window := nii_flow + iw_flow - next-outgoing-id (0 if behind);
                              a transfer frame leaves only while that window is positive
     link, sending side       on flow: link-credit := dc_rcv + lc_rcv - delivery-count (0 if behind);
                              drain: delivery-count += link-credit, link-credit := 0; a delivery starts only with credit
     link, receiving side     a delivery is taken only with credit; flows state delivery-count = learnt + received
   The peer is unconstrained: a flow may carry any window / credit (including 0 and shrinking
   ones) and any next-incoming-id / delivery-count the peer has actually reached. *)
EXTENDS Integers

CONSTANT
  \* "code": the rules as the endpoint implements them; "window-as-is" / "credit-as-is": the peer's window / credit taken without
  \* subtracting what is already in flight (negative controls: the inductive step must fail for them)
  \* @type: Str;
  Variant
CInitCode == Variant = "code"
CInitWindowAsIs == Variant = "window-as-is"
CInitCreditAsIs == Variant = "credit-as-is"

VARIABLES
  \* ---- session window, sending side (positions: frame number i is the i-th frame on the wire, 0-based)
  \* @type: Int;
  emitted,      \* frames written so far = position of the next frame = next-outgoing-id - initial
  \* @type: Int;
  held,         \* frames waiting for the window
  \* @type: Int;
  submitted,    \* frames handed to the session
  \* @type: Int;
  peerGot,      \* frames the peer has received
  \* @type: Int;
  knownK,       \* next-incoming-id of the last flow processed (as a position)
  \* @type: Int;
  knownWin,     \* incoming-window of the last flow processed
  \* @type: Int;
  remWin,       \* remote-incoming-window as the endpoint keeps it
  \* @type: Bool;
  winOk,        \* every frame so far lay inside [knownK, knownK + knownWin) when it was written
  \* ---- link credit, sending side
  \* @type: Int;
  dcS,          \* delivery-count of the sender (deliveries started + credit given back by drains)
  \* @type: Int;
  started,      \* deliveries actually started on the wire
  \* @type: Int;
  rcvd,         \* deliveries the receiver has seen
  \* @type: Int;
  credit,       \* link-credit as the sender keeps it
  \* @type: Int;
  limit,        \* dc_rcv + lc_rcv of the last flow processed (absolute position)
  \* @type: Bool;
  credOk,       \* every delivery so far started below the limit known at that moment
  \* ---- link credit, receiving side
  \* @type: Int;
  rDc,          \* receiver's view of the sender's delivery-count
  \* @type: Int;
  rCredit,      \* credit the receiver has outstanding
  \* @type: Int;
  rIssued,      \* highest delivery position the receiver has ever allowed (dc + credit at its flows)
  \* @type: Int;
  rTaken,       \* deliveries the receiver has handed to the application
  \* @type: Bool;
  recvOk        \* every delivery taken lay below rIssued

vars == <<emitted, held, submitted, peerGot, knownK, knownWin, remWin, winOk, dcS, started, rcvd, credit, limit, credOk, rDc, rCredit, rIssued, rTaken, recvOk>>

Init ==
  /\ emitted = 0 /\ held = 0 /\ submitted = 0 /\ peerGot = 0 /\ knownK = 0 /\ knownWin \in Nat /\ remWin = knownWin /\ winOk = TRUE
  /\ dcS = 0 /\ started = 0 /\ rcvd = 0 /\ credit = 0 /\ limit = 0 /\ credOk = TRUE
  /\ rDc = 0 /\ rCredit = 0 /\ rIssued = 0 /\ rTaken = 0 /\ recvOk = TRUE

SessUnch == UNCHANGED <<emitted, held, submitted, peerGot, knownK, knownWin, remWin, winOk>>
SndUnch == UNCHANGED <<dcS, started, rcvd, credit, limit, credOk>>
RcvUnch == UNCHANGED <<rDc, rCredit, rIssued, rTaken, recvOk>>

\* ---- session
Submit == /\ submitted' = submitted + 1 /\ held' = held + 1
          /\ UNCHANGED <<emitted, peerGot, knownK, knownWin, remWin, winOk>> /\ SndUnch /\ RcvUnch
Emit == /\ held > 0 /\ remWin > 0
        /\ winOk' = (winOk /\ knownK <= emitted /\ emitted < knownK + knownWin)
        /\ emitted' = emitted + 1 /\ held' = held - 1 /\ remWin' = remWin - 1
        /\ UNCHANGED <<submitted, peerGot, knownK, knownWin>> /\ SndUnch /\ RcvUnch
PeerRecv == /\ peerGot < emitted /\ peerGot' = peerGot + 1
            /\ UNCHANGED <<emitted, held, submitted, knownK, knownWin, remWin, winOk>> /\ SndUnch /\ RcvUnch
\* a flow the peer wrote at some earlier moment: its next-incoming-id is a position the peer had reached by then
OnSessFlow == \E k \in Nat, w \in Nat :
          /\ k <= peerGot
          /\ knownK' = k /\ knownWin' = w
          /\ remWin' = IF Variant = "window-as-is" THEN w ELSE IF emitted - k > w THEN 0 ELSE w - (emitted - k)
          /\ UNCHANGED <<emitted, held, submitted, peerGot, winOk>> /\ SndUnch /\ RcvUnch

\* ---- link, sending side
Send == /\ credit > 0
        /\ credOk' = (credOk /\ dcS < limit)
        /\ dcS' = dcS + 1 /\ started' = started + 1 /\ credit' = credit - 1
        /\ UNCHANGED <<rcvd, limit>> /\ SessUnch /\ RcvUnch
RcvSees == /\ rcvd < started /\ rcvd' = rcvd + 1
           /\ UNCHANGED <<dcS, started, credit, limit, credOk>> /\ SessUnch /\ RcvUnch
\* the receiver's delivery-count is what it learnt from the sender (dcS at some earlier moment, or the initial 0 when it leaves the field unset)
\* advanced by what it has received since: any value up to the sender's current count
OnLinkFlow == \E fdc \in Nat, flc \in Nat, drain \in BOOLEAN :
          /\ fdc <= dcS
          /\ limit' = fdc + flc
          /\ LET c == IF Variant = "credit-as-is" THEN flc ELSE IF fdc + flc > dcS THEN fdc + flc - dcS ELSE 0 IN
             IF drain THEN dcS' = dcS + c /\ credit' = 0 ELSE dcS' = dcS /\ credit' = c
          /\ UNCHANGED <<started, rcvd, credOk>> /\ SessUnch /\ RcvUnch

\* ---- link, receiving side
Grant == \E n \in Nat : /\ rCredit' = n /\ rIssued' = IF rDc + n > rIssued THEN rDc + n ELSE rIssued
                        /\ UNCHANGED <<rDc, rTaken, recvOk>> /\ SessUnch /\ SndUnch
Take == /\ rCredit > 0
        /\ recvOk' = (recvOk /\ rTaken < rIssued)
        /\ rTaken' = rTaken + 1 /\ rDc' = rDc + 1 /\ rCredit' = rCredit - 1
        /\ UNCHANGED rIssued /\ SessUnch /\ SndUnch
\* the sender states a delivery-count (after a drain it has run ahead by the credit given back)
SenderStates == \E d \in Nat : /\ d >= rDc /\ d <= rDc + rCredit /\ rDc' = d /\ rCredit' = rDc + rCredit - d
                               /\ UNCHANGED <<rIssued, rTaken, recvOk>> /\ SessUnch /\ SndUnch

Next == Submit \/ Emit \/ PeerRecv \/ OnSessFlow \/ Send \/ RcvSees \/ OnLinkFlow \/ Grant \/ Take \/ SenderStates

\* ---- the inductive invariant
IndInv ==
  /\ emitted >= 0 /\ held >= 0 /\ submitted = held + emitted
  /\ 0 <= peerGot /\ peerGot <= emitted /\ 0 <= knownK /\ knownK <= peerGot /\ knownWin >= 0 /\ remWin >= 0
  /\ (remWin > 0 => emitted + remWin <= knownK + knownWin)
  /\ winOk
  /\ 0 <= rcvd /\ rcvd <= started /\ started <= dcS /\ credit >= 0 /\ limit >= 0
  /\ (credit > 0 => dcS + credit <= limit)
  /\ credOk
  /\ rDc >= 0 /\ rCredit >= 0 /\ rTaken >= 0 /\ rTaken <= rDc /\ rDc + rCredit <= rIssued
  /\ recvOk

IndInit ==
  /\ emitted \in Int /\ held \in Int /\ submitted \in Int /\ peerGot \in Int /\ knownK \in Int /\ knownWin \in Int /\ remWin \in Int /\ winOk \in BOOLEAN
  /\ dcS \in Int /\ started \in Int /\ rcvd \in Int /\ credit \in Int /\ limit \in Int /\ credOk \in BOOLEAN
  /\ rDc \in Int /\ rCredit \in Int /\ rIssued \in Int /\ rTaken \in Int /\ recvOk \in BOOLEAN
  /\ IndInv

\* ---- what C07 / C08 / C09 ask of the counters
Safety ==
  /\ winOk                           \* C07: no frame outside the window the peer last advertised
  /\ submitted = held + emitted      \* C07: nothing lost or duplicated while waiting for the window
  /\ credOk                          \* C08: no delivery beyond dc_rcv + lc_rcv of the latest flow
  /\ started <= dcS                  \* C08: one credit per delivery (drains only add)
  /\ recvOk                          \* C09: no delivery taken beyond the credit issued
=============================================================================
