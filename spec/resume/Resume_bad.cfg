SPECIFICATION Spec
CONSTANT N = 3
CONSTANT Variant = "resume-always"
INVARIANT R_ResumePoint
CHECK_DEADLOCK FALSE
