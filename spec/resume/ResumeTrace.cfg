SPECIFICATION TSpec
CONSTANT N = 5
CONSTANT Variant = "spec"
POSTCONDITION Accepted
CHECK_DEADLOCK FALSE
