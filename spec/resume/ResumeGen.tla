---------------------------- MODULE ResumeGen ----------------------------
(* Gen for the conformance check of the resumption table: one line per cell (local state x remote entry). *)
EXTENDS ResumeTable, Json
VARIABLE z
GInit == z = [k |-> "start"]
GNext == z.k = "start" /\ \E l \in LocalStates, r \in RemoteStates : z' = [k |-> "cell", l |-> l, r |-> r]
GSpec == GInit /\ [][GNext]_z
Emit == z.k = "start" \/ PrintT(<<"CELL", ToJson([l |-> z.l, r |-> z.r])>>)
=============================================================================
