SPECIFICATION Spec
CONSTANT N = 3
CONSTANT Variant = "spec"
INVARIANT BeliefSound
INVARIANT R_OwnOutcome
INVARIANT R_NoRetransmitAfterOutcome
INVARIANT R_ResumePoint
INVARIANT R_ResendOnlyIfUnknown
INVARIANT R_Total
CHECK_DEADLOCK FALSE
