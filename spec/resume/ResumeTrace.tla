---------------------------- MODULE ResumeTrace ----------------------------
(* Validate: the answers of the real `resume_delivery` (one record per cell of the table) against `Decide` of Resume.tla.
   C02_ResumeOutcome: where the receiver's entry carries a terminal outcome the pending send is resolved with exactly that outcome
                      (a sender that holds a different terminal outcome restates its own), and nothing is transmitted again;
   X_ResumeDecision:  every other cell -- resend / resume from the receiver's position / abort -- and the bytes that would be sent.
                      (AMQP 2.6.13 conformance beyond the listed properties: reported as an observation, never as a violation.) *)
EXTENDS ResumeTable, Json, IOUtils
Rec == ndJsonDeserialize(IOEnv.TRACE)
VARIABLES i, nfail
tvars == <<i, nfail>>
Check(name, cond, r) == IF cond THEN 0 ELSE IF PrintT(<<"FAIL", name, i, r.l.k, r.r.k, r.d>>) THEN 1 ELSE 1
OutcomeCell(d) == d.d \in {"settle-with", "settle", "restate"}
Judge(r) ==
  LET d == Decide(r.l, r.r)
      \* the code has one "settle" for both settle-with and settle: what matters is what the send is resolved with
      kindOk == CASE d.d \in {"settle-with", "settle"} -> r.d = "settle" /\ r.resolved = d.o
                  [] d.d = "restate" -> r.d = "restate" /\ r.resolved = d.o
                  [] d.d = "resume" -> r.d = "resume" /\ (r.cut < 0 \/ r.n = r.total - r.cut)
                  [] d.d = "resend" -> r.d = "resend" /\ r.n = r.total
                  [] OTHER -> r.d = "abort"
  IN IF OutcomeCell(d) THEN Check("C02_ResumeOutcome", kindOk /\ (r.d = "settle" => r.n = 0), r) ELSE Check("X_ResumeDecision", kindOk, r)
TInit == i = 1 /\ nfail = 0
TNext == i <= Len(Rec) /\ i' = i + 1 /\ nfail' = nfail + Judge(Rec[i])
TSpec == TInit /\ [][TNext]_tvars
Accepted == IF TLCGet("stats").diameter - 1 = Len(Rec) THEN PrintT(<<"VALIDATED", Len(Rec)>>) ELSE Print(<<"UNMATCHED", TLCGet("stats").diameter>>, FALSE)
=============================================================================
