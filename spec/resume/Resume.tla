---------------------------- MODULE Resume ----------------------------
(* The world in which the resumption table of ResumeTable.tla is exercised (see the comment there, part 2). *)
EXTENDS ResumeTable
-----------------------------------------------------------------------------
VARIABLES sent,        \* chunks the sender has written (0..N)
          kept,        \* position from which the sender still holds the data (it may discard what it believes stored)
          stored,      \* chunks the receiver has stored
          outcome,     \* outcome the receiving application has applied ("" = none yet)
          sview,       \* the sender's unsettled entry: a LocalState, or "gone" once settled
          rview,       \* the receiver's unsettled entry: "absent" / Null / Rcv(stored) / T(outcome)
          wire,        \* frames in flight: sequence of [to, what, p]
          phase,       \* "up", "broken", "resumed"
          act,         \* the decision taken at resumption
          reported     \* what the sending application was told ("" = nothing yet)
vars == <<sent, kept, stored, outcome, sview, rview, wire, phase, act, reported>>

Init == /\ sent = 0 /\ kept = 0 /\ stored = 0 /\ outcome = "" /\ sview = None /\ rview = Absent /\ wire = <<>> /\ phase = "up"
        /\ act = D("", 0, "") /\ reported = ""

Up == phase = "up"
SendChunk == /\ Up /\ sent < N /\ sview # [k |-> "gone", p |-> 0] /\ sent' = sent + 1 /\ wire' = Append(wire, [to |-> "r", what |-> "chunk", p |-> sent + 1])
             /\ UNCHANGED <<kept, stored, outcome, sview, rview, phase, act, reported>>
\* frames arrive in order per direction; the head frame for either side may be delivered
Deliver == /\ Up /\ wire # <<>>
           /\ LET f == Head(wire) IN
              /\ wire' = Tail(wire)
              /\ CASE f.what = "chunk" -> /\ stored' = f.p /\ rview' = (IF rview.k \in Terminal THEN rview ELSE Rcv(f.p))
                                          /\ UNCHANGED <<sent, kept, outcome, sview, phase, act, reported>>
                   [] f.what = "received" -> /\ sview' = (IF sview.k \in {"none", "received"} THEN Rcv(f.p) ELSE sview)
                                             /\ UNCHANGED <<sent, kept, stored, outcome, rview, phase, act, reported>>
                   \* a settled terminal disposition: the send resolves and the sender forgets
                   [] OTHER -> /\ sview' = [k |-> "gone", p |-> 0] /\ reported' = (IF reported = "" THEN f.what ELSE reported)
                               /\ UNCHANGED <<sent, kept, stored, outcome, rview, phase, act>>
\* the receiver tells how much it has stored (unsettled, non-terminal)
TellReceived == /\ Up /\ rview.k = "received" /\ Len(wire) < 3 /\ wire' = Append(wire, [to |-> "s", what |-> "received", p |-> stored])
                /\ UNCHANGED <<sent, kept, stored, outcome, sview, rview, phase, act, reported>>
\* the sender discards what it believes the receiver has stored
Discard == /\ Up /\ sview.k = "received" /\ kept < sview.p /\ kept' = sview.p
           /\ UNCHANGED <<sent, stored, outcome, sview, rview, wire, phase, act, reported>>
\* the receiving application takes the complete message and applies an outcome; the receiver settles (mode first) and says so
Apply == /\ Up /\ stored = N /\ outcome = "" /\ \E o \in Terminal : /\ outcome' = o /\ rview' = T(o)
                                                                   /\ wire' = Append(wire, [to |-> "s", what |-> o, p |-> 0])
         /\ UNCHANGED <<sent, kept, stored, sview, phase, act, reported>>
\* the link breaks at any moment: frames in flight are lost; a receiver that had settled keeps its terminal state in the map
\* only if it has not yet been told the sender settled (mode first: it forgets at once in the worst case - both are explored)
Break == /\ Up /\ phase' = "broken" /\ wire' = <<>>
         /\ \/ UNCHANGED <<rview, stored>>
            \/ (rview.k \in Terminal /\ rview' = Absent /\ UNCHANGED stored)    \* the receiver had already forgotten the settled delivery
            \/ (rview.k = "received" /\ rview' = Null /\ stored' = 0)           \* a receiver that keeps the entry but has lost the data (example 9)
         /\ UNCHANGED <<sent, kept, outcome, sview, act, reported>>
Resume == /\ phase = "broken" /\ sview.k # "gone"
          /\ LET d == Decide(sview, rview) IN
             /\ act' = d
             /\ reported' = (IF d.d \in {"settle-with", "settle", "restate"} /\ reported = "" THEN d.o ELSE reported)
          /\ phase' = "resumed"
          /\ UNCHANGED <<sent, kept, stored, outcome, sview, rview, wire>>
Next == SendChunk \/ Deliver \/ TellReceived \/ Discard \/ Apply \/ Break \/ Resume
Spec == Init /\ [][Next]_vars

\* ---- soundness of the table in this world
\* (the sender's belief never exceeds the truth while the link is up: a received(p) it holds was true when it was written)
BeliefSound == (phase = "up" /\ sview.k = "received") => sview.p <= stored
\* an outcome that exists is what the sender reports; it never reports another one
R_OwnOutcome == (phase = "resumed" /\ reported # "") => (outcome # "" => reported = outcome)
\* once the application has the message nothing of it is transmitted again as part of the same delivery
R_NoRetransmitAfterOutcome == (phase = "resumed" /\ outcome # "" /\ rview.k \in Terminal) => act.d \in {"settle-with", "settle", "restate"}
\* resumed data continues exactly at the receiver's store, and the sender still has it
R_ResumePoint == (phase = "resumed" /\ act.d = "resume") => (act.p = (IF rview.k = "null" THEN 0 ELSE rview.p) /\ act.p = stored /\ kept <= act.p)
\* a fresh delivery only if the receiver has no record of the old one
R_ResendOnlyIfUnknown == (phase = "resumed" /\ act.d = "resend") => rview.k = "absent"
\* the table is total and every decision kind is reachable (TLC -coverage shows the CASE arms)
R_Total == phase = "resumed" => act.d \in {"resend", "resume", "abort", "settle-with", "settle", "restate"}

\* ---- Gen: every cell of the table, for the conformance check
Cells == { [l |-> l, r |-> r, d |-> Decide(l, r)] : l \in LocalStates, r \in RemoteStates }
=============================================================================
