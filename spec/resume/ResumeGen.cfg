SPECIFICATION GSpec
CONSTANT N = 5
CONSTANT Variant = "spec"
INVARIANT Emit
CHECK_DEADLOCK FALSE
