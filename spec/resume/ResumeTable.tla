---------------------------- MODULE ResumeTable ----------------------------
(* Link resumption (AMQP 1.0 section 2.6.13) on the sending side.

   Part 1, the decision table: what a sender does with one delivery of its unsettled map when
   the receiver's re-attach states (or omits) that delivery.  Written from the fourteen worked
   examples of the specification; `Decide` is total over the state space below.

   Part 2, a small world in which the table is exercised: one message of N chunks, a sender
   and a receiver that exchange transfers and dispositions, a link that breaks at ANY moment
   (whatever is in flight is lost) and is then resumed once with `Decide`.  TLC checks that
   the table is sound for every break point:
     * the receiving application's outcome is what the sender reports (never another one), and
       once an outcome exists nothing of the message is transmitted again;
     * what is transmitted again continues exactly where the receiver's store ends (no gap, no
       duplicated chunk), or starts a fresh delivery only if the receiver has no record;
     * a sender that has discarded data it believed stored never pretends to resume: it aborts.
   The binding to the code is ResumeTrace.tla: every cell of the table is put to the real
   `resume_delivery` (through a cfg hook) and compared. *)
EXTENDS Integers, Sequences, FiniteSets, TLC
CONSTANTS N,          \* chunks of the message (positions 0..N)
          Variant     \* "spec": the table of the specification; "resume-always": a sender that resumes whatever it has discarded (negative control)

Terminal == {"accepted", "rejected", "released", "modified"}
Rcv(p) == [k |-> "received", p |-> p]
T(o) == [k |-> o, p |-> 0]
None == [k |-> "none", p |-> 0]
LocalStates == {None} \cup {Rcv(p) : p \in 0..N} \cup {T(o) : o \in Terminal}
Absent == [k |-> "absent", p |-> 0]
Null == [k |-> "null", p |-> 0]
RemoteStates == {Absent, Null} \cup {Rcv(p) : p \in 0..N} \cup {T(o) : o \in Terminal}

\* decisions: resend (a new delivery, everything), resume from position p (resume flag, same tag), abort (resume + aborted),
\* settle-with (the pending send resolves with the receiver's outcome), settle (forget), restate (the sender's outcome prevails)
D(k, p, o) == [d |-> k, p |-> p, o |-> o]
Decide(l, r) ==
  LET rr == IF r.k = "null" THEN Rcv(0) ELSE r IN          \* a null value is "no recorded data" = received(0,0)
  CASE rr.k = "absent" /\ l.k \in {"none", "received"} -> D("resend", 0, "")          \* examples 1, 5
    [] rr.k = "absent" /\ l.k \in Terminal -> D("settle", 0, l.k)                       \* example 10
    [] rr.k = "received" /\ l.k = "none" -> D("resume", rr.p, "")                      \* examples 2, 4
    [] rr.k = "received" /\ l.k = "received" /\ l.p <= rr.p -> D("resume", rr.p, "")   \* example 6
    [] rr.k = "received" /\ l.k = "received" /\ l.p > rr.p -> (IF Variant = "resume-always" THEN D("resume", rr.p, "") ELSE D("abort", 0, ""))   \* examples 7, 9
    [] rr.k = "received" /\ l.k \in Terminal -> D("abort", 0, "")                       \* examples 11, 14
    [] rr.k \in Terminal /\ l.k \in {"none", "received"} -> D("settle-with", 0, rr.k)  \* examples 3, 8
    [] rr.k \in Terminal /\ l.k = rr.k -> D("settle", 0, l.k)                           \* example 12
    [] OTHER -> D("restate", 0, l.k)                                                    \* example 13
=============================================================================
