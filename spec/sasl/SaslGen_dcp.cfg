SPECIFICATION Spec
CONSTANTS Side = "client" Mech = "PLAIN" Tier = "deep" AdvKnowsPw = TRUE MaxLen = 4 Extra = 1
INVARIANTS Emit
CHECK_DEADLOCK FALSE
