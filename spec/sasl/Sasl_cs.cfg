SPECIFICATION Spec
CONSTANTS Side = "client" Mech = "SCRAM-SHA-256" Tier = "deep" AdvKnowsPw = FALSE MaxLen = 5 Extra = 1
INVARIANTS NoAuthWithoutPw AuthNeedsProof NonOkNeverAuth
CHECK_DEADLOCK FALSE
