SPECIFICATION TSpec
CONSTANTS Side = "listener" Mech = "PLAIN" Tier = "quick" AdvKnowsPw = TRUE MaxLen = 0 Extra = 0
POSTCONDITION Accepted
CHECK_DEADLOCK FALSE
