SPECIFICATION TSpec
POSTCONDITION Accepted
CHECK_DEADLOCK FALSE
