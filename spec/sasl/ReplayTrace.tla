---------------------------- MODULE ReplayTrace ----------------------------
(* Validate for C19_NoReplay: the rows of `vh replay` (one listener instance, an honest login recorded, the recording written to a second
   connection).  A SCRAM recording must not open the second connection; the PLAIN row is the control (its recording holds the password). *)
EXTENDS Naturals, Sequences, TLC, Json, IOUtils
Rec == ndJsonDeserialize(IOEnv.TRACE)
VARIABLES i
Check(name, cond, r) == IF cond THEN TRUE ELSE PrintT(<<"FAIL", name, i, r.mech>>)
Judge(r) == /\ Check("C19_NoReplay", r.mech = "PLAIN" \/ ~r.replay_opened, r)
            /\ (IF r.first_opened /\ r.client_ok THEN PrintT(<<"STAT", "login", r.mech>>) ELSE TRUE)
            /\ (IF r.mech = "PLAIN" /\ r.replay_opened THEN PrintT(<<"STAT", "control", r.mech>>) ELSE TRUE)
TInit == i = 1
TNext == i <= Len(Rec) /\ Judge(Rec[i]) /\ i' = i + 1
TSpec == TInit /\ [][TNext]_i
Accepted == IF TLCGet("stats").diameter - 1 = Len(Rec) THEN PrintT(<<"VALIDATED", Len(Rec)>>) ELSE Print(<<"UNMATCHED", TLCGet("stats").diameter>>, FALSE)
=============================================================================
