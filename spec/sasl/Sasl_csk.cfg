SPECIFICATION Spec
CONSTANTS Side = "client" Mech = "SCRAM-SHA-256" Tier = "deep" AdvKnowsPw = TRUE MaxLen = 5 Extra = 1
INVARIANTS AuthNeedsProof NonOkNeverAuth
CHECK_DEADLOCK FALSE
