SPECIFICATION Spec
CONSTANT Nonces = {1, 2, 3}
CONSTANT Fresh = FALSE
INVARIANT C19_NoReplay
CHECK_DEADLOCK FALSE
