SPECIFICATION Spec
CONSTANTS Side = "listener" Mech = "PLAIN" Tier = "deep" AdvKnowsPw = TRUE MaxLen = 4 Extra = 1
INVARIANTS AuthNeedsProof
CHECK_DEADLOCK FALSE
