SPECIFICATION Spec
CONSTANTS Side = "client" Mech = "ANONYMOUS" Tier = "quick" AdvKnowsPw = TRUE MaxLen = 4 Extra = 1
INVARIANTS Emit
CHECK_DEADLOCK FALSE
