SPECIFICATION Spec
CONSTANTS Side = "client" Mech = "SCRAM-SHA-256" Tier = "quick" AdvKnowsPw = TRUE MaxLen = 5 Extra = 0
INVARIANTS NeverAmqp
CHECK_DEADLOCK FALSE
