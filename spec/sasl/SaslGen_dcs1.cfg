SPECIFICATION Spec
CONSTANTS Side = "client" Mech = "SCRAM-SHA-1" Tier = "deep" AdvKnowsPw = TRUE MaxLen = 5 Extra = 1
INVARIANTS Emit
CHECK_DEADLOCK FALSE
