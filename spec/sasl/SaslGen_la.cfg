SPECIFICATION Spec
CONSTANTS Side = "listener" Mech = "ANONYMOUS" Tier = "quick" AdvKnowsPw = TRUE MaxLen = 3 Extra = 1
INVARIANTS Emit
CHECK_DEADLOCK FALSE
