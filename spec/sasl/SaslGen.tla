------------------------------ MODULE SaslGen ------------------------------
(* Gen for C19: every frame sequence of the adversary of Sasl.tla (up to MaxLen frames, Extra probe
   frames after the ideal machine has decided) becomes one script: configure the endpoint, play the
   frames, then try to go on with AMQP (header + open) and end the stream. *)
EXTENDS Sasl, Json

Ev(f) == CASE f.k = "hdr" -> [e |-> "PHeader", kind |-> f.kind]
           [] f.k = "init" -> [e |-> "PSasl", k |-> "init", mech |-> f.mech, resp |-> f.resp]
           [] f.k = "response" -> [e |-> "PSasl", k |-> "response", resp |-> f.resp]
           [] f.k = "mechanisms" -> [e |-> "PSasl", k |-> "mechanisms", list |-> f.list]
           [] f.k = "challenge" -> [e |-> "PSasl", k |-> "challenge", c |-> f.c]
           [] f.k = "outcome" -> [e |-> "PSasl", k |-> "outcome", code |-> f.code, data |-> f.data]
           [] f.k = "other" /\ f.what = "saslopen" -> [e |-> "PFrame", perf |-> "open", ch |-> 0, f |-> [cid |-> "peer", mfs |-> 4096, chmax |-> 10], hdr |-> [ftype |-> 1]]
           [] OTHER -> [e |-> "PFrame", perf |-> "open", ch |-> 0, f |-> [cid |-> "peer", mfs |-> 4096, chmax |-> 10]]
Tag(f) == CASE f.k = "hdr" -> "hdr-" \o f.kind
            [] f.k = "init" -> "init-" \o f.resp.t
            [] f.k = "response" -> "response-" \o f.resp.t
            [] f.k = "challenge" -> "challenge-" \o f.c.t
            [] f.k = "outcome" -> "outcome-" \o f.data.t
            [] f.k = "other" -> f.what
            [] OTHER -> f.k
Cfg == [mfs |-> 4096, sasl |-> [mech |-> Mech, user |-> U, pass |-> P]]
Script == [side |-> Side, id |-> [i \in 1..Len(run) |-> Tag(run[i])], ideal |-> st.ph,
           ev |-> <<[e |-> IF Side = "listener" THEN "AAccept" ELSE "AOpen", cfg |-> Cfg]>> \o [i \in 1..Len(run) |-> Ev(run[i])]
                  \o <<[e |-> "PHeader", kind |-> "amqp"], [e |-> "PFrame", perf |-> "open", ch |-> 0, f |-> [cid |-> "peer", mfs |-> 4096, chmax |-> 10]], [e |-> "PEof"]>>]
\* A successful exchange that needs nothing from the server (SASL header + init, as for PLAIN and ANONYMOUS) is also played with everything the
\* client has to say -- SASL header, init, AMQP header, open -- written in one piece: how the bytes fall into reads must not matter (C06).
Piped == [side |-> Side, id |-> <<"pipelined">> \o [i \in 1..Len(run) |-> Tag(run[i])], ideal |-> st.ph,
          ev |-> <<[e |-> "AAccept", cfg |-> Cfg], [e |-> "Mark", what |-> "pipelined"]>> \o [i \in 1..Len(run) |-> Ev(run[i]) @@ [nosettle |-> TRUE]]
                 \o <<[e |-> "PHeader", kind |-> "amqp", nosettle |-> TRUE], [e |-> "PFrame", perf |-> "open", ch |-> 0, f |-> [cid |-> "peer", mfs |-> 4096, chmax |-> 10]], [e |-> "PEof"]>>]
Emit == Len(run) >= 1 => (PrintT(<<"SCRIPT", ToJson(Script)>>)
                          /\ (Side = "listener" /\ st.ph = "amqp" /\ Len(run) = 2 => PrintT(<<"SCRIPT", ToJson(Piped)>>)))
=============================================================================
