-------------------------------- MODULE Sasl --------------------------------
(* C19.  SASL negotiation of one endpoint (listener or client) against an adversarial peer, with
   symbolic cryptography.

   Messages are *descriptors*: records that say how a frame was built, not its bytes
   ([t |-> "cfinal", pw |-> "pass", proof |-> "flip", ...]).  A proof / signature is valid exactly
   when its descriptor says it was computed from the configured password over the exchange as the
   endpoint saw it and was not altered afterwards -- the Dolev-Yao reading of HMAC/PBKDF2: whoever
   does not know the password cannot produce such a term.  The conformance harness turns a
   descriptor into real bytes with an independent RFC 5802 implementation (harness/src/scram.rs).

   LStep / CStep are the *ideal* negotiation machines: the most permissive behaviour the property
   still allows.  The implementation may be stricter (refuse more); it may never go on to AMQP when
   the ideal machine has not reached "amqp".  Phase "any" = the reading of the property does not
   decide (noted in DESIGN.md): nothing is demanded afterwards.

   The module is used three ways:
     - model checking (Sasl_*.cfg): an adversary that does not know the password never drives the
       ideal machine to "amqp" (NoAuthWithoutPw); one that knows it can (Sasl_reach.cfg, negative);
     - generation (SaslGen.tla): every adversary frame sequence up to a bound becomes a script;
     - validation (SaslTrace.tla): recorded runs of the real endpoint are replayed through the same
       LStep / CStep and every step of the real endpoint towards AMQP is compared. *)
EXTENDS Naturals, Sequences, FiniteSets, TLC

U == "user"     \* configured authcid
P == "pass"     \* configured password
IsScram(m) == m \in {"SCRAM-SHA-1", "SCRAM-SHA-256", "SCRAM-SHA-512"}

Get(r, k, d) == IF k \in DOMAIN r THEN r[k] ELSE d

(* ------------------------------------------------------------------ descriptors -- *)
\* PLAIN initial response  authzid NUL authcid NUL passwd [x]: x = bytes appended after the password
\* ('~' stands for NUL).  The password presented is p \o x.
PlainOK(r)  == Get(r, "t", "") = "plain" /\ r.u = U /\ r.p = P /\ r.x = ""
\* does the descriptor need the password to be built?
PlainKnows(r) == Get(r, "t", "") = "plain" /\ r.p = P

\* SCRAM client-first:  gs2-header n=user,r=nonce
CFirstOK(r) == Get(r, "t", "") = "cfirst" /\ r.u = U /\ r.form = "ok" /\ r.gs2 \in {"n,,", "y,,"}
\* SCRAM client-final:  c=b64(gs2),r=nonce,p=proof
CFinalOK(r, gs2) == /\ Get(r, "t", "") = "cfinal" /\ r.pw = P /\ r.nonce = "ok" /\ r.proof = "ok"
                    /\ r.cb = (IF gs2 = "n,," THEN "n" ELSE "y")
CFinalKnows(r) == Get(r, "t", "") = "cfinal" /\ r.pw = P

\* SCRAM server-first  r=nonce,s=salt,i=count
\*   nonce: extend (client nonce + server part) | same (client nonce only) | other | prefix (client nonce cut short)
SFirstOK(c) == /\ Get(c, "t", "") = "sfirst" /\ c.nonce \in {"extend", "same"} /\ c.salt \in {"good", "empty"}
               /\ c.iter \in {"64", "4096"} /\ c.drop = "none" /\ c.ext = ""
\* an iteration count of 0 is outside RFC 5802 ("positive"); the property does not say what must happen
SFirstUndecided(c) == Get(c, "t", "") = "sfirst" /\ c.iter = "0"
\* SCRAM server-final  v=signature
SFinalOK(d) == Get(d, "t", "") = "sfinal" /\ d.sig = "good" /\ d.pw = P
SFinalKnows(d) == Get(d, "t", "") = "sfinal" /\ d.pw = P /\ d.sig \in {"good", "flip", "otherexch", "noprefix"}

(* ------------------------------------------------------------------ frames -- *)
\* A frame is [k |-> kind, ...]: "hdr" (kind), "init" (mech, resp), "response" (resp),
\* "mechanisms" (list), "challenge" (c), "outcome" (code, data), "other" (anything else on the wire)
Fail == [ph |-> "fail", gs2 |-> ""]
Amqp == [ph |-> "amqp", gs2 |-> ""]
Undecided == [ph |-> "any", gs2 |-> ""]
Start == [ph |-> "hdr", gs2 |-> ""]
Absorbing(st) == st.ph \in {"amqp", "fail", "any"}

(* ideal listener configured with mechanism m *)
LStep(m, st, f) ==
  IF Absorbing(st) THEN st
  ELSE IF st.ph = "hdr" THEN (IF f.k = "hdr" /\ f.kind = "sasl" THEN [st EXCEPT !.ph = "init"] ELSE Fail)
  ELSE IF m = "ANONYMOUS" THEN (IF f.k \in {"init", "response"} THEN Undecided ELSE Fail)
  ELSE IF f.k = "init" THEN
         (IF m = "PLAIN" THEN (IF st.ph = "init" /\ PlainOK(f.resp) THEN Amqp ELSE Fail)
          \* a repeated init restarts the exchange (permissive reading; the endpoint may refuse it)
          ELSE IF CFirstOK(f.resp) THEN [ph |-> "resp", gs2 |-> f.resp.gs2] ELSE Fail)
  ELSE IF f.k = "response" /\ st.ph = "resp" THEN (IF CFinalOK(f.resp, st.gs2) THEN Amqp ELSE Fail)
  ELSE Fail

(* ideal client with profile m *)
CStep(m, st, f) ==
  IF Absorbing(st) THEN st
  ELSE IF st.ph = "hdr" THEN (IF f.k = "hdr" /\ f.kind = "sasl" THEN [st EXCEPT !.ph = "mech"] ELSE Fail)
  ELSE IF f.k = "mechanisms" THEN (IF (\E i \in DOMAIN f.list : f.list[i] = m) THEN [st EXCEPT !.ph = "chal"] ELSE Fail)   \* repeated: restart
  \* without SCRAM the client proves nothing to and learns nothing about the server: the outcome alone decides
  ELSE IF f.k = "outcome" /\ ~IsScram(m) THEN (IF f.code = 0 THEN Amqp ELSE Fail)
  ELSE IF st.ph = "mech" THEN Fail
  ELSE IF f.k = "challenge" THEN
         (IF IsScram(m) /\ st.ph = "chal" THEN (IF SFirstUndecided(f.c) THEN Undecided ELSE IF SFirstOK(f.c) THEN [st EXCEPT !.ph = "final"] ELSE Fail)
          ELSE Fail)
  ELSE IF f.k = "outcome" THEN
         (IF f.code # 0 THEN Fail
          ELSE IF IsScram(m) THEN (IF st.ph = "final" /\ SFinalOK(f.data) THEN Amqp ELSE Fail)
          ELSE Amqp)
  ELSE Fail

FrameKnows(f) == \/ f.k = "init" /\ PlainKnows(f.resp)
                 \/ f.k = "response" /\ CFinalKnows(f.resp)
                 \/ f.k = "outcome" /\ SFinalKnows(f.data)

(* ------------------------------------------------------------------ palettes -- *)
CONSTANTS Side,       \* "listener" | "client"
          Mech,       \* mechanism the endpoint is configured with
          Tier,       \* "quick" | "deep": palette size
          AdvKnowsPw, \* may the adversary build terms from the configured password?
          MaxLen,     \* frames per run
          Extra       \* frames the adversary may still send after the ideal machine has decided

Hdr(k) == [k |-> "hdr", kind |-> k]
Users == IF Tier = "deep" THEN {"user", "use", "userx", "usEr", "", "us~er"} ELSE {"user", "use", "userx"}
Pws   == IF Tier = "deep" THEN {"pass", "pas", "passx", "paSs", "", "pa~ss", "user"} ELSE {"pass", "pas", "passx", "paSs", ""}
PlainResps == [t : {"plain"}, z : {"", "adm"}, u : Users, p : Pws, x : {"", "~junk", "~"}]
RawResps == {[t |-> "none"], [t |-> "raw", s |-> "garbage"], [t |-> "raw", s |-> ""], [t |-> "raw", s |-> "~user"], [t |-> "raw", s |-> "user~pass"]}
CFirsts == [t : {"cfirst"}, u : Users \ {"us~er"}, gs2 : {"n,,"}, nonce : {"cnonce"}, form : {"ok"}]
           \cup [t : {"cfirst"}, u : {U}, gs2 : {"y,,", "p=tls-unique,,", "n,a=adm,", ""}, nonce : {"cnonce"}, form : {"ok"}]
           \cup [t : {"cfirst"}, u : {U}, gs2 : {"n,,"}, nonce : {"cnonce", ""}, form : {"nononce", "nouser", "swapped", "ext"}]
CFinals == IF Tier = "deep"
           THEN [t : {"cfinal"}, pw : Pws \ {"pa~ss"}, cb : {"n", "y"}, nonce : {"ok", "bad", "clientonly"}, proof : {"ok", "flip", "short", "none", "empty", "notb64"}]
           ELSE [t : {"cfinal"}, pw : Pws \ {"pa~ss"}, cb : {"n"}, nonce : {"ok"}, proof : {"ok"}]
                \cup [t : {"cfinal"}, pw : {P}, cb : {"n", "y"}, nonce : {"ok", "bad", "clientonly"}, proof : {"ok"}]
                \cup [t : {"cfinal"}, pw : {P}, cb : {"n"}, nonce : {"ok"}, proof : {"ok", "flip", "short", "none", "empty", "notb64"}]
MechNames == {Mech, "ANONYMOUS", "FOO", ""} \cup (IF Mech = "PLAIN" THEN {"SCRAM-SHA-256"} ELSE {"PLAIN"})
Inits == [k : {"init"}, mech : (IF Tier = "deep" THEN MechNames ELSE {Mech}), resp : (IF IsScram(Mech) THEN CFirsts \cup RawResps ELSE PlainResps \cup RawResps)]
         \cup [k : {"init"}, mech : MechNames, resp : {IF IsScram(Mech) THEN [t |-> "cfirst", u |-> U, gs2 |-> "n,,", nonce |-> "cnonce", form |-> "ok"] ELSE [t |-> "plain", z |-> "", u |-> U, p |-> P, x |-> ""]}]
         \cup [k : {"init"}, mech : {Mech}, resp : (IF IsScram(Mech) THEN {[t |-> "plain", z |-> "", u |-> U, p |-> P, x |-> ""]} ELSE {})]
Responses == [k : {"response"}, resp : CFinals \cup {[t |-> "raw", s |-> "garbage"], [t |-> "raw", s |-> ""]}]
\* frames that are never legal from a client: wrong direction, AMQP during SASL, undecodable body
ToListenerOther == {[k |-> "mechanisms", list |-> <<Mech>>], [k |-> "challenge", c |-> [t |-> "raw", s |-> "x"]],
                    [k |-> "outcome", code |-> 0, data |-> [t |-> "none"]], [k |-> "other", what |-> "amqpopen"], [k |-> "other", what |-> "saslopen"]}
ToListener == {Hdr(k) : k \in {"sasl", "amqp", "tls", "bad"}} \cup Inits \cup Responses \cup ToListenerOther

GoodSFirst == [t |-> "sfirst", nonce |-> "extend", salt |-> "good", iter |-> "64", drop |-> "none", ext |-> ""]
SFirsts == IF Tier = "deep"
           THEN [t : {"sfirst"}, nonce : {"extend", "same", "other", "prefix"}, salt : {"good", "notb64", "empty"}, iter : {"64", "0", "x", ""}, drop : {"none", "salt", "iter", "nonce"}, ext : {"", "m=foo"}]
           ELSE {[GoodSFirst EXCEPT !.nonce = n] : n \in {"extend", "same", "other", "prefix"}} \cup {[GoodSFirst EXCEPT !.salt = x] : x \in {"notb64", "empty"}}
                \cup {[GoodSFirst EXCEPT !.iter = x] : x \in {"0", "x", ""}} \cup {[GoodSFirst EXCEPT !.drop = x] : x \in {"salt", "iter", "nonce"}} \cup {[GoodSFirst EXCEPT !.ext = "m=foo"]}
OutData == {[t |-> "none"], [t |-> "raw", s |-> "garbage"], [t |-> "raw", s |-> "v="]}
           \cup [t : {"sfinal"}, sig : {"good", "flip", "wrongpw", "otherexch", "empty", "noprefix", "err"}, pw : {P}]
Outcomes == [k : {"outcome"}, code : (IF Tier = "deep" THEN {0, 1, 2, 3, 4, 5, 255} ELSE {0, 1, 2, 4}), data : OutData]
MechLists == {<<Mech>>, <<"FOO", Mech>>, <<"FOO">>, <<>>} \cup (IF Mech = "PLAIN" THEN {<<"ANONYMOUS">>} ELSE {<<"PLAIN">>})
ToClientOther == {[k |-> "init", mech |-> Mech, resp |-> [t |-> "none"]], [k |-> "response", resp |-> [t |-> "raw", s |-> "x"]],
                  [k |-> "other", what |-> "amqpopen"], [k |-> "other", what |-> "saslopen"]}
ToClient == {Hdr(k) : k \in {"sasl", "amqp", "tls", "bad"}} \cup [k : {"mechanisms"}, list : MechLists]
            \cup [k : {"challenge"}, c : SFirsts \cup {[t |-> "raw", s |-> "garbage"], [t |-> "raw", s |-> ""]}] \cup Outcomes \cup ToClientOther

Alphabet == {f \in (IF Side = "listener" THEN ToListener ELSE ToClient) : AdvKnowsPw \/ ~FrameKnows(f)}
IdealStep(st, f) == IF Side = "listener" THEN LStep(Mech, st, f) ELSE CStep(Mech, st, f)

(* ------------------------------------------------------------------ model -- *)
VARIABLES st,     \* ideal machine
          run,    \* frames so far
          after   \* frames sent after the ideal machine decided
vars == <<st, run, after>>
Init == st = Start /\ run = <<>> /\ after = 0
\* once the ideal machine has decided, only a small probe set is worth sending
Probe(f) == \/ f.k = "hdr" /\ f.kind = "amqp"
            \/ f.k = "init" /\ (PlainOK(f.resp) \/ CFirstOK(f.resp)) /\ f.mech = Mech
            \/ f.k = "response" /\ f.resp = [t |-> "cfinal", pw |-> P, cb |-> "n", nonce |-> "ok", proof |-> "ok"]
            \/ f.k = "outcome" /\ f.code = 0 /\ f.data \in {[t |-> "none"], [t |-> "sfinal", sig |-> "good", pw |-> P]}
            \/ f.k = "challenge" /\ f.c = GoodSFirst
Next == /\ Len(run) < MaxLen
        /\ \E f \in Alphabet :
             /\ Absorbing(st) => (after < Extra /\ st.ph = "fail" /\ Probe(f))
             /\ st' = IdealStep(st, f)
             /\ run' = Append(run, f)
             /\ after' = IF Absorbing(st) THEN after + 1 ELSE 0
Spec == Init /\ [][Next]_vars

\* the ideal machine authenticates nobody who does not know the password (ANONYMOUS asks for none)
NoAuthWithoutPw == (~AdvKnowsPw /\ Mech # "ANONYMOUS" /\ (Side = "listener" \/ IsScram(Mech))) => st.ph # "amqp"
\* ... and whoever is authenticated has sent a term built from the password, after the SASL header
AuthNeedsProof == (st.ph = "amqp" /\ Mech # "ANONYMOUS" /\ (Side = "listener" \/ IsScram(Mech)))
                    => /\ Len(run) >= 2 /\ run[1] = Hdr("sasl")
                       /\ \E i \in 2..Len(run) : FrameKnows(run[i])
\* an outcome other than OK never authenticates
NonOkNeverAuth == (Side = "client" /\ st.ph = "amqp") => \E i \in 1..Len(run) : run[i].k = "outcome" /\ run[i].code = 0 /\ \A j \in 1..(i - 1) : run[j].k # "outcome"
\* negative control: with the password, authentication is reachable
NeverAmqp == st.ph # "amqp"
=============================================================================
