SPECIFICATION Spec
CONSTANTS Side = "listener" Mech = "SCRAM-SHA-1" Tier = "quick" AdvKnowsPw = TRUE MaxLen = 4 Extra = 1
INVARIANTS Emit
CHECK_DEADLOCK FALSE
