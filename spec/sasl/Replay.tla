------------------------------ MODULE Replay ------------------------------
(* The replay clause of C19 (C19_NoReplay).  Sasl.tla models one exchange; this model adds what an adversary can do with a SECOND exchange
   at the same listener after watching a successful SCRAM login: it knows every byte the honest client wrote (client-first with the client
   nonce, client-final with the proof), it does not know the password.  A proof is a term over the password, the client nonce and the
   server nonce of the exchange it was made for.  With a server nonce drawn per exchange (Fresh = TRUE) no recorded proof fits the second
   exchange; with a nonce drawn once per listener (Fresh = FALSE, the negative control) the recording opens the connection.
   Conformance: `vh replay` performs exactly this against the real acceptor (ReplayTrace.tla). *)
EXTENDS Naturals, FiniteSets
CONSTANTS Nonces, Fresh
VARIABLES sn1, sn2, cn, known, step, opened2
vars == <<sn1, sn2, cn, known, step, opened2>>
Proof(c, s) == <<"proof", "pwd", c, s>>
Init == /\ sn1 \in Nonces /\ sn2 \in Nonces /\ (IF Fresh THEN sn2 # sn1 ELSE sn2 = sn1) /\ cn \in Nonces
        /\ known = {} /\ step = "login" /\ opened2 = FALSE
\* the honest login: the adversary records the client nonce and the proof
Login == /\ step = "login" /\ known' = {<<"cfirst", cn>>, Proof(cn, sn1)} /\ step' = "attack" /\ UNCHANGED <<sn1, sn2, cn, opened2>>
\* the second exchange: any client nonce and any proof the adversary has on record
Attack == /\ step = "attack"
          /\ \E c \in {k[2] : k \in {x \in known : x[1] = "cfirst"}}, p \in {x \in known : x[1] = "proof"} :
               opened2' = (p = Proof(c, sn2))
          /\ step' = "done" /\ UNCHANGED <<sn1, sn2, cn, known>>
Next == Login \/ Attack
Spec == Init /\ [][Next]_vars
C19_NoReplay == ~opened2
=============================================================================
