SPECIFICATION Spec
CONSTANTS Side = "listener" Mech = "SCRAM-SHA-256" Tier = "quick" AdvKnowsPw = TRUE MaxLen = 4 Extra = 0
INVARIANTS NeverAmqp
CHECK_DEADLOCK FALSE
