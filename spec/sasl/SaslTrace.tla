------------------------------ MODULE SaslTrace ------------------------------
(* Validate for C19: replay recorded runs of the real endpoint (harness `vh ep`) through the ideal
   negotiation machines of Sasl.tla.  The peer's frames (PHeader / PSasl / PFrame rows, with the
   descriptor they were built from) drive LStep / CStep; every step of the real endpoint towards
   AMQP -- an OK outcome sent, the AMQP header or an AMQP frame after the SASL layer, accept()/open()
   returning Ok -- is allowed only when the ideal machine has reached "amqp" (or does not decide).
   Monitor style: never rejects, prints <<"FAIL", clause, line, detail>>. *)
EXTENDS Sasl, Json, IOUtils
Rec == ndJsonDeserialize(IOEnv.TRACE)
VARIABLES l, s, nfail
tvars == <<l, s, nfail>>

Fl(name, line, detail) == IF PrintT(<<"FAIL", name, line, detail>>) THEN 1 ELSE 1
Chk(name, cond, line, detail) == IF cond THEN 0 ELSE Fl(name, line, detail)
Stat(name) == IF PrintT(<<"STAT", name>>) THEN 0 ELSE 0
R(st1, f) == [s |-> st1, f |-> f]

S0 == [side |-> "client", mech |-> "none", st |-> Undecided, ret |-> "none", badOutcome |-> FALSE, sawSaslHdr |-> FALSE, piped |-> FALSE]

\* the frame a trace row stands for
Frame(r) == CASE r.ev = "PHeader" -> [k |-> "hdr", kind |-> r.kind]
              [] r.ev = "PSasl" /\ r.k = "init" -> [k |-> "init", mech |-> r.mech, resp |-> r.resp]
              [] r.ev = "PSasl" /\ r.k = "response" -> [k |-> "response", resp |-> r.resp]
              [] r.ev = "PSasl" /\ r.k = "mechanisms" -> [k |-> "mechanisms", list |-> r.list]
              [] r.ev = "PSasl" /\ r.k = "challenge" -> [k |-> "challenge", c |-> r.c]
              [] r.ev = "PSasl" /\ r.k = "outcome" -> [k |-> "outcome", code |-> r.code, data |-> r.data]
              [] OTHER -> [k |-> "other", what |-> "wire"]
Ideal(z, f) == IF z.side = "listener" THEN LStep(z.mech, z.st, f) ELSE CStep(z.mech, z.st, f)
MayProceed(z) == z.st.ph \in {"amqp", "any"}
Clause(z) == IF z.side = "listener" THEN "C19_NoOpenWithoutAuth" ELSE IF z.badOutcome THEN "C19_NonOkIsFailure" ELSE "C19_ClientMutual"

Step(z, r, ln) ==
  CASE r.ev = "Init" -> R([S0 EXCEPT !.side = r.side], 0)
    [] r.ev = "ApiCall" /\ r.op \in {"accept", "open"} ->
         R([z EXCEPT !.mech = IF "sasl" \in DOMAIN r.args THEN r.args.sasl.mech ELSE "none",
                     !.st = IF "sasl" \in DOMAIN r.args THEN Start ELSE Undecided], 0)
    [] r.ev \in {"PHeader", "PSasl", "PFrame", "PRaw"} ->
         IF ~r.written THEN R(z, 0)
         ELSE LET f == Frame(r) IN
              R([z EXCEPT !.st = Ideal(z, f),
                          !.badOutcome = @ \/ (f.k = "outcome" /\ f.code # 0 /\ ~Absorbing(z.st))], 0)
    [] r.ev = "EHeader" ->
         IF r.proto = 3 THEN R([z EXCEPT !.sawSaslHdr = TRUE], 0)
         ELSE R(z, Chk(Clause(z), MayProceed(z), ln, "amqp-header"))
    [] r.ev = "ESasl" ->
         R(z, IF z.side = "listener" /\ r.kind = "outcome" /\ r.code = 0 THEN Chk(Clause(z), MayProceed(z), ln, "outcome-ok") ELSE 0)
    [] r.ev = "EFrame" -> R(z, Chk(Clause(z), MayProceed(z), ln, "amqp-frame"))
    [] r.ev = "ApiRet" /\ r.op \in {"accept", "open"} ->
         IF r.res.ok THEN R([z EXCEPT !.ret = "ok"], Chk(Clause(z), MayProceed(z), ln, "call-ok") + (IF z.st.ph = "amqp" THEN Stat("authenticated") ELSE 0))
         ELSE R([z EXCEPT !.ret = "err"], IF z.st.ph = "fail" THEN Stat("refused") ELSE 0)
    [] r.ev = "Mark" -> R([z EXCEPT !.piped = TRUE], 0)
    [] r.ev = "End" ->
         \* the whole client side of a successful exchange written in one piece must be understood as it is when it arrives frame by frame
         R(z, Chk("C06_SplitIndependent", ~z.piped \/ z.st.ph # "amqp" \/ z.ret = "ok", ln, "handshake-in-one-piece")
              + Chk("C19_BothFail", z.st.ph = "fail" => z.ret = "err", ln, IF z.ret = "ok" THEN "call-ok" ELSE "call-pending")
              + Chk("C19_NoPanic", r.panics = 0, ln, ""))
    [] r.ev = "Spin" -> R(z, Fl("C19_NoHang", ln, "spin"))
    [] OTHER -> R(z, 0)

TInit == l = 1 /\ s = S0 /\ nfail = 0 /\ Init
TNext == /\ l <= Len(Rec) /\ l' = l + 1 /\ UNCHANGED vars
         /\ LET res == Step(s, Rec[l], l) IN s' = res.s /\ nfail' = nfail + res.f
TSpec == TInit /\ [][TNext]_<<tvars, vars>>
Accepted == IF TLCGet("stats").diameter - 1 = Len(Rec) THEN PrintT(<<"VALIDATED", Len(Rec)>>)
            ELSE Print(<<"UNMATCHED", TLCGet("stats").diameter>>, FALSE)
=============================================================================
