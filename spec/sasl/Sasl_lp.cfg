SPECIFICATION Spec
CONSTANTS Side = "listener" Mech = "PLAIN" Tier = "deep" AdvKnowsPw = FALSE MaxLen = 4 Extra = 1
INVARIANTS NoAuthWithoutPw AuthNeedsProof
CHECK_DEADLOCK FALSE
