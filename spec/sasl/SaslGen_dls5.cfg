SPECIFICATION Spec
CONSTANTS Side = "listener" Mech = "SCRAM-SHA-512" Tier = "deep" AdvKnowsPw = TRUE MaxLen = 4 Extra = 1
INVARIANTS Emit
CHECK_DEADLOCK FALSE
