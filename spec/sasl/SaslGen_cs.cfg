SPECIFICATION Spec
CONSTANTS Side = "client" Mech = "SCRAM-SHA-256" Tier = "quick" AdvKnowsPw = TRUE MaxLen = 5 Extra = 1
INVARIANTS Emit
CHECK_DEADLOCK FALSE
