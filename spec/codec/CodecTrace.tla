---------------------------- MODULE CodecTrace ----------------------------
(* Validate: every record the harness logged about the real encoder / decoders is judged here.
   The bytes the implementation produced are decoded by the reference decoder `Dec`; the facts
   the harness observed about the implementation's decoders are required to be "ok".
   A failing clause prints  <<"FAIL", clause, line, type>>  and the run continues, so that one
   run attributes every failure (the driver matches them against known_findings.json). *)
EXTENDS Composite, Json, IOUtils
Rec == ndJsonDeserialize(IOEnv.TRACE)

VARIABLES l, nfail
vars == <<l, nfail>>

AllOk(s) == \A i \in DOMAIN s : s[i] = "ok"
Check(name, cond, r) == IF cond THEN 0 ELSE IF PrintT(<<"FAIL", name, l, r.ty>>) THEN 1 ELSE 1

\* what the reference decoder makes of the implementation's encoding
EncoderValid(r) ==
  IF r.k = "message"
  THEN LET d == DecMany(r.re, 1, <<>>) IN d.ok /\ NormAll(d.v) = NormAll(r.v.x)
  ELSE LET d == Dec(r.re) IN d.ok /\ d.n = Len(r.re) /\ Norm(d.v) = Norm(r.v)

\* the untyped value tree of a typed item denotes the same abstract value as its bytes
\* (a message has no single-value tree: its sections are serialized as a sequence)
TreeValid(r) == r.k = "message" \/ r.tv # "ok" \/ Norm(r.tree) = Norm(r.v)

Judge(r) ==
    Check("C03_NoEncodeFailure", r.enc = "ok", r)
  + Check("C03_RoundTrip", r.enc # "ok" \/ r.rt = "ok", r)
  + Check("C05_EncoderValid", r.enc # "ok" \/ EncoderValid(r), r)
  + Check("C05_DecoderAccepts", AllOk(r.dec) /\ r.same = "ok" /\ r.proj = "ok", r)
  + Check("C20_SliceEqReader", AllOk(r.rd), r)
  + Check("C20_Consumed", AllOk(r.cons), r)
  + Check("C20_Size", r.enc # "ok" \/ r.size = "ok", r)
  + Check("C20_ValueTree", r.enc # "ok" \/ r.k = "message" \/ (r.tv = "ok" /\ r.lazy = "ok" /\ TreeValid(r)), r)
  + Check("C20_ValueTreeBack", r.enc # "ok" \/ r.k = "message" \/ r.tvback = "ok", r)

Init == l = 1 /\ nfail = 0
Next == l <= Len(Rec) /\ l' = l + 1 /\ nfail' = nfail + Judge(Rec[l])
Spec == Init /\ [][Next]_vars

\* used by the single-case replay: strict mode stops at the first failing clause
NoFailure == nfail = 0
Accepted == IF TLCGet("stats").diameter - 1 = Len(Rec) THEN PrintT(<<"VALIDATED", Len(Rec)>>)
            ELSE Print(<<"UNMATCHED", TLCGet("stats").diameter>>, FALSE)
=============================================================================
