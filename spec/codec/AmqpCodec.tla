---------------------------- MODULE AmqpCodec ----------------------------
(* Abstract AMQP 1.0 type system (part 1 of the AMQP 1.0 specification), a total
   reference decoder `Dec` and the family of spec-valid encoders `Enc(v, mode)`.
   Written from the specification text, not from the code under test.

   Values are records:
     [t |-> "null"]                       [t |-> "bool", b |-> BOOLEAN]
     [t |-> <fixed type>, x |-> bytes]    big-endian byte tuple of the type's width
     [t |-> "binary"|"string"|"symbol", x |-> bytes]
     [t |-> "list"|"map", x |-> <<values>>]      (map: k1, v1, k2, v2, ...)
     [t |-> "array", c |-> ctor, x |-> <<values>>]
     [t |-> "described", d |-> value, x |-> value]
   A constructor is [code |-> c] or [code |-> 0, d |-> descriptor, inner |-> ctor].
   Scalars are byte tuples so 64/128-bit values and float bit patterns are exact and
   TLC's 32-bit integers are never a limit. *)
EXTENDS Integers, Sequences, FiniteSets, TLC

Fail == [ok |-> FALSE]
Ok(v, n) == [ok |-> TRUE, v |-> v, n |-> n]          \* n = bytes consumed

Rep(x, k) == [i \in 1..k |-> x]
BE(b, p, w) == IF w = 1 THEN b[p] ELSE (b[p] * 16777216 + b[p+1] * 65536 + b[p+2] * 256 + b[p+3])
BigLen(b, p) == b[p] >= 128            \* a 32-bit length >= 2^31 can never fit the input
Have(b, p, k) == p + k - 1 <= Len(b)
U32(n) == << (n \div 16777216) % 256, (n \div 65536) % 256, (n \div 256) % 256, n % 256 >>
AllZero(s) == \A i \in DOMAIN s : s[i] = 0
SignExt(x, w) == IF x >= 128 THEN Rep(255, w - 1) \o <<x>> ELSE Rep(0, w - 1) \o <<x>>

FixedWidth == [ ubyte |-> 1, ushort |-> 2, uint |-> 4, ulong |-> 8, byte |-> 1, short |-> 2, int |-> 4, long |-> 8,
                float |-> 4, double |-> 8, dec32 |-> 4, dec64 |-> 8, dec128 |-> 16, char |-> 4, timestamp |-> 8, uuid |-> 16 ]
FixedCode == [ ubyte |-> 80, ushort |-> 96, uint |-> 112, ulong |-> 128, byte |-> 81, short |-> 97, int |-> 113, long |-> 129,
               float |-> 114, double |-> 130, dec32 |-> 116, dec64 |-> 132, dec128 |-> 148, char |-> 115, timestamp |-> 131, uuid |-> 152 ]
CodeFixed == [ c \in {FixedCode[t] : t \in DOMAIN FixedCode} |-> CHOOSE t \in DOMAIN FixedCode : FixedCode[t] = c ]

\* strict UTF-8: no overlongs, no surrogates, <= U+10FFFF
RECURSIVE Utf8OK(_, _)
Utf8OK(s, i) ==
  IF i > Len(s) THEN TRUE ELSE
  LET c == s[i] Cont(j) == j <= Len(s) /\ s[j] >= 128 /\ s[j] <= 191 IN
  IF c < 128 THEN Utf8OK(s, i + 1)
  ELSE IF c >= 194 /\ c <= 223 THEN Cont(i+1) /\ Utf8OK(s, i + 2)
  ELSE IF c >= 224 /\ c <= 239 THEN Cont(i+1) /\ Cont(i+2)
        /\ (c = 224 => s[i+1] >= 160) /\ (c = 237 => s[i+1] <= 159) /\ Utf8OK(s, i + 3)
  ELSE IF c >= 240 /\ c <= 244 THEN Cont(i+1) /\ Cont(i+2) /\ Cont(i+3)
        /\ (c = 240 => s[i+1] >= 144) /\ (c = 244 => s[i+1] <= 143) /\ Utf8OK(s, i + 4)
  ELSE FALSE
CharOK(x) == LET hi == x[1] * 256 + x[2] lo == x[3] * 256 + x[4] IN   \* UTF-32BE scalar value
             /\ hi <= 16 /\ ~(hi = 0 /\ lo >= 55296 /\ lo <= 57343)

ZeroWidthCap == 1024
RECURSIVE ZW(_)
ZW(c) == IF c.code = 0 THEN ZW(c.inner) ELSE c.code \in {64, 65, 66, 67, 68, 69}   \* zero-width element constructor
-----------------------------------------------------------------------------
(* Reference decoder *)
RECURSIVE DecCtor(_, _), DecData(_, _, _), DecSeq(_, _, _, _, _), DecArr(_, _, _, _, _)

DecCtor(b, p) ==
  IF ~Have(b, p, 1) THEN Fail
  ELSE IF b[p] # 0 THEN Ok([code |-> b[p]], 1)
  ELSE LET d == DecCtor(b, p + 1) IN
       IF ~d.ok THEN Fail ELSE
       LET dv == DecData(d.v, b, p + 1 + d.n) IN
       IF ~dv.ok THEN Fail ELSE
       \* 1.3: descriptors other than symbol / ulong are reserved: the oracle does not decide them
       IF dv.v.t \notin {"symbol", "ulong"} THEN Fail ELSE
       LET inner == DecCtor(b, p + 1 + d.n + dv.n) IN
       IF ~inner.ok THEN Fail
       ELSE Ok([code |-> 0, d |-> dv.v, inner |-> inner.v], 1 + d.n + dv.n + inner.n)

DecSeq(b, p, cnt, acc, used) ==
  IF cnt = 0 THEN Ok(acc, used) ELSE
  LET c == DecCtor(b, p) IN IF ~c.ok THEN Fail ELSE
  LET r == DecData(c.v, b, p + c.n) IN IF ~r.ok THEN Fail
  ELSE DecSeq(b, p + c.n + r.n, cnt - 1, Append(acc, r.v), used + c.n + r.n)

DecArr(ctor, b, p, cnt, acc) ==
  IF cnt = 0 THEN Ok(acc.v, acc.n) ELSE
  LET r == DecData(ctor, b, p) IN IF ~r.ok THEN Fail
  ELSE DecArr(ctor, b, p + r.n, cnt - 1, [v |-> Append(acc.v, r.v), n |-> acc.n + r.n])

Compound(kind, w, b, p) ==          \* size(w) count(w) items ; size counts the count field and the items
  IF ~Have(b, p, 2 * w) THEN Fail ELSE
  IF w = 4 /\ (BigLen(b, p) \/ BigLen(b, p + 4)) THEN Fail ELSE
  LET size == BE(b, p, w) cnt == BE(b, p + w, w) IN
  IF size < w \/ ~Have(b, p + w, size) THEN Fail ELSE
  IF kind = "map" /\ cnt % 2 = 1 THEN Fail ELSE
  IF cnt > size THEN Fail ELSE     \* every item needs at least its constructor byte
  LET r == DecSeq(b, p + 2 * w, cnt, <<>>, 0) IN
  IF ~r.ok \/ r.n # size - w THEN Fail
  ELSE Ok([t |-> kind, x |-> r.v], w + size)

ArrayD(w, b, p) ==
  IF ~Have(b, p, 2 * w) THEN Fail ELSE
  IF w = 4 /\ (BigLen(b, p) \/ BigLen(b, p + 4)) THEN Fail ELSE
  LET size == BE(b, p, w) cnt == BE(b, p + w, w) IN
  IF size < w \/ ~Have(b, p + w, size) THEN Fail ELSE
  IF size = w THEN (IF cnt = 0 THEN Ok([t |-> "array", c |-> [code |-> 64], x |-> <<>>], 2 * w) ELSE Fail)  \* lenient: empty array without constructor
  ELSE LET c == DecCtor(b, p + 2 * w) IN IF ~c.ok THEN Fail ELSE
       \* zero-width elements: count is not bounded by the size; the oracle does not decide arrays of
       \* more than ZeroWidthCap such elements (no obligation is derived from a Fail)
       IF ZW(c.v) /\ cnt > ZeroWidthCap THEN Fail ELSE
       IF ~ZW(c.v) /\ cnt > size THEN Fail ELSE
       LET r == DecArr(c.v, b, p + 2 * w + c.n, cnt, [v |-> <<>>, n |-> 0]) IN
       IF ~r.ok \/ c.n + r.n # size - w THEN Fail
       ELSE Ok([t |-> "array", c |-> c.v, x |-> r.v], w + size)

Variable(kind, w, b, p) ==
  IF ~Have(b, p, w) THEN Fail ELSE IF w = 4 /\ BigLen(b, p) THEN Fail ELSE
  LET len == BE(b, p, w) IN
  IF ~Have(b, p + w, len) THEN Fail ELSE
  LET x == SubSeq(b, p + w, p + w + len - 1) IN
  IF kind = "string" /\ ~Utf8OK(x, 1) THEN Fail
  \* (by the letter of 1.6.21 a symbol is seven-bit ASCII; the library's Symbol carries any string and writes it as UTF-8, and the oracle only ever
  \*  demands acceptance, so it takes the wider reading: bytes above 127 are fine as long as they are well-formed UTF-8)
  ELSE IF kind = "symbol" /\ ~Utf8OK(x, 1) THEN Fail
  ELSE Ok([t |-> kind, x |-> x], w + len)

DecData(ctor, b, p) ==
  LET c == ctor.code IN
  IF c = 0 THEN LET r == DecData(ctor.inner, b, p) IN
                IF ~r.ok THEN Fail ELSE Ok([t |-> "described", d |-> ctor.d, x |-> r.v], r.n)
  ELSE IF c = 64 THEN Ok([t |-> "null"], 0)
  ELSE IF c = 65 THEN Ok([t |-> "bool", b |-> TRUE], 0)
  ELSE IF c = 66 THEN Ok([t |-> "bool", b |-> FALSE], 0)
  ELSE IF c = 86 THEN (IF Have(b, p, 1) /\ b[p] \in {0, 1} THEN Ok([t |-> "bool", b |-> b[p] = 1], 1) ELSE Fail)
  ELSE IF c = 67 THEN Ok([t |-> "uint", x |-> Rep(0, 4)], 0)
  ELSE IF c = 68 THEN Ok([t |-> "ulong", x |-> Rep(0, 8)], 0)
  ELSE IF c = 82 THEN (IF Have(b, p, 1) THEN Ok([t |-> "uint", x |-> Rep(0, 3) \o <<b[p]>>], 1) ELSE Fail)
  ELSE IF c = 83 THEN (IF Have(b, p, 1) THEN Ok([t |-> "ulong", x |-> Rep(0, 7) \o <<b[p]>>], 1) ELSE Fail)
  ELSE IF c = 84 THEN (IF Have(b, p, 1) THEN Ok([t |-> "int", x |-> SignExt(b[p], 4)], 1) ELSE Fail)
  ELSE IF c = 85 THEN (IF Have(b, p, 1) THEN Ok([t |-> "long", x |-> SignExt(b[p], 8)], 1) ELSE Fail)
  ELSE IF c \in DOMAIN CodeFixed THEN
       LET t == CodeFixed[c] w == FixedWidth[t] IN
       IF ~Have(b, p, w) THEN Fail ELSE
       LET x == SubSeq(b, p, p + w - 1) IN
       IF t = "char" /\ ~CharOK(x) THEN Fail ELSE Ok([t |-> t, x |-> x], w)
  ELSE IF c = 160 THEN Variable("binary", 1, b, p) ELSE IF c = 176 THEN Variable("binary", 4, b, p)
  ELSE IF c = 161 THEN Variable("string", 1, b, p) ELSE IF c = 177 THEN Variable("string", 4, b, p)
  ELSE IF c = 163 THEN Variable("symbol", 1, b, p) ELSE IF c = 179 THEN Variable("symbol", 4, b, p)
  ELSE IF c = 69  THEN Ok([t |-> "list", x |-> <<>>], 0)
  ELSE IF c = 192 THEN Compound("list", 1, b, p) ELSE IF c = 208 THEN Compound("list", 4, b, p)
  ELSE IF c = 193 THEN Compound("map", 1, b, p)  ELSE IF c = 209 THEN Compound("map", 4, b, p)
  ELSE IF c = 224 THEN ArrayD(1, b, p) ELSE IF c = 240 THEN ArrayD(4, b, p)
  ELSE Fail

\* decode one value starting at position p (1-based); n = bytes consumed
DecAt(b, p) == LET c == DecCtor(b, p) IN IF ~c.ok THEN Fail ELSE
               LET r == DecData(c.v, b, p + c.n) IN IF ~r.ok THEN Fail ELSE Ok(r.v, c.n + r.n)
Dec(b) == DecAt(b, 1)

\* decode a whole sequence of values that must fill b exactly (message sections)
RECURSIVE DecMany(_, _, _)
DecMany(b, p, acc) == IF p > Len(b) THEN Ok(acc, Len(b)) ELSE
                      LET r == DecAt(b, p) IN IF ~r.ok THEN Fail ELSE DecMany(b, p + r.n, Append(acc, r.v))

-----------------------------------------------------------------------------
(* Encoders.  A mode picks one spec-valid variant at every choice point:
   "N" narrowest everywhere, "W" widest everywhere, "NW"/"WN" alternate per nesting
   level, so that every width choice is exercised inside both kinds of parent. *)
Modes == {"N", "W", "NW", "WN"}
Wide(m) == m \in {"W", "WN"}
Child(m) == CASE m = "NW" -> "WN" [] m = "WN" -> "NW" [] OTHER -> m

RECURSIVE Enc(_, _), EncAll(_, _), CtorBytes(_, _), BodyBytes(_, _, _), ArrBodies(_, _, _)
EncAll(vs, m) == IF vs = <<>> THEN <<>> ELSE Enc(Head(vs), m) \o EncAll(Tail(vs), m)
SizeCount(w, size, cnt) == IF w = 1 THEN <<size, cnt>> ELSE U32(size) \o U32(cnt)

Enc(v, m) ==
  LET wide == Wide(m) IN
  CASE v.t = "null" -> <<64>>
    [] v.t = "bool" -> IF wide THEN <<86, IF v.b THEN 1 ELSE 0>> ELSE <<IF v.b THEN 65 ELSE 66>>
    [] v.t = "uint" -> IF wide THEN <<112>> \o v.x ELSE IF AllZero(v.x) THEN <<67>>
                       ELSE IF AllZero(SubSeq(v.x, 1, 3)) THEN <<82, v.x[4]>> ELSE <<112>> \o v.x
    [] v.t = "ulong" -> IF wide THEN <<128>> \o v.x ELSE IF AllZero(v.x) THEN <<68>>
                       ELSE IF AllZero(SubSeq(v.x, 1, 7)) THEN <<83, v.x[8]>> ELSE <<128>> \o v.x
    [] v.t = "int" -> IF ~wide /\ v.x = SignExt(v.x[4], 4) THEN <<84, v.x[4]>> ELSE <<113>> \o v.x
    [] v.t = "long" -> IF ~wide /\ v.x = SignExt(v.x[8], 8) THEN <<85, v.x[8]>> ELSE <<129>> \o v.x
    [] v.t \in DOMAIN FixedCode -> <<FixedCode[v.t]>> \o v.x
    [] v.t \in {"binary", "string", "symbol"} ->
         LET c8 == CASE v.t = "binary" -> 160 [] v.t = "string" -> 161 [] OTHER -> 163 IN
         IF ~wide /\ Len(v.x) <= 255 THEN <<c8, Len(v.x)>> \o v.x ELSE <<c8 + 16>> \o U32(Len(v.x)) \o v.x
    [] v.t \in {"list", "map"} ->
         LET body == EncAll(v.x, Child(m)) cnt == Len(v.x) c8 == IF v.t = "list" THEN 192 ELSE 193 IN
         IF ~wide /\ v.t = "list" /\ cnt = 0 THEN <<69>>
         ELSE IF ~wide /\ Len(body) + 1 <= 255 /\ cnt <= 255 THEN <<c8>> \o SizeCount(1, Len(body) + 1, cnt) \o body
         ELSE <<c8 + 16>> \o SizeCount(4, Len(body) + 4, cnt) \o body
    [] v.t = "array" ->
         LET ctor == CtorBytes(v.c, Child(m)) bodies == ArrBodies(v.c, v.x, Child(m)) cnt == Len(v.x) IN
         IF ~wide /\ Len(ctor) + Len(bodies) + 1 <= 255 /\ cnt <= 255
         THEN <<224>> \o SizeCount(1, Len(ctor) + Len(bodies) + 1, cnt) \o ctor \o bodies
         ELSE <<240>> \o SizeCount(4, Len(ctor) + Len(bodies) + 4, cnt) \o ctor \o bodies
    [] v.t = "described" -> <<0>> \o Enc(v.d, Child(m)) \o Enc(v.x, Child(m))

CtorBytes(ctor, m) == IF ctor.code # 0 THEN <<ctor.code>> ELSE <<0>> \o Enc(ctor.d, m) \o CtorBytes(ctor.inner, m)

\* element body under a fixed constructor (no constructor byte)
BodyBytes(ctor, v, m) ==
  LET c == ctor.code IN
  IF c = 0 THEN BodyBytes(ctor.inner, v.x, m)
  ELSE IF c \in {64, 65, 66, 67, 68, 69} THEN <<>>
  ELSE IF c = 86 THEN <<IF v.b THEN 1 ELSE 0>>
  ELSE IF c \in {82, 84} THEN <<v.x[4]>> ELSE IF c \in {83, 85} THEN <<v.x[8]>>
  ELSE IF c \in DOMAIN CodeFixed THEN v.x
  ELSE IF c \in {160, 161, 163} THEN <<Len(v.x)>> \o v.x
  ELSE IF c \in {176, 177, 179} THEN U32(Len(v.x)) \o v.x
  ELSE IF c \in {192, 193} THEN LET body == EncAll(v.x, m) IN SizeCount(1, Len(body) + 1, Len(v.x)) \o body
  ELSE IF c \in {208, 209} THEN LET body == EncAll(v.x, m) IN SizeCount(4, Len(body) + 4, Len(v.x)) \o body
  ELSE LET w == IF c = 224 THEN 1 ELSE 4
           ct == CtorBytes(v.c, m) bodies == ArrBodies(v.c, v.x, m) IN
       SizeCount(w, Len(ct) + Len(bodies) + w, Len(v.x)) \o ct \o bodies
ArrBodies(ctor, vs, m) == IF vs = <<>> THEN <<>> ELSE BodyBytes(ctor, Head(vs), m) \o ArrBodies(ctor, Tail(vs), m)

-----------------------------------------------------------------------------
(* Semantic equality: the element constructor chosen for an array (smalluint vs uint
   elements, ...) is not part of the value. *)
RECURSIVE Strip(_)
StripAll(s) == [i \in DOMAIN s |-> Strip(s[i])]
Strip(v) == CASE v.t = "array" -> [t |-> "array", x |-> StripAll(v.x)]
              [] v.t \in {"list", "map"} -> [t |-> v.t, x |-> StripAll(v.x)]
              [] v.t = "described" -> [t |-> "described", d |-> Strip(v.d), x |-> Strip(v.x)]
              [] OTHER -> v

\* The oracle's own soundness conditions (checked by TLC in MC_Codec)
RoundTrip(v, m) == LET e == Enc(v, m) r == Dec(e) IN r.ok /\ r.v = v /\ r.n = Len(e)
\* Dec never reads past what it reports: appending bytes does not change the result
TailIndependent(v, m, tail) == LET e == Enc(v, m) r == Dec(e \o tail) IN r.ok /\ r.v = v /\ r.n = Len(e)
=============================================================================
