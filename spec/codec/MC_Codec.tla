---------------------------- MODULE MC_Codec ----------------------------
(* Gen + self-check of the codec oracle.  One TLC state per case.  For every case TLC
   (a) checks that the reference decoder and the encoders agree with each other for every
   mode (the oracle is validated before it judges the implementation) and (b) prints the
   case with all its spec-valid encodings as JSON; the harness feeds those to the real code. *)
EXTENDS Composite, Json, SequencesExt, FiniteSetsExt
CONSTANT Deep          \* FALSE: quick palette, TRUE: thorough palette

I4(k) == U32(k)
Z(n) == Rep(0, n)
FF(n) == Rep(255, n)
\* ---- scalars at the width / sign boundaries ----
UInts == {I4(0), I4(1), I4(127), I4(128), I4(255), I4(256), <<255,255,255,255>>} \cup (IF Deep THEN {I4(65535), I4(65536), <<128,0,0,0>>} ELSE {})
ULongs == {Z(8), Z(7) \o <<1>>, Z(7) \o <<255>>, Z(6) \o <<1, 0>>, FF(8)} \cup (IF Deep THEN {<<128>> \o Z(7), Z(7) \o <<128>>} ELSE {})
Ints == {I4(0), I4(1), I4(127), I4(128), <<255,255,255,255>>, <<255,255,255,128>>, <<255,255,255,127>>, <<128,0,0,0>>, <<127,255,255,255>>}
Longs == {Z(8), Z(7) \o <<127>>, Z(7) \o <<128>>, FF(8), FF(7) \o <<128>>, FF(7) \o <<127>>, <<128>> \o Z(7), <<127>> \o FF(7)}
Floats == {Z(4), <<128,0,0,0>>, <<127,128,0,0>>, <<255,128,0,0>>, <<127,192,0,0>>, <<127,128,0,1>>, <<0,0,0,1>>, <<63,128,0,0>>}
Doubles == {Z(8), <<128>> \o Z(7), <<127,240>> \o Z(6), <<255,240>> \o Z(6), <<127,248>> \o Z(6), <<127,240,0,0,0,0,0,1>>, Z(7) \o <<1>>, <<63,240>> \o Z(6)}
Chars == {<<0,0,0,0>>, <<0,0,0,65>>, <<0,0,0,127>>, <<0,0,0,128>>, <<0,0,7,255>>, <<0,0,8,0>>, <<0,0,215,255>>, <<0,0,224,0>>, <<0,0,255,255>>, <<0,1,0,0>>, <<0,16,255,255>>}
Strs == {<<>>, <<97>>, <<195,169>>, <<226,130,172>>, <<240,159,146,150>>, <<97,195,169,226,130,172,240,159,146,150>>,
         Rep(97, 254), Rep(97, 255), Rep(97, 256), Rep(97, 253) \o <<195,169>>, Rep(97, 254) \o <<195,169>>}
         \cup (IF Deep THEN {Rep(98, 300), [i \in 1..256 |-> IF i % 2 = 1 THEN 195 ELSE 169]} ELSE {})
\* (a symbol is ASCII by the letter of the specification; the API carries any string, and a byte above 127 must come back as it went)
Syms == {<<>>, <<97>>, <<97,58,98>>, Rep(120, 255), Rep(120, 256), <<99,97,102,195,169>>}
Bins == {<<>>, <<0>>, <<0,255>>, Rep(0, 255), Rep(7, 256)} \cup (IF Deep THEN {[i \in 1..300 |-> i % 256]} ELSE {})

Scalars == {Null, B(TRUE), B(FALSE)}
  \cup {[t |-> "uint", x |-> x] : x \in UInts} \cup {[t |-> "ulong", x |-> x] : x \in ULongs}
  \cup {[t |-> "int", x |-> x] : x \in Ints} \cup {[t |-> "long", x |-> x] : x \in Longs}
  \cup {[t |-> "ubyte", x |-> <<x>>] : x \in {0, 127, 128, 255}} \cup {[t |-> "byte", x |-> <<x>>] : x \in {0, 127, 128, 255}}
  \cup {[t |-> "ushort", x |-> x] : x \in {<<0,0>>, <<0,255>>, <<1,0>>, <<255,255>>}} \cup {[t |-> "short", x |-> x] : x \in {<<0,0>>, <<127,255>>, <<128,0>>, <<255,255>>}}
  \cup {[t |-> "float", x |-> x] : x \in Floats} \cup {[t |-> "double", x |-> x] : x \in Doubles}
  \cup {[t |-> "dec32", x |-> <<34,80,0,1>>], [t |-> "dec64", x |-> Z(7) \o <<9>>], [t |-> "dec128", x |-> Rep(1, 16)]}
  \cup {[t |-> "char", x |-> x] : x \in Chars}
  \cup {[t |-> "timestamp", x |-> x] : x \in {Z(8), Z(7) \o <<5>>, FF(8), <<0,0,1,100,0,0,0,0>>}}
  \cup {[t |-> "uuid", x |-> Rep(7, 16)], [t |-> "uuid", x |-> [i \in 1..16 |-> i * 15]]}
  \cup {Str(x) : x \in Strs} \cup {Sym(x) : x \in Syms} \cup {Bin(x) : x \in Bins}

\* a smaller set used inside compounds
Small == {Null, B(TRUE), UI(0), UI(200), UI(300), UL(0), UL(9), [t |-> "int", x |-> <<255,255,255,255>>], [t |-> "long", x |-> FF(7) \o <<128>>],
          [t |-> "ubyte", x |-> <<200>>], [t |-> "double", x |-> <<127,248,0,0,0,0,0,1>>], [t |-> "char", x |-> <<0,1,244,0>>],
          TS(5), [t |-> "uuid", x |-> Rep(7, 16)], Str(<<>>), Str(<<195,169>>), Str(Rep(97, 256)), Sym(<<97,58,98>>), Bin(<<0,255>>)}
Seqs(S, n) == UNION { [1..k -> S] : k \in 0..n }
\* compound bodies on both sides of the 8-bit / 32-bit size boundary (items total 253 .. 256 bytes)
Lists1 == { L(s) : s \in Seqs(Small, 2) } \cup { L(Rep(UI(1), 255)), L(Rep(Null, 256)), L(Rep(Str(<<97>>), 127)), L(Rep(Str(<<97>>), 128)) }
          \cup { L(<<Bin(Rep(9, n))>>) : n \in 250..254 } \cup { L(<<UI(1), Bin(Rep(9, n))>>) : n \in 249..252 }
MapKeys == {Sym(<<97>>), Str(<<107>>), TS(5), Null, UI(1), UL(300), Bin(<<1>>), [t |-> "uuid", x |-> Rep(7, 16)], [t |-> "char", x |-> <<0,0,0,65>>]}
Maps1 == { M(<<k, v>>) : k \in MapKeys, v \in Small } \cup { M(<<>>), M(<<Sym(<<97>>), UI(1), Sym(<<98>>), Str(<<120>>), TS(5), [t |-> "long", x |-> Z(7) \o <<7>>]>>) }
           \cup { M(<<TS(5), UI(1), Str(<<107>>), [t |-> "long", x |-> Z(7) \o <<7>>]>>) }
           \cup { M(<<Sym(<<107>>), Bin(Rep(9, n))>>) : n \in 247..252 }
           \* a key on either side of the 8-bit / 32-bit width boundary followed by a value of the sibling type (symbol then string, string then symbol)
           \cup { M(<<Sym(Rep(120, n)), Str(<<118>>)>>) : n \in 254..256 } \cup { M(<<Str(Rep(120, n)), Sym(<<118>>)>>) : n \in 254..256 }
           \cup { M(<<Sym(Rep(120, 256)), Str(<<>>), Sym(<<97>>), Str(<<98>>)>>) } \cup { M(<<Str(Rep(107, n)), Null>>) : n \in 249..253 }

DescCtor == [code |-> 0, d |-> UL(5), inner |-> [code |-> 113]]
ArrCtors == { [code |-> 64], [code |-> 86], [code |-> 65], [code |-> 112], [code |-> 82], [code |-> 67], [code |-> 177], [code |-> 161], [code |-> 179], [code |-> 163],
              [code |-> 129], [code |-> 85], [code |-> 128], [code |-> 80], [code |-> 130], [code |-> 115], [code |-> 131], [code |-> 152], [code |-> 160], [code |-> 176],
              [code |-> 192], [code |-> 208], [code |-> 193], [code |-> 224], [code |-> 69], DescCtor }
ElemOf(c) == CASE c.code = 64 -> {Null}
               [] c.code = 86 -> {B(TRUE), B(FALSE)}
               [] c.code = 65 -> {B(TRUE)}
               [] c.code = 112 -> {UI(0), UI(300)}
               [] c.code = 82 -> {UI(0), UI(200)}
               [] c.code = 67 -> {UI(0)}
               [] c.code \in {177, 161} -> {Str(<<195,169>>), Str(<<97,98>>), Str(<<>>)}
               [] c.code \in {179, 163} -> {Sym(<<97>>), Sym(<<98,99>>)}
               [] c.code = 129 -> {[t |-> "long", x |-> FF(8)], [t |-> "long", x |-> Z(7) \o <<1>>]}
               [] c.code = 85 -> {[t |-> "long", x |-> FF(8)], [t |-> "long", x |-> Z(7) \o <<1>>]}
               [] c.code = 128 -> {UL(0), UL(70000)}
               [] c.code = 80 -> {[t |-> "ubyte", x |-> <<1>>], [t |-> "ubyte", x |-> <<255>>]}
               [] c.code = 130 -> {[t |-> "double", x |-> <<63,240>> \o Z(6)]}
               [] c.code = 115 -> {[t |-> "char", x |-> <<0,0,0,65>>], [t |-> "char", x |-> <<0,1,244,0>>]}
               [] c.code = 131 -> {TS(5)}
               [] c.code = 152 -> {[t |-> "uuid", x |-> Rep(7, 16)]}
               [] c.code \in {160, 176} -> {Bin(<<>>), Bin(<<1,2>>)}
               [] c.code \in {192, 208} -> {L(<<UI(1), Str(<<97>>)>>), L(<<Null>>)}
               [] c.code = 69 -> {L(<<>>)}
               [] c.code = 193 -> {M(<<Sym(<<97>>), UI(1)>>)}
               [] c.code = 224 -> {[t |-> "array", c |-> [code |-> 82], x |-> <<UI(1), UI(2)>>]}
               [] c.code = 0 -> {[t |-> "described", d |-> c.d, x |-> [t |-> "int", x |-> I4(1)]], [t |-> "described", d |-> c.d, x |-> [t |-> "int", x |-> I4(300)]]}
\* an empty array carries no information about its element type: only one empty array in the value space
Arrays == (UNION { { [t |-> "array", c |-> cc, x |-> s] : s \in Seqs(ElemOf(cc), 2) \ {<<>>} } : cc \in ArrCtors })
          \cup { [t |-> "array", c |-> [code |-> 64], x |-> <<>>], [t |-> "array", c |-> [code |-> 64], x |-> <<Null, Null, Null>>],
                 [t |-> "array", c |-> [code |-> 65], x |-> Rep(B(TRUE), 4)], [t |-> "array", c |-> [code |-> 67], x |-> Rep(UI(0), 5)],
                 [t |-> "array", c |-> [code |-> 82], x |-> Rep(UI(3), 255)], [t |-> "array", c |-> [code |-> 82], x |-> Rep(UI(3), 256)],
                 [t |-> "array", c |-> [code |-> 163], x |-> Rep(Sym(<<97>>), 126)], [t |-> "array", c |-> [code |-> 163], x |-> Rep(Sym(<<97>>), 127)] }
          \cup { [t |-> "array", c |-> [code |-> 80], x |-> Rep([t |-> "ubyte", x |-> <<7>>], n)] : n \in 251..254 }
          \cup { [t |-> "array", c |-> [code |-> 163], x |-> Rep(Sym(<<97, 98>>), n)] : n \in 49..52 }
Described == { [t |-> "described", d |-> d, x |-> v] : d \in {UL(20), UL(70000), Sym(<<120,58,121>>)}, v \in Small \cup {L(<<>>), L(<<UI(1)>>)} }
             \cup { [t |-> "described", d |-> Sym(Rep(120, n)), x |-> v] : n \in {255, 256}, v \in {Str(<<97>>), Str(<<>>), Sym(<<97>>), UI(1)} }
Level1 == Scalars \cup Lists1 \cup Maps1 \cup Arrays \cup Described
\* (the second element is also a list: whatever state the array, described value or map before it left behind must not change how a list is written)
Nested2 == { L(<<a, b>>) : a \in Arrays \cup Described \cup {M(<<Sym(<<97>>), UI(1)>>), L(<<L(<<>>)>>)}, b \in {Str(<<97>>), Null, L(<<UI(1), Str(<<97>>)>>)} }
Nested3 == IF Deep THEN { M(<<Sym(<<107>>), a>>) : a \in Nested2 } \cup { [t |-> "described", d |-> UL(9), x |-> a] : a \in Nested2 } ELSE
           { M(<<Sym(<<107>>), L(<<[t |-> "array", c |-> [code |-> 163], x |-> <<Sym(<<97>>)>>], Null>>)>>),
             [t |-> "described", d |-> UL(9), x |-> L(<<[t |-> "described", d |-> Sym(<<120>>), x |-> L(<<UI(1)>>)], Str(<<97>>)>>)] }
Vals == Level1 \cup Nested2 \cup Nested3

\* ---- typed items ----
TypedCases == UNION { { [c |-> c, f |-> fs] : fs \in Cases(c) } : c \in DOMAIN Schema }

\* ---- messages: sequences of sections ----
Sec(code, v) == Desc(code, v)
Hdr == Sec(112, L(<<B(TRUE), UB(7)>>))
DA == Sec(113, M(<<Sym(<<120,45,97>>), UI(1)>>))
MA == Sec(114, M(<<Sym(<<120,45,98>>), Str(<<118>>)>>))
Props == Sec(115, L(<<Str(<<109,105,100>>), Null, Str(<<113>>)>>))
AP == Sec(116, M(<<Str(<<107>>), UI(5), Str(<<108>>), Str(<<118>>)>>))
Foot == Sec(120, M(<<Sym(<<120,45,102>>), Bin(<<1>>)>>))
Bodies == { <<Sec(119, Str(<<104,105>>))>>, <<Sec(119, Null)>>, <<Sec(119, L(<<UI(1), Str(<<97>>)>>))>>, <<Sec(119, M(<<Sym(<<97>>), UI(1)>>))>>,
            <<Sec(117, Bin(<<1,2,3>>))>>, <<Sec(117, Bin(<<>>))>>, <<Sec(117, Bin(<<1>>)), Sec(117, Bin(Rep(9, 300)))>>,
            <<Sec(118, L(<<UI(1), UI(2)>>))>>, <<Sec(118, L(<<>>)), Sec(118, L(<<Str(<<97>>)>>))>> }
OptPre == { s \in SUBSET {1, 2, 3, 4, 5} : Deep \/ Cardinality(s) \in {0, 1, 5} \/ s = {1, 4} \/ s = {2, 3, 5} }
PreSeq(s) == (IF 1 \in s THEN <<Hdr>> ELSE <<>>) \o (IF 2 \in s THEN <<DA>> ELSE <<>>) \o (IF 3 \in s THEN <<MA>> ELSE <<>>)
             \o (IF 4 \in s THEN <<Props>> ELSE <<>>) \o (IF 5 \in s THEN <<AP>> ELSE <<>>)
\* sections that are present but empty (an empty map / list is not the same message as an absent section)
EmptySec(i) == CASE i = 1 -> Sec(112, L(<<>>)) [] i = 2 -> Sec(113, M(<<>>)) [] i = 3 -> Sec(114, M(<<>>)) [] i = 4 -> Sec(115, L(<<>>)) [] i = 5 -> Sec(116, M(<<>>)) [] OTHER -> Sec(120, M(<<>>))
FullSec(i) == CASE i = 1 -> Hdr [] i = 2 -> DA [] i = 3 -> MA [] i = 4 -> Props [] i = 5 -> AP [] OTHER -> Foot
RECURSIVE SecSeq(_, _, _)
SecSeq(i, s, e) == IF i > 5 THEN <<>> ELSE (IF i \in e THEN <<EmptySec(i)>> ELSE IF i \in s THEN <<FullSec(i)>> ELSE <<>>) \o SecSeq(i + 1, s, e)
EmptyChoices == { e \in SUBSET {1, 2, 3, 4, 5, 6} : Cardinality(e) = 1 \/ e = {2, 3, 5, 6} \/ (Deep /\ Cardinality(e) <= 3) }
MessagesE == { SecSeq(1, s, e) \o b \o (IF 6 \in e THEN <<EmptySec(6)>> ELSE ft) : s \in {{}, {1, 2, 3, 4, 5}}, e \in EmptyChoices,
               b \in {<<Sec(119, Str(<<104,105>>))>>, <<Sec(117, Bin(<<1,2,3>>))>>}, ft \in {<<>>, <<Foot>>} }
\* application-properties whose values are described values (a described scalar, a described list, a described map): simple values by 3.2.5
\* as the library reads it (`SimpleValue::Described`), and what the encoder accepts the decoder has to take back
AP2 == Sec(116, M(<<Str(<<107>>), [t |-> "described", d |-> Sym(<<120,58,121>>), x |-> Str(<<118>>)],
                    Str(<<108>>), [t |-> "described", d |-> UL(9), x |-> L(<<UI(1), Str(<<97>>)>>)],
                    Str(<<109>>), [t |-> "described", d |-> Sym(<<122>>), x |-> M(<<Sym(<<97>>), UI(1)>>)]>>))
MessagesAP == { <<AP2>> \o b : b \in {<<Sec(119, Str(<<104,105>>))>>, <<Sec(117, Bin(<<1,2,3>>))>>} }
Messages == { PreSeq(s) \o b \o ft : s \in OptPre, b \in Bodies, ft \in {<<>>, <<Foot>>} } \cup MessagesE \cup MessagesAP

-----------------------------------------------------------------------------
VARIABLE z
Init == z = [k |-> "start"]
Next == /\ z.k = "start"
        /\ \/ \E v \in Vals : z' = [k |-> "value", v |-> v]
           \/ \E tc \in TypedCases : z' = [k |-> "typed", c |-> tc.c, f |-> tc.f]
           \/ \E m \in Messages : z' = [k |-> "message", s |-> m]
Spec == Init /\ [][Next]_z

ModeSeq == <<"N", "W", "NW", "WN">>
TypedEncs(c, f) == SetToSeq({ Enc(form, m) : form \in Forms(c, f), m \in Modes })
MsgEnc(s, m) == EncAll(s, m)

\* the oracle judges itself first
SelfValue == z.k = "value" => \A m \in Modes : RoundTrip(z.v, m) /\ TailIndependent(z.v, m, <<0, 64, 255>>)
SelfTyped == z.k = "typed" => \A form \in Forms(z.c, z.f), m \in Modes :
                LET r == Dec(Enc(form, m)) IN r.ok /\ r.n = Len(Enc(form, m)) /\ Norm(r.v) = Norm(Desc(z.c, L(z.f)))
SelfMsg == z.k = "message" => \A m \in Modes : LET r == DecMany(MsgEnc(z.s, m), 1, <<>>) IN r.ok /\ r.v = z.s

\* the schema itself, for the driver's field-position projection (names and order come from the specification)
EmitSchema == z.k # "start" \/ PrintT(<<"SCHEMA", ToJson([c \in DOMAIN Schema |-> [name |-> Schema[c].name,
                  f |-> [i \in DOMAIN Schema[c].f |-> [n |-> Schema[c].f[i].n, hasdef |-> Schema[c].f[i].def.t # "nodef", mult |-> Schema[c].f[i].mult]]]])>>)
Emit == CASE z.k = "value" -> PrintT(<<"CASE", ToJson([k |-> "value", v |-> z.v, encs |-> [i \in 1..4 |-> Enc(z.v, ModeSeq[i])]])>>)
          [] z.k = "typed" -> PrintT(<<"CASE", ToJson([k |-> "typed", ty |-> Schema[z.c].name, v |-> Desc(z.c, L(z.f)), encs |-> TypedEncs(z.c, z.f)])>>)
          [] z.k = "message" -> PrintT(<<"CASE", ToJson([k |-> "message", v |-> L(z.s), encs |-> [i \in 1..4 |-> MsgEnc(z.s, ModeSeq[i])]])>>)
          [] OTHER -> TRUE
=============================================================================
