SPECIFICATION Spec
CONSTANT MaxShort = 2
CONSTANT Deep = FALSE
INVARIANT Emit
CHECK_DEADLOCK FALSE
