---------------------------- MODULE MC_Decode ----------------------------
(* Gen for C04: untrusted inputs for the decoders.  One TLC state per input.
   (a) every byte string up to length MaxShort over an alphabet holding every format code
       and the interesting size / count bytes;
   (b) corruptions of valid encodings (seeds from the C03 value space, all four width modes):
       truncation at every offset, every byte replaced by 0, 1, its neighbours, 127, 128, 255;
   (c) parametric families (deep nesting, huge declared sizes) emitted as descriptors that the
       harness expands -- too deep for a recursive operator, so only the monitor clauses of
       C04 (no panic / abort / hang / disproportionate allocation) are decided for them.
   The verdict of the reference decoder is NOT printed here: CodecTrace-style validation
   (DecodeTrace.tla) recomputes it from the bytes the harness logged. *)
EXTENDS Composite, Json, SequencesExt, FiniteSetsExt
CONSTANTS MaxShort, Deep

Codes == {0, 64, 65, 66, 67, 68, 69, 80, 81, 82, 83, 84, 85, 86, 96, 97, 112, 113, 114, 115, 116, 128, 129, 130, 131, 132, 148, 152,
          160, 161, 163, 176, 177, 179, 192, 193, 208, 209, 224, 240}
Alphabet == Codes \cup {1, 2, 3, 127, 254, 255}
Short == UNION { [1..k -> Alphabet] : k \in 0..MaxShort }

Seeds == { Null, B(TRUE), UI(0), UI(200), UI(70000), UL(0), UL(9), [t |-> "long", x |-> Rep(255, 8)], [t |-> "ubyte", x |-> <<7>>],
           [t |-> "char", x |-> <<0,1,244,0>>], TS(5), [t |-> "uuid", x |-> Rep(7, 16)], [t |-> "dec128", x |-> Rep(1, 16)],
           Str(<<>>), Str(<<195,169>>), Str(<<97,98,99>>), Sym(<<97,58,98>>), Bin(<<0,255>>),
           L(<<>>), L(<<UI(1), Str(<<97>>)>>), L(<<L(<<Null>>), M(<<Sym(<<97>>), UI(1)>>)>>),
           M(<<Sym(<<97>>), UI(1), Str(<<98>>), Null>>),
           [t |-> "array", c |-> [code |-> 163], x |-> <<Sym(<<97>>), Sym(<<98,99>>)>>],
           [t |-> "array", c |-> [code |-> 82], x |-> <<UI(1), UI(2), UI(3)>>],
           [t |-> "array", c |-> [code |-> 64], x |-> <<Null, Null>>],
           [t |-> "array", c |-> [code |-> 64], x |-> <<>>],
           [t |-> "described", d |-> UL(20), x |-> L(<<UI(1), Null, Bin(<<1>>)>>)],
           [t |-> "described", d |-> Sym(<<120,58,121>>), x |-> Str(<<97>>)],
           Desc(16, L(<<Str(<<99>>), Null, UI(512), US(7)>>)),                                   \* open
           Desc(17, L(<<Null, UI(1), UI(2), UI(3)>>)),                                            \* begin
           Desc(18, L(<<Str(<<108>>), UI(0), B(TRUE), UB(1), UB(0), Desc(40, L(<<Str(<<113>>)>>)), Desc(41, L(<<Str(<<113>>)>>))>>)),   \* attach
           Desc(19, L(<<UI(1), UI(2), UI(3), UI(4), UI(0), UI(5), UI(6)>>)),                      \* flow
           Desc(20, L(<<UI(0), UI(1), Bin(<<1,2>>), UI(0), B(FALSE), B(TRUE)>>)),                  \* transfer
           Desc(21, L(<<B(TRUE), UI(1), UI(2), B(TRUE), Desc(36, L(<<>>))>>)),                     \* disposition
           Desc(22, L(<<UI(0), B(TRUE), ErrV(2)>>)),                                               \* detach
           Desc(24, L(<<ErrV(1)>>)),                                                               \* close
           Desc(64, L(<<SymArr(<<Sym(<<80,76,65,73,78>>)>>)>>)),                                   \* sasl-mechanisms
           Desc(65, L(<<Sym(<<80,76,65,73,78>>), Bin(<<0,117,0,112>>)>>)),                         \* sasl-init
           Desc(68, L(<<UB(0)>>)),                                                                 \* sasl-outcome
           Desc(112, L(<<B(TRUE), UB(7)>>)), Desc(115, L(<<Str(<<109>>), Null, Str(<<113>>)>>)),
           Desc(117, Bin(<<1,2,3>>)), Desc(119, Str(<<104,105>>)), Desc(118, L(<<UI(1)>>)) }
SeedEncs == { Enc(v, m) : v \in Seeds, m \in (IF Deep THEN Modes ELSE {"N", "W"}) }
Repl(x) == {0, 1, 127, 128, 255, (x + 1) % 256, (x + 255) % 256}
Mutants(e) == { SubSeq(e, 1, k) : k \in 0..(Len(e) - 1) }
              \cup UNION { { [e EXCEPT ![i] = r] : r \in Repl(e[i]) \ {e[i]} } : i \in DOMAIN e }
              \cup { e \o <<t>> : t \in {0, 64, 255} }
\* messages: a sequence of sections; corrupt the concatenation
MsgSeeds == { EncAll(<<Desc(112, L(<<B(TRUE)>>)), Desc(115, L(<<Str(<<109>>)>>)), Desc(119, Str(<<104,105>>))>>, "N"),
              EncAll(<<Desc(114, M(<<Sym(<<120>>), UI(1)>>)), Desc(117, Bin(<<1,2>>)), Desc(117, Bin(<<3>>)), Desc(120, M(<<>>))>>, "N") }

Families == { [fam |-> f, depth |-> d] : f \in {"list8", "list32", "map8", "array8", "array32", "described", "described-desc",
                                                   "described-sym", "described-ulong", "described-list", "mixed", "amqp-value-nest"},
                                            d \in (IF Deep THEN {8, 64, 200, 500, 1000, 3000, 10000, 30000, 200000} ELSE {8, 64, 500, 1000, 3000, 30000}) }
            \cup { [fam |-> f, depth |-> d] : f \in {"bin32-huge", "str32-huge", "sym32-huge", "list32-hugecount", "map32-hugecount", "array32-hugecount", "array8-zerowidth"},
                                              d \in {1, 2} }

VARIABLE z
Init == z = [k |-> "start"]
Next == /\ z.k = "start"
        /\ \/ \E s \in Short : z' = [k |-> "bytes", src |-> "short", b |-> s]
           \/ \E e \in SeedEncs : \E mu \in Mutants(e) \cup {e} : z' = [k |-> "bytes", src |-> "mutant", b |-> mu]
           \/ \E e \in MsgSeeds : \E mu \in Mutants(e) \cup {e} : z' = [k |-> "bytes", src |-> "msg", b |-> mu]
           \/ \E f \in Families : z' = [k |-> "family", src |-> f.fam, b |-> <<f.depth>>]
Spec == Init /\ [][Next]_z
Emit == z.k = "start" \/ PrintT(<<"CASE", ToJson(z)>>)
=============================================================================
