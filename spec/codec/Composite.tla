---------------------------- MODULE Composite ----------------------------
(* Schema of the AMQP 1.0 composite types (transport 2.7/2.8, messaging 3.2-3.5,
   transactions 4.5, security 5.3), written from the specification's type tables.
   A composite is a described list; trailing null fields may be elided; a null in a
   defaulted field means the default; a "multiple" field is null, a single value or an
   array.  `Norm` maps every spec-equivalent form to one canonical abstract value. *)
EXTENDS AmqpCodec

Null == [t |-> "null"]
B(x) == [t |-> "bool", b |-> x]
UB(n) == [t |-> "ubyte", x |-> <<n>>]
US(n) == [t |-> "ushort", x |-> <<n \div 256, n % 256>>]
UI(n) == [t |-> "uint", x |-> U32(n)]
UIMax == [t |-> "uint", x |-> <<255, 255, 255, 255>>]
UL(n) == [t |-> "ulong", x |-> Rep(0, 4) \o U32(n)]
Str(s) == [t |-> "string", x |-> s]
Sym(s) == [t |-> "symbol", x |-> s]
Bin(s) == [t |-> "binary", x |-> s]
TS(n) == [t |-> "timestamp", x |-> Rep(0, 4) \o U32(n)]
L(s) == [t |-> "list", x |-> s]
M(s) == [t |-> "map", x |-> s]
SymArr(s) == [t |-> "array", c |-> [code |-> 163], x |-> s]
Desc(code, v) == [t |-> "described", d |-> UL(code), x |-> v]
NoDef == [t |-> "nodef"]

\* field: name, type tag (selects the palette), default (or NoDef), multiple, mandatory
F(n, ty) == [n |-> n, ty |-> ty, def |-> NoDef, mult |-> FALSE, mand |-> FALSE]
FM(n, ty) == [n |-> n, ty |-> ty, def |-> NoDef, mult |-> FALSE, mand |-> TRUE]
FD(n, ty, d) == [n |-> n, ty |-> ty, def |-> d, mult |-> FALSE, mand |-> FALSE]
FX(n) == [n |-> n, ty |-> "symbols", def |-> NoDef, mult |-> TRUE, mand |-> FALSE]

Schema == [c \in {16,17,18,19,20,21,22,23,24,29,35,36,37,38,39,40,41,48,49,50,51,52,64,65,66,67,68,112,115} |->
  CASE c = 16 -> [name |-> "open", f |-> << FM("container-id", "string"), F("hostname", "string"), FD("max-frame-size", "uint", UIMax),
                    FD("channel-max", "ushort", US(65535)), F("idle-time-out", "uint"), FX("outgoing-locales"), FX("incoming-locales"),
                    FX("offered-capabilities"), FX("desired-capabilities"), F("properties", "fields") >>]
    [] c = 17 -> [name |-> "begin", f |-> << F("remote-channel", "ushort"), FM("next-outgoing-id", "uint"), FM("incoming-window", "uint"),
                    FM("outgoing-window", "uint"), FD("handle-max", "uint", UIMax), FX("offered-capabilities"), FX("desired-capabilities"),
                    F("properties", "fields") >>]
    [] c = 18 -> [name |-> "attach", f |-> << FM("name", "string"), FM("handle", "uint"), FM("role", "bool"), FD("snd-settle-mode", "sndmode", UB(2)),
                    FD("rcv-settle-mode", "rcvmode", UB(0)), F("source", "source"), F("target", "target"), F("unsettled", "unsettled"),
                    FD("incomplete-unsettled", "bool", B(FALSE)), F("initial-delivery-count", "uint"), F("max-message-size", "ulong"),
                    FX("offered-capabilities"), FX("desired-capabilities"), F("properties", "fields") >>]
    [] c = 19 -> [name |-> "flow", f |-> << F("next-incoming-id", "uint"), FM("incoming-window", "uint"), FM("next-outgoing-id", "uint"),
                    FM("outgoing-window", "uint"), F("handle", "uint"), F("delivery-count", "uint"), F("link-credit", "uint"), F("available", "uint"),
                    FD("drain", "bool", B(FALSE)), FD("echo", "bool", B(FALSE)), F("properties", "fields") >>]
    [] c = 20 -> [name |-> "transfer", f |-> << FM("handle", "uint"), F("delivery-id", "uint"), F("delivery-tag", "binary"), F("message-format", "uint"),
                    F("settled", "bool"), FD("more", "bool", B(FALSE)), F("rcv-settle-mode", "rcvmode"), F("state", "dstate"),
                    FD("resume", "bool", B(FALSE)), FD("aborted", "bool", B(FALSE)), FD("batchable", "bool", B(FALSE)) >>]
    [] c = 21 -> [name |-> "disposition", f |-> << FM("role", "bool"), FM("first", "uint"), F("last", "uint"), FD("settled", "bool", B(FALSE)),
                    F("state", "dstate"), FD("batchable", "bool", B(FALSE)) >>]
    [] c = 22 -> [name |-> "detach", f |-> << FM("handle", "uint"), FD("closed", "bool", B(FALSE)), F("error", "error") >>]
    [] c = 23 -> [name |-> "end", f |-> << F("error", "error") >>]
    [] c = 24 -> [name |-> "close", f |-> << F("error", "error") >>]
    [] c = 29 -> [name |-> "error", f |-> << FM("condition", "condition"), F("description", "string"), F("info", "fields") >>]
    [] c = 35 -> [name |-> "received", f |-> << FM("section-number", "uint"), FM("section-offset", "ulong") >>]
    [] c = 36 -> [name |-> "accepted", f |-> << >>]
    [] c = 37 -> [name |-> "rejected", f |-> << F("error", "error") >>]
    [] c = 38 -> [name |-> "released", f |-> << >>]
    [] c = 39 -> [name |-> "modified", f |-> << F("delivery-failed", "bool"), F("undeliverable-here", "bool"), F("message-annotations", "fields") >>]
    [] c = 40 -> [name |-> "source", f |-> << F("address", "string"), FD("durable", "durable", UI(0)), FD("expiry-policy", "expiry", Sym(<<115,101,115,115,105,111,110,45,101,110,100>>)),
                    FD("timeout", "uint", UI(0)), FD("dynamic", "bool", B(FALSE)), F("dynamic-node-properties", "fields"), F("distribution-mode", "distmode"),
                    F("filter", "filter"), F("default-outcome", "outcome"), FX("outcomes"), FX("capabilities") >>]
    [] c = 41 -> [name |-> "target", f |-> << F("address", "string"), FD("durable", "durable", UI(0)), FD("expiry-policy", "expiry", Sym(<<115,101,115,115,105,111,110,45,101,110,100>>)),
                    FD("timeout", "uint", UI(0)), FD("dynamic", "bool", B(FALSE)), F("dynamic-node-properties", "fields"), FX("capabilities") >>]
    [] c = 48 -> [name |-> "coordinator", f |-> << [n |-> "capabilities", ty |-> "txncaps", def |-> NoDef, mult |-> TRUE, mand |-> FALSE] >>]
    [] c = 49 -> [name |-> "declare", f |-> << F("global-id", "nullonly") >>]
    [] c = 50 -> [name |-> "discharge", f |-> << FM("txn-id", "binary"), F("fail", "bool") >>]
    [] c = 51 -> [name |-> "declared", f |-> << FM("txn-id", "binary") >>]
    [] c = 52 -> [name |-> "transactional-state", f |-> << FM("txn-id", "binary"), F("outcome", "outcome") >>]
    [] c = 64 -> [name |-> "sasl-mechanisms", f |-> << [n |-> "sasl-server-mechanisms", ty |-> "symbols", def |-> NoDef, mult |-> TRUE, mand |-> TRUE] >>]
    [] c = 65 -> [name |-> "sasl-init", f |-> << FM("mechanism", "symbol"), F("initial-response", "binary"), F("hostname", "string") >>]
    [] c = 66 -> [name |-> "sasl-challenge", f |-> << FM("challenge", "binary") >>]
    [] c = 67 -> [name |-> "sasl-response", f |-> << FM("response", "binary") >>]
    [] c = 68 -> [name |-> "sasl-outcome", f |-> << FM("code", "saslcode"), F("additional-data", "binary") >>]
    [] c = 112 -> [name |-> "header", f |-> << FD("durable", "bool", B(FALSE)), FD("priority", "ubyte", UB(4)), F("ttl", "uint"),
                    FD("first-acquirer", "bool", B(FALSE)), FD("delivery-count", "uint", UI(0)) >>]
    [] c = 115 -> [name |-> "properties", f |-> << F("message-id", "msgid"), F("user-id", "binary"), F("to", "string"), F("subject", "string"),
                    F("reply-to", "string"), F("correlation-id", "msgid"), F("content-type", "symbol"), F("content-encoding", "symbol"),
                    F("absolute-expiry-time", "timestamp"), F("creation-time", "timestamp"), F("group-id", "string"),
                    F("group-sequence", "uint"), F("reply-to-group-id", "string") >>] ]

\* descriptor names "amqp:<name>:list" as byte tuples (ASCII), built from the name
Ascii == [ ch \in {"a","b","c","d","e","f","g","h","i","j","k","l","m","n","o","p","q","r","s","t","u","v","w","x","y","z","-",":"} |->
  CASE ch = "a" -> 97 [] ch = "b" -> 98 [] ch = "c" -> 99 [] ch = "d" -> 100 [] ch = "e" -> 101 [] ch = "f" -> 102 [] ch = "g" -> 103
    [] ch = "h" -> 104 [] ch = "i" -> 105 [] ch = "j" -> 106 [] ch = "k" -> 107 [] ch = "l" -> 108 [] ch = "m" -> 109 [] ch = "n" -> 110
    [] ch = "o" -> 111 [] ch = "p" -> 112 [] ch = "q" -> 113 [] ch = "r" -> 114 [] ch = "s" -> 115 [] ch = "t" -> 116 [] ch = "u" -> 117
    [] ch = "v" -> 118 [] ch = "w" -> 119 [] ch = "x" -> 120 [] ch = "y" -> 121 [] ch = "z" -> 122 [] ch = "-" -> 45 [] ch = ":" -> 58 ]
\* TLC has no string -> chars operator, so the symbolic names are tabulated
DescName == [c \in DOMAIN Schema |->
  CASE c = 16 -> <<"a","m","q","p",":","o","p","e","n",":","l","i","s","t">>
    [] c = 17 -> <<"a","m","q","p",":","b","e","g","i","n",":","l","i","s","t">>
    [] c = 18 -> <<"a","m","q","p",":","a","t","t","a","c","h",":","l","i","s","t">>
    [] c = 19 -> <<"a","m","q","p",":","f","l","o","w",":","l","i","s","t">>
    [] c = 20 -> <<"a","m","q","p",":","t","r","a","n","s","f","e","r",":","l","i","s","t">>
    [] c = 21 -> <<"a","m","q","p",":","d","i","s","p","o","s","i","t","i","o","n",":","l","i","s","t">>
    [] c = 22 -> <<"a","m","q","p",":","d","e","t","a","c","h",":","l","i","s","t">>
    [] c = 23 -> <<"a","m","q","p",":","e","n","d",":","l","i","s","t">>
    [] c = 24 -> <<"a","m","q","p",":","c","l","o","s","e",":","l","i","s","t">>
    [] c = 29 -> <<"a","m","q","p",":","e","r","r","o","r",":","l","i","s","t">>
    [] c = 35 -> <<"a","m","q","p",":","r","e","c","e","i","v","e","d",":","l","i","s","t">>
    [] c = 36 -> <<"a","m","q","p",":","a","c","c","e","p","t","e","d",":","l","i","s","t">>
    [] c = 37 -> <<"a","m","q","p",":","r","e","j","e","c","t","e","d",":","l","i","s","t">>
    [] c = 38 -> <<"a","m","q","p",":","r","e","l","e","a","s","e","d",":","l","i","s","t">>
    [] c = 39 -> <<"a","m","q","p",":","m","o","d","i","f","i","e","d",":","l","i","s","t">>
    [] c = 40 -> <<"a","m","q","p",":","s","o","u","r","c","e",":","l","i","s","t">>
    [] c = 41 -> <<"a","m","q","p",":","t","a","r","g","e","t",":","l","i","s","t">>
    [] c = 48 -> <<"a","m","q","p",":","c","o","o","r","d","i","n","a","t","o","r",":","l","i","s","t">>
    [] c = 49 -> <<"a","m","q","p",":","d","e","c","l","a","r","e",":","l","i","s","t">>
    [] c = 50 -> <<"a","m","q","p",":","d","i","s","c","h","a","r","g","e",":","l","i","s","t">>
    [] c = 51 -> <<"a","m","q","p",":","d","e","c","l","a","r","e","d",":","l","i","s","t">>
    [] c = 52 -> <<"a","m","q","p",":","t","r","a","n","s","a","c","t","i","o","n","a","l","-","s","t","a","t","e",":","l","i","s","t">>
    [] c = 64 -> <<"a","m","q","p",":","s","a","s","l","-","m","e","c","h","a","n","i","s","m","s",":","l","i","s","t">>
    [] c = 65 -> <<"a","m","q","p",":","s","a","s","l","-","i","n","i","t",":","l","i","s","t">>
    [] c = 66 -> <<"a","m","q","p",":","s","a","s","l","-","c","h","a","l","l","e","n","g","e",":","l","i","s","t">>
    [] c = 67 -> <<"a","m","q","p",":","s","a","s","l","-","r","e","s","p","o","n","s","e",":","l","i","s","t">>
    [] c = 68 -> <<"a","m","q","p",":","s","a","s","l","-","o","u","t","c","o","m","e",":","l","i","s","t">>
    [] c = 112 -> <<"a","m","q","p",":","h","e","a","d","e","r",":","l","i","s","t">>
    [] c = 115 -> <<"a","m","q","p",":","p","r","o","p","e","r","t","i","e","s",":","l","i","s","t">> ]
NameBytes(c) == [i \in DOMAIN DescName[c] |-> Ascii[DescName[c][i]]]
CodeOfName(bytes) == IF \E c \in DOMAIN Schema : NameBytes(c) = bytes THEN CHOOSE c \in DOMAIN Schema : NameBytes(c) = bytes ELSE 0

\* numeric code of a described value's descriptor if it denotes a known composite, else 0
CompCode(d) == IF d.t = "ulong" /\ AllZero(SubSeq(d.x, 1, 7)) /\ d.x[8] \in DOMAIN Schema THEN d.x[8]
               ELSE IF d.t = "symbol" THEN CodeOfName(d.x) ELSE 0

-----------------------------------------------------------------------------
(* Canonical form *)
RECURSIVE Norm(_)
NormAll(s) == [i \in DOMAIN s |-> Norm(s[i])]
NormField(fs, i, items) ==
  LET raw == IF i <= Len(items) THEN items[i] ELSE Null
      v1 == IF raw.t = "null" /\ fs[i].def.t # "nodef" THEN fs[i].def ELSE raw
      v2 == IF fs[i].mult THEN (IF v1.t = "null" THEN v1
                                ELSE IF v1.t = "array" THEN (IF Len(v1.x) = 0 THEN Null ELSE v1)
                                ELSE [t |-> "array", c |-> [code |-> 163], x |-> <<v1>>]) ELSE v1
  IN Norm(v2)
Norm(v) ==
  CASE v.t = "described" ->
         LET c == CompCode(v.d) IN
         IF c # 0 /\ v.x.t = "list" /\ Len(v.x.x) <= Len(Schema[c].f)
         THEN [t |-> "described", d |-> UL(c), x |-> [t |-> "list", x |-> [i \in 1..Len(Schema[c].f) |-> NormField(Schema[c].f, i, v.x.x)]]]
         ELSE [t |-> "described", d |-> Norm(v.d), x |-> Norm(v.x)]
    [] v.t = "array" -> [t |-> "array", x |-> NormAll(v.x)]
    [] v.t \in {"list", "map"} -> [t |-> v.t, x |-> NormAll(v.x)]
    [] OTHER -> v

-----------------------------------------------------------------------------
(* Palettes: two distinct non-null values per field type *)
ErrV(k) == Desc(29, L(IF k = 1 THEN <<Sym(<<97,109,113,112,58,110,111,116,45,102,111,117,110,100>>)>>   \* amqp:not-found
                       ELSE <<Sym(<<120,58,121>>), Str(<<111,195,169>>), M(<<Sym(<<107>>), UI(7)>>)>>))
(* nested composites: value 1 has every field set (a `multiple` field in its array form followed by the fields after it, a described
   outcome inside a source inside an attach, ...), value 2 is sparse with a `multiple` field in its single-value form *)
RECURSIVE Pal(_, _)
FullOf(c) == Desc(c, L([i \in 1..Len(Schema[c].f) |-> Pal(Schema[c].f[i].ty, 1)]))
Pal(ty, k) ==
  CASE ty = "string" -> IF k = 1 THEN Str(<<97>>) ELSE Str(<<113,195,169,226,130,172>>)
    [] ty = "symbol" -> IF k = 1 THEN Sym(<<80,76,65,73,78>>) ELSE Sym(<<120,58,121>>)
    [] ty = "uint" -> IF k = 1 THEN UI(1) ELSE UI(70000)
    [] ty = "ushort" -> IF k = 1 THEN US(0) ELSE US(300)
    [] ty = "ubyte" -> IF k = 1 THEN UB(0) ELSE UB(9)
    [] ty = "ulong" -> IF k = 1 THEN UL(3) ELSE [t |-> "ulong", x |-> <<1,0,0,0,0,0,0,0>>]
    [] ty = "bool" -> B(k = 1)
    [] ty = "binary" -> IF k = 1 THEN Bin(<<>>) ELSE Bin(<<0, 255, 1>>)
    [] ty = "timestamp" -> TS(IF k = 1 THEN 0 ELSE 86400000)
    [] ty = "symbols" -> IF k = 1 THEN SymArr(<<Sym(<<97>>), Sym(<<98,99>>)>>) ELSE Sym(<<100>>)   \* array form and single-value form
    [] ty = "txncaps" -> IF k = 1 THEN SymArr(<<Sym(<<97,109,113,112,58,108,111,99,97,108,45,116,114,97,110,115,97,99,116,105,111,110,115>>),
                                                  Sym(<<97,109,113,112,58,109,117,108,116,105,45,116,120,110,115,45,112,101,114,45,115,115,110>>)>>)   \* amqp:local-transactions, amqp:multi-txns-per-ssn
                                    ELSE Sym(<<97,109,113,112,58,108,111,99,97,108,45,116,114,97,110,115,97,99,116,105,111,110,115>>)
    [] ty = "fields" -> IF k = 1 THEN M(<<Sym(<<107>>), UI(0)>>) ELSE M(<<Sym(<<107>>), Str(<<118>>), Sym(<<108>>), L(<<B(TRUE)>>)>>)
    [] ty = "error" -> ErrV(k)
    [] ty = "condition" -> IF k = 1 THEN Sym(<<97,109,113,112,58,110,111,116,45,102,111,117,110,100>>) ELSE Sym(<<120,58,121>>)
    [] ty = "sndmode" -> UB(IF k = 1 THEN 0 ELSE 1)
    [] ty = "rcvmode" -> UB(IF k = 1 THEN 1 ELSE 0)
    [] ty = "saslcode" -> UB(IF k = 1 THEN 0 ELSE 4)
    [] ty = "durable" -> UI(IF k = 1 THEN 1 ELSE 2)
    [] ty = "expiry" -> IF k = 1 THEN Sym(<<110,101,118,101,114>>) ELSE Sym(<<108,105,110,107,45,100,101,116,97,99,104>>)   \* never, link-detach
    [] ty = "distmode" -> IF k = 1 THEN Sym(<<109,111,118,101>>) ELSE Sym(<<99,111,112,121>>)
    [] ty = "filter" -> IF k = 1 THEN M(<<Sym(<<102>>), [t |-> "described", d |-> Sym(<<102,58,116>>), x |-> Str(<<97>>)]>>) ELSE M(<<>>)
    [] ty = "outcome" -> IF k = 1 THEN Desc(36, L(<<>>)) ELSE Desc(39, L(<<B(TRUE)>>))
    [] ty = "dstate" -> IF k = 1 THEN Desc(37, L(<<ErrV(2)>>)) ELSE Desc(35, L(<<UI(2), UL(9)>>))
    [] ty = "source" -> IF k = 1 THEN FullOf(40) ELSE Desc(40, L(<<Null, UI(1), Null, UI(5), B(TRUE), Null, Null, Null, Null, Sym(<<100>>)>>))
    [] ty = "target" -> IF k = 1 THEN FullOf(41) ELSE Desc(48, L(<<>>))
    [] ty = "unsettled" -> IF k = 1 THEN M(<<Bin(<<1>>), Desc(36, L(<<>>))>>) ELSE M(<<Bin(<<1>>), Null, Bin(<<2,3>>), Desc(38, L(<<>>))>>)
    [] ty = "msgid" -> IF k = 1 THEN UL(5) ELSE Str(<<105,100>>)
    [] ty = "nullonly" -> Null

\* Field-presence patterns for a composite with n fields: returns a set of field tuples
Fields(c) == Schema[c].f
NF(c) == Len(Fields(c))
Val(c, i, k) == Pal(Fields(c)[i].ty, k)
Cases(c) ==
  LET n == NF(c)
      mandOnly == [i \in 1..n |-> IF Fields(c)[i].mand THEN Val(c, i, 1) ELSE Null]
      all(k) == [i \in 1..n |-> Val(c, i, k)]
      alt == [i \in 1..n |-> Val(c, i, 1 + (i % 2))]
      single(j) == [i \in 1..n |-> IF Fields(c)[i].mand \/ i = j THEN Val(c, i, 2) ELSE Null]
      hole(j) == [i \in 1..n |-> IF ~Fields(c)[i].mand /\ i = j THEN Null ELSE Val(c, i, 1)]
  IN {mandOnly, all(1), all(2), alt} \cup {single(j) : j \in 1..n} \cup {hole(j) : j \in 1..n}

\* drop trailing nulls
RECURSIVE Elide(_)
Elide(s) == IF s = <<>> THEN s ELSE IF s[Len(s)].t = "null" THEN Elide(SubSeq(s, 1, Len(s) - 1)) ELSE s
\* the spec-valid abstract forms of one composite value: descriptor by code or by name, trailing nulls kept or elided
Forms(c, fields) == { [t |-> "described", d |-> d, x |-> L(fs)] : d \in {UL(c), Sym(NameBytes(c))}, fs \in {fields, Elide(fields)} }
=============================================================================
