SPECIFICATION Spec
CONSTANT Deep = TRUE
INVARIANT SelfValue
INVARIANT SelfTyped
INVARIANT SelfMsg
INVARIANT Emit
INVARIANT EmitSchema
CHECK_DEADLOCK FALSE
