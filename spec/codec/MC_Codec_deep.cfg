SPECIFICATION Spec
CONSTANT Deep = TRUE
INVARIANT SelfValue
INVARIANT SelfTyped
INVARIANT SelfMsg
INVARIANT Emit
CHECK_DEADLOCK FALSE
