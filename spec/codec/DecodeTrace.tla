---------------------------- MODULE DecodeTrace ----------------------------
(* Validate for C04: the harness logged, for every untrusted input, what each decoder entry
   point did (ok / err / panic / abort), whether re-encoding and decoding again reproduced the
   value, the peak allocation and the CPU time.  The reference decoder decides which inputs are
   valid encodings and what they denote; the clauses of C04 are evaluated per record. *)
EXTENDS Composite, Json, IOUtils
Rec == ndJsonDeserialize(IOEnv.TRACE)
VARIABLES l, nfail
vars == <<l, nfail>>
Check(name, cond, r) == IF cond THEN 0 ELSE IF PrintT(<<"FAIL", name, l, r.src>>) THEN 1 ELSE 1

\* "in proportion to the input": at most 2 KiB per input byte (a Value tree of one-byte elements costs about 1.4 KiB per
\* byte) plus 512 KiB (the io reader's 64 KiB chunk buffer and the harness's own bookkeeping stay far inside).  A reservation
\* driven by a count or length field of a short input does not.
AllocBound(r) == r.peak_kb <= 2 * r.n + 512
Judge(r) ==
    Check("C04_Total", \A i \in DOMAIN r.st : r.st[i] \in {"ok", "err"}, r)
  + Check("C04_Alloc", AllocBound(r), r)
  + Check("C04_Cpu", r.cpu_ms <= 2000, r)
  + Check("C04_Idempotent", \A i \in DOMAIN r.idem : r.idem[i] \in {"ok", "na"}, r)
  + Check("C04_AcceptsValid", r.k = "family" \/ LET d == Dec(r.b) IN (d.ok /\ d.n = Len(r.b)) => (r.st[1] = "ok" /\ Norm(r.v) = Norm(d.v)), r)
Init == l = 1 /\ nfail = 0
Next == l <= Len(Rec) /\ l' = l + 1 /\ nfail' = nfail + Judge(Rec[l])
Spec == Init /\ [][Next]_vars
Accepted == IF TLCGet("stats").diameter - 1 = Len(Rec) THEN PrintT(<<"VALIDATED", Len(Rec)>>)
            ELSE Print(<<"UNMATCHED", TLCGet("stats").diameter>>, FALSE)
=============================================================================
