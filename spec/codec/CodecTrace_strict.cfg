SPECIFICATION Spec
INVARIANT NoFailure
POSTCONDITION Accepted
CHECK_DEADLOCK FALSE
