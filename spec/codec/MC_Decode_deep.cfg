SPECIFICATION Spec
CONSTANT MaxShort = 3
CONSTANT Deep = TRUE
INVARIANT Emit
CHECK_DEADLOCK FALSE
