SPECIFICATION Spec
CONSTANT Deep = FALSE
INVARIANT SelfValue
INVARIANT SelfTyped
INVARIANT SelfMsg
INVARIANT Emit
CHECK_DEADLOCK FALSE
