SPECIFICATION Spec
CONSTANT Deep = FALSE
INVARIANT SelfValue
INVARIANT SelfTyped
INVARIANT SelfMsg
INVARIANT Emit
INVARIANT EmitSchema
CHECK_DEADLOCK FALSE
