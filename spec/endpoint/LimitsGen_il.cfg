SPECIFICATION Spec
CONSTANT Part = "idlelate"
CONSTANT Depth = 2
CONSTANT ChMaxes = {0}
CONSTANT LocalIdle = 0
CONSTANT RemoteIdle = 200
INVARIANT Emit
CHECK_DEADLOCK FALSE
