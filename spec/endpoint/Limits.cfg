SPECIFICATION Spec
CONSTANT LocalMax = 2
CONSTANT RemoteMax = 1
CONSTANT T = 3
CONSTANT L = 4
CONSTANT Horizon = 9
INVARIANT C17_ChannelMax
INVARIANT C17_Heartbeat
INVARIANT C17_NoEarlyTimeout
INVARIANT C17_LocalTimeoutFires
CHECK_DEADLOCK FALSE
