SPECIFICATION Spec
CONSTANT Part = "mix"
CONSTANT Depth = 4
CONSTANT AutoAccept = FALSE
CONSTANT Pipe = 200
CONSTANT Buf = 1
INVARIANT Emit
CHECK_DEADLOCK FALSE
