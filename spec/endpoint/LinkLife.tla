---------------------------- MODULE LinkLife ----------------------------
(* Model check for C13: one session with NLinks link slots, as the state machines of 2.5.5 and
   2.6.x, against a peer that may end the session or detach (closing or not, with or without
   error) at any time, refuse an attach, or stay passive; the application may attach, detach,
   close, drop a handle or end the session at any time.  `out` is what the endpoint writes on
   the session's channel. *)
EXTENDS Naturals, Sequences, FiniteSets, TLC
CONSTANTS NLinks, MaxOut

Links == 1..NLinks
VARIABLES sst,          \* session: "mapped", "end_sent", "end_rcvd", "discarding", "unmapped"
          lst,          \* link -> "detached", "attach_sent", "attached", "detach_sent", "detach_rcvd"
          pclosing,     \* link -> the peer's detach was a closing one
          out,          \* frames written: <<kind, link, closing>>
          touched       \* links the application has operated on since the peer's detach
vars == <<sst, lst, pclosing, out, touched>>
Init == sst = "mapped" /\ lst = [l \in Links |-> "detached"] /\ pclosing = [l \in Links |-> FALSE] /\ out = <<>> /\ touched = {}

W(f) == out' = Append(out, f)
Room == Len(out) < MaxOut
\* ---- application
Attach(l) == sst = "mapped" /\ lst[l] = "detached" /\ Room /\ W(<<"attach", l, FALSE>>) /\ lst' = [lst EXCEPT ![l] = "attach_sent"] /\ UNCHANGED <<sst, pclosing, touched>>
Detach(l, closing) == /\ sst = "mapped" /\ lst[l] = "attached" /\ Room /\ W(<<"detach", l, closing>>)
                      /\ lst' = [lst EXCEPT ![l] = "detach_sent"] /\ UNCHANGED <<sst, pclosing, touched>>
\* the application operates on a link the peer has detached: the endpoint answers in kind
Touch(l) == /\ sst = "mapped" /\ lst[l] = "detach_rcvd" /\ Room /\ W(<<"detach", l, pclosing[l]>>)
            /\ lst' = [lst EXCEPT ![l] = "detached"] /\ touched' = touched \cup {l} /\ UNCHANGED <<sst, pclosing>>
End == /\ sst \in {"mapped", "end_rcvd"} /\ W(<<"end", 0, FALSE>>)
       /\ sst' = IF sst = "mapped" THEN "end_sent" ELSE "unmapped"
       /\ lst' = [l \in Links |-> "detached"] /\ UNCHANGED <<pclosing, touched>>
\* ---- peer
PAttach(l) == sst = "mapped" /\ lst[l] = "attach_sent" /\ lst' = [lst EXCEPT ![l] = "attached"] /\ UNCHANGED <<sst, pclosing, out, touched>>
PDetach(l, closing) == /\ sst = "mapped" /\ lst[l] \in {"attach_sent", "attached", "detach_sent"}
                       /\ lst' = [lst EXCEPT ![l] = IF lst[l] = "detach_sent" THEN "detached" ELSE "detach_rcvd"]
                       /\ pclosing' = [pclosing EXCEPT ![l] = closing] /\ touched' = touched \ {l} /\ UNCHANGED <<sst, out>>
PEnd == /\ sst \in {"mapped", "end_sent"} /\ sst' = (IF sst = "mapped" THEN "end_rcvd" ELSE "unmapped")
        /\ UNCHANGED <<lst, pclosing, out, touched>>
Next == \/ \E l \in Links : Attach(l) \/ Touch(l) \/ PAttach(l) \/ \E c \in BOOLEAN : Detach(l, c) \/ PDetach(l, c)
        \/ End \/ PEnd
Spec == Init /\ [][Next]_vars /\ WF_vars(End)

Kinds(k, l) == SelectSeq(out, LAMBDA f : f[1] = k /\ f[2] = l)
C13_EndAtMostOnce == Len(Kinds("end", 0)) <= 1
C13_NothingAfterEnd == \A i \in DOMAIN out : out[i][1] = "end" => i = Len(out)
\* attach / detach alternate per link, starting with attach
C13_DetachAtMostOncePerAttach == \A l \in Links : Len(Kinds("detach", l)) <= Len(Kinds("attach", l))
C13_AttachOnlyWhenDetached == \A l \in Links : Len(Kinds("attach", l)) <= Len(Kinds("detach", l)) + 1
C13_EndReply == (sst = "end_rcvd") ~> (sst = "unmapped")
=============================================================================
