---------------------------- MODULE SessionWin ----------------------------
(* Model check for C07: the sending side of session flow control (AMQP 1.0 2.5.6) in serial
   arithmetic modulo M, composed with a peer that may send any flow (any next-incoming-id it has
   actually reached or none, any window including 0 and shrinking ones) at any time.

   Design rules of the endpoint (guarded actions):
     submit:   the application's transfer frames enter a FIFO (held) in order
     emit:     the head of the FIFO is sent iff the remote window is open; it takes
               transfer-id next-outgoing-id, which then advances; the window shrinks by one
     on flow:  remote-incoming-window := nii_flow + iw_flow - next-outgoing-id   (serial)
   TLC checks the clauses of C07 for every interleaving, every start id (including M-2, so that
   ids wrap) and every window history.

   SplitBelowSession = TRUE models the deviation found in the code (known finding): a transfer is
   counted once by the session but split into several wire frames afterwards. *)
EXTENDS Integers, Sequences, TLC
CONSTANTS M, MaxWin, NFrames, Starts, SplitBelowSession

Add(a, n) == (a + n) % M
Dist(a, b) == (b - a + M) % M                  \* how far b is ahead of a
InWin(x, lo, w) == Dist(lo, x) < w

VARIABLES initOut, nextOut, remWin, held, submitted, emitted,   \* endpoint
          knownNII, knownWin,                                    \* the window of the last flow (or begin) the endpoint processed
          peerGot,                                               \* frames the peer has received
          wireFlows                                               \* flows in flight to the endpoint
vars == <<initOut, nextOut, remWin, held, submitted, emitted, knownNII, knownWin, peerGot, wireFlows>>

Init == /\ initOut \in Starts /\ nextOut = initOut /\ remWin \in 0..MaxWin
        /\ held = <<>> /\ submitted = 0 /\ emitted = <<>>
        /\ knownNII = initOut /\ knownWin = remWin /\ peerGot = 0 /\ wireFlows = <<>>

\* the application submits the next transfer frame (frames are numbered 1..NFrames)
Submit == /\ submitted < NFrames /\ submitted' = submitted + 1 /\ held' = Append(held, submitted + 1)
          /\ UNCHANGED <<initOut, nextOut, remWin, emitted, knownNII, knownWin, peerGot, wireFlows>>
\* how many wire frames one submitted transfer becomes (the deviation: 2)
WireFrames == IF SplitBelowSession THEN 2 ELSE 1
Emit == /\ held # <<>> /\ remWin > 0
        /\ emitted' = emitted \o [k \in 1..WireFrames |-> [n |-> Head(held), id |-> Add(nextOut, IF SplitBelowSession THEN 0 ELSE k - 1), lo |-> knownNII, w |-> knownWin, pos |-> Len(emitted) + k]]
        /\ held' = Tail(held) /\ nextOut' = Add(nextOut, 1) /\ remWin' = remWin - 1
        /\ UNCHANGED <<initOut, submitted, knownNII, knownWin, peerGot, wireFlows>>
\* the peer receives frames in order and may advertise a new window at any time
PeerRecv == /\ peerGot < Len(emitted) /\ peerGot' = peerGot + 1
            /\ UNCHANGED <<initOut, nextOut, remWin, held, submitted, emitted, knownNII, knownWin, wireFlows>>
PeerFlow == /\ Len(wireFlows) < 2
            /\ \E w \in 0..MaxWin : wireFlows' = Append(wireFlows, [nii |-> Add(initOut, peerGot), iw |-> w])
            /\ UNCHANGED <<initOut, nextOut, remWin, held, submitted, emitted, knownNII, knownWin, peerGot>>
OnFlow == /\ wireFlows # <<>>
          /\ LET f == Head(wireFlows) inflight == Dist(f.nii, nextOut) IN
             /\ remWin' = IF inflight > f.iw THEN 0 ELSE f.iw - inflight
             /\ knownNII' = f.nii /\ knownWin' = f.iw
          /\ wireFlows' = Tail(wireFlows)
          /\ UNCHANGED <<initOut, nextOut, held, submitted, emitted, peerGot>>
Next == Submit \/ Emit \/ PeerRecv \/ PeerFlow \/ OnFlow
Spec == Init /\ [][Next]_vars /\ WF_vars(Emit) /\ WF_vars(OnFlow) /\ WF_vars(PeerRecv)

\* ---- clauses
\* every frame on the wire lay, when it was written, inside the window of the last flow (or begin)
\* the endpoint had processed; the frame's transfer-id is its true position on the wire
C07_WindowSafety == \A i \in DOMAIN emitted : InWin(Add(initOut, i - 1), emitted[i].lo, emitted[i].w)
C07_Fifo == /\ \A i, j \in DOMAIN emitted : i < j => emitted[i].n <= emitted[j].n
            /\ \A i \in DOMAIN held : \A j \in DOMAIN emitted : emitted[j].n < held[i]
            /\ \A i, j \in DOMAIN held : i < j => held[i] < held[j]
C07_NoLossNoDup == Len(held) + (Len(emitted) \div WireFrames) = submitted
\* next-outgoing-id advances once per frame sent
C07_Accounting == nextOut = Add(initOut, Len(emitted))
\* once the endpoint knows the window is open, held frames leave
C07_DrainSimple == (held # <<>> /\ remWin > 0) ~> (held = <<>> \/ remWin = 0)
=============================================================================
