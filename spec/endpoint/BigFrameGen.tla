---------------------------- MODULE BigFrameGen ----------------------------
(* Gen for the endpoint-level stage of C06: the max-frame-size in a peer's open limits what that peer is willing to RECEIVE.  A peer that
   advertised 512 may send frames up to what the endpoint advertised (4096): single-frame deliveries of 300 .. 3000 bytes, one script per size
   and per side, each followed by a small delivery.  They must be decoded and handed over like any other frame. *)
EXTENDS Integers, Sequences, TLC, Json
CONSTANT Side
Sizes == {300, 600, 1500, 3000}
VARIABLE z
Init == z = [k |-> "start"]
Next == z.k = "start" /\ \E n \in Sizes : z' = [k |-> "case", n |-> n]
Spec == Init /\ [][Next]_z
PF(perf, ch, f) == [e |-> "PFrame", perf |-> perf, ch |-> ch, f |-> f]
X(did, m, len) == [e |-> "PFrame", perf |-> "transfer", ch |-> 3, f |-> [h |-> 6, did |-> did, tagn |-> 1, tag |-> <<did>>, fmt |-> 0, settled |-> "t", more |-> FALSE], msg |-> [m |-> m, len |-> len, shape |-> "data"]]
Script(n) ==
  (IF Side = "client"
   THEN << [e |-> "AOpen", cfg |-> [mfs |-> 4096]], [e |-> "PHeader", kind |-> "amqp"], PF("open", 0, [mfs |-> 512, chmax |-> 10]),
           [e |-> "ABegin", s |-> "s1", cfg |-> [noi |-> 1000, iw |-> 100, ow |-> 100]], PF("begin", 3, [rch |-> [ref |-> "s1"], noi |-> 0, iw |-> 100, ow |-> 100]),
           [e |-> "AAttachR", l |-> "L2", s |-> "s1", cfg |-> [snd |-> 1, rcv |-> 0, credit |-> 5, auto_accept |-> TRUE]] >>
   ELSE << [e |-> "AAccept", cfg |-> [mfs |-> 4096]], [e |-> "PHeader", kind |-> "amqp"], PF("open", 0, [mfs |-> 512, chmax |-> 10]),
           [e |-> "AAcceptSession", s |-> "s1", cfg |-> [noi |-> 1000, iw |-> 100, ow |-> 100]], PF("begin", 3, [rch |-> -1, noi |-> 0, iw |-> 100, ow |-> 100]),
           [e |-> "AAcceptLink", l |-> "L2", s |-> "s1", cfg |-> [credit |-> 5]] >>)
  \o << PF("attach", 3, [name |-> "L2", h |-> 6, role |-> "s", snd |-> 1, rcv |-> 0, idc |-> 0]),
        X(0, 301, n), [e |-> "ARecv", l |-> "L2"], X(1, 302, 20), [e |-> "ARecv", l |-> "L2"],
        [e |-> "AClose", err |-> ""], PF("close", 0, [err |-> ""]) >>
Emit == z.k = "start" \/ PrintT(<<"SCRIPT", ToJson([side |-> Side, id |-> <<"bigframe", Side, z.n>>, final_ms |-> 2000, ev |-> Script(z.n)])>>)
=============================================================================
