SPECIFICATION Spec
CONSTANT N = 3
CONSTANT Second = TRUE
CONSTANT MaxDisp = 3
INVARIANT C02_ResolveOnce
INVARIANT C02_OwnOutcome
INVARIANT C02_Forgotten
INVARIANT C02_NoEchoForUnknown
PROPERTY C02_Echo
CHECK_DEADLOCK FALSE
