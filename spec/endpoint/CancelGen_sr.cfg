SPECIFICATION Spec
CONSTANT Part = "send"
CONSTANT Depth = 3
CONSTANT AutoAccept = FALSE
CONSTANT Pipe = 4194304
CONSTANT Buf = 256
INVARIANT Emit
CHECK_DEADLOCK FALSE
