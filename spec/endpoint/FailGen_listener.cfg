SPECIFICATION Spec
CONSTANT Side = "listener"
CONSTANT Only = "all"
INVARIANT Emit
CHECK_DEADLOCK FALSE
