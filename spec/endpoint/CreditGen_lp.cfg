SPECIFICATION Spec
CONSTANT Depth = 3
CONSTANT DcShift = "4294966295"
CONSTANT Hook = FALSE
CONSTANT Side = "listener"
CONSTANT Mms = 0
INVARIANT Emit
CHECK_DEADLOCK FALSE
CONSTANT Pipelined = TRUE
