---------------------------- MODULE ResumeSettleGen ----------------------------
(* Gen for the resumption part of C02: a sending link with one delivery nobody has settled (and one that was settled normally) is detached
   without closing and resumed; the receiver's attach states that delivery in every way a receiver can (absent, null, received at a
   position, each terminal outcome).  The conversation is then carried to its end as 2.6.13 prescribes (whatever is sent again is
   accepted and settled, the endpoint suspends and attaches once more, the second exchange has nothing left), and the application
   asks for the outcome: it must be the receiver's terminal state where there was one, `accepted` otherwise. *)
EXTENDS Integers, Sequences, TLC, Json
Remote == {"absent", "null", "received0", "received1", "accepted", "rejected", "released", "modified"}
Local == {"none", "received"}
VARIABLE z
Init == z = [k |-> "start"]
Next == z.k = "start" /\ \E r \in Remote, l \in Local : z' = [k |-> "case", r |-> r, l |-> l]
Spec == Init /\ [][Next]_z
PF(perf, f) == [e |-> "PFrame", perf |-> perf, ch |-> 3, ech |-> 0, f |-> f]
St(k) == [k |-> k, cond |-> "", txn |-> <<>>, sn |-> 0, so |-> 0]
Disp(first, last, settled, st) == PF("disposition", [role |-> "r", first |-> first, last |-> last, settled |-> settled, state |-> st])
Uns(r) == CASE r = "absent" -> <<>>
            [] r = "null" -> <<[tag |-> [d |-> 0], st |-> "null"]>>
            [] r = "received0" -> <<[tag |-> [d |-> 0], st |-> [k |-> "received", cond |-> "", txn |-> <<>>, sn |-> 0, so |-> 0]]>>
            [] r = "received1" -> <<[tag |-> [d |-> 0], st |-> [k |-> "received", cond |-> "", txn |-> <<>>, sn |-> 0, so |-> 3]]>>
            [] OTHER -> <<[tag |-> [d |-> 0], st |-> St(r)]>>
Script(r, l) ==
  << [e |-> "AOpen", cfg |-> [mfs |-> 4096]], [e |-> "PHeader", kind |-> "amqp"], [e |-> "PFrame", perf |-> "open", ch |-> 0, f |-> [mfs |-> 4096, chmax |-> 10]],
     [e |-> "ABegin", s |-> "s1", cfg |-> [noi |-> 1000, iw |-> 100, ow |-> 100]],
     [e |-> "PFrame", perf |-> "begin", ch |-> 3, f |-> [rch |-> [ref |-> "s1"], noi |-> 0, iw |-> 100, ow |-> 100]],
     [e |-> "AAttachS", l |-> "L4", s |-> "s1", cfg |-> [snd |-> 0, rcv |-> 0, idc |-> 0]], PF("attach", [name |-> "L4", h |-> 8, role |-> "r", snd |-> 0, rcv |-> 0]),
     PF("flow", [nii |-> [seen |-> 0], iw |-> 100, noi |-> 0, ow |-> 100, h |-> 8, dc |-> 0, lc |-> 50]),
     [e |-> "ASend", l |-> "L4", m |-> 7, len |-> 60, batchable |-> TRUE], [e |-> "ASend", l |-> "L4", m |-> 8, len |-> 20, batchable |-> TRUE] >>
  \o (IF l = "received" THEN <<Disp([d |-> 0], -1, FALSE, [k |-> "received", cond |-> "", txn |-> <<>>, sn |-> 0, so |-> 0])>> ELSE <<>>)
  \o << Disp([d |-> 1], -1, TRUE, St("accepted")), [e |-> "AAwaitOutcome", nth |-> 1],
        [e |-> "ADetach", l |-> "L4", closed |-> FALSE, keep |-> TRUE], PF("detach", [h |-> 8, closed |-> FALSE, err |-> ""]),
        [e |-> "AResume", l |-> "L4"],
        PF("attach", [name |-> "L4", h |-> 8, role |-> "r", snd |-> 0, rcv |-> 0, uns |-> Uns(r), incomplete |-> FALSE]),
        PF("flow", [nii |-> [seen |-> 0], iw |-> 100, noi |-> 0, ow |-> 100, h |-> 8, dc |-> [seen |-> 0], lc |-> 50]),
        \* whatever was sent again is accepted and settled; then the suspension and the second, empty exchange
        Disp([d |-> "last"], -1, TRUE, St("accepted")),
        PF("detach", [h |-> 8, closed |-> FALSE, err |-> ""]),
        PF("attach", [name |-> "L4", h |-> 8, role |-> "r", snd |-> 0, rcv |-> 0]),
        PF("flow", [nii |-> [seen |-> 0], iw |-> 100, noi |-> 0, ow |-> 100, h |-> 8, dc |-> [seen |-> 0], lc |-> 50]),
        [e |-> "AAwaitOutcome", nth |-> 0],
        [e |-> "ASend", l |-> "L4", m |-> 9, len |-> 20, batchable |-> TRUE], Disp([d |-> "last"], -1, TRUE, St("rejected")), [e |-> "AAwaitOutcome", nth |-> 2] >>
Emit == z.k = "start" \/ PrintT(<<"SCRIPT", ToJson([side |-> "client", id |-> <<"resume", z.l, z.r>>, final_ms |-> 5000, ev |-> Script(z.r, z.l)])>>)
=============================================================================
