SPECIFICATION Spec
CONSTANT Part = "recv"
CONSTANT Depth = 4
CONSTANT AutoAccept = TRUE
CONSTANT Pipe = 4194304
CONSTANT Buf = 1
INVARIANT Emit
CHECK_DEADLOCK FALSE
