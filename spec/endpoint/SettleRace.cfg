SPECIFICATION Spec
CONSTANTS N = 3 InsertFirst = TRUE
INVARIANTS C02_OwnOutcome C02_NothingLost
PROPERTY C02_Resolves
CHECK_DEADLOCK FALSE
