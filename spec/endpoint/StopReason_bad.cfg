SPECIFICATION Spec
CONSTANT ReasonFirst = FALSE
CONSTANT KeptAlive = FALSE
INVARIANT C14_ReasonVisible
CHECK_DEADLOCK FALSE
