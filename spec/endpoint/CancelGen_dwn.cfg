SPECIFICATION Spec
CONSTANT Part = "win"
CONSTANT Depth = 5
CONSTANT AutoAccept = FALSE
CONSTANT Pipe = 4194304
CONSTANT Buf = 256
INVARIANT Emit
CHECK_DEADLOCK FALSE
