SPECIFICATION Spec
CONSTANT Depth = 5
CONSTANT PeerHandleBase = 0
CONSTANT Side = "client"
INVARIANT Emit
CHECK_DEADLOCK FALSE
CONSTANT C1 = 1
CONSTANT C2 = 0
CONSTANT Focus = "sessions"
