SPECIFICATION Spec
CONSTANT RcvModes = {0, 1}
INVARIANT Emit
CHECK_DEADLOCK FALSE
