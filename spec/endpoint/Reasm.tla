---------------------------- MODULE Reasm ----------------------------
(* Model check for C10: reassembly of multi-frame deliveries on a receiving link (2.6.14, 2.7.5).
   A sender may split each delivery into 1..MaxFrames frames; continuation frames may omit,
   repeat or contradict delivery-id / tag / format; a delivery may be aborted at any frame; frames
   of a second link interleave freely.  The endpoint keeps one incomplete delivery per link.
   Clauses: a delivery is produced exactly when its last frame arrives and equals the
   concatenation of its chunks; nothing before; abort produces nothing and resets;
   a contradiction puts the link in error and produces nothing. *)
EXTENDS Integers, Sequences, TLC
CONSTANTS Links, NDel, MaxFrames

VARIABLES sent,        \* per link: deliveries fully sent so far, each a sequence of chunk ids (or "aborted"/"contra")
          cur,         \* per link: frames of the delivery in progress at the sender: [d, chunks, contra]
          inc,         \* per link: the endpoint's incomplete delivery: [d, chunks] or none
          out,         \* per link: deliveries handed over
          err          \* per link: link in error
vars == <<sent, cur, inc, out, err>>
None == [d |-> 0, chunks |-> <<>>]
Init == /\ sent = [l \in Links |-> <<>>] /\ cur = [l \in Links |-> [d |-> 0, chunks |-> <<>>, contra |-> FALSE]]
        /\ inc = [l \in Links |-> None] /\ out = [l \in Links |-> <<>>] /\ err = [l \in Links |-> FALSE]

\* a frame of link l: first / continuation, with a field variant, last or not, aborted or not
Frame(l, variant, last, aborted) ==
  /\ ~err[l]
  /\ LET first == cur[l].d = 0
         d == IF first THEN Len(sent[l]) + 1 ELSE cur[l].d
         chunk == Len(cur[l].chunks) + 1
         contra == variant = "contra" /\ ~first
     IN /\ d <= NDel /\ chunk <= MaxFrames /\ (chunk = MaxFrames => last \/ aborted)
        /\ (first => variant = "full")
        \* sender side bookkeeping
        /\ IF last \/ aborted
           THEN /\ sent' = [sent EXCEPT ![l] = Append(@, IF aborted THEN <<-1>> ELSE IF contra \/ cur[l].contra THEN <<-2>> ELSE Append(cur[l].chunks, chunk))]
                /\ cur' = [cur EXCEPT ![l] = [d |-> 0, chunks |-> <<>>, contra |-> FALSE]]
           ELSE /\ sent' = sent
                /\ cur' = [cur EXCEPT ![l] = [d |-> d, chunks |-> Append(@.chunks, chunk), contra |-> (@.contra \/ contra)]]
        \* endpoint side: the design's reassembly rule
        /\ IF aborted THEN inc' = [inc EXCEPT ![l] = None] /\ out' = out /\ err' = err
           ELSE IF contra THEN inc' = [inc EXCEPT ![l] = None] /\ out' = out /\ err' = [err EXCEPT ![l] = TRUE]
           ELSE IF last THEN /\ out' = [out EXCEPT ![l] = Append(@, [d |-> d, chunks |-> Append(inc[l].chunks, chunk)])]
                             /\ inc' = [inc EXCEPT ![l] = None] /\ err' = err
           ELSE inc' = [inc EXCEPT ![l] = [d |-> d, chunks |-> Append(@.chunks, chunk)]] /\ out' = out /\ err' = err
Next == \E l \in Links, v \in {"full", "omit", "repeat", "contra"}, last \in BOOLEAN, ab \in BOOLEAN : Frame(l, v, last, ab)
Spec == Init /\ [][Next]_vars

\* what should have been delivered on l: the completed, non-aborted, non-contradictory deliveries, in order
RECURSIVE Expected(_, _)
Expected(s, d) == IF s = <<>> THEN <<>> ELSE
                  (IF Head(s) \in {<<-1>>, <<-2>>} THEN <<>> ELSE <<[d |-> d, chunks |-> Head(s)]>>) \o Expected(Tail(s), d + 1)
C10_Exact == \A l \in Links : out[l] = Expected(sent[l], 1) \/ (err[l] /\ \E n \in 0..Len(Expected(sent[l], 1)) : out[l] = SubSeq(Expected(sent[l], 1), 1, n))
C10_NotBefore == \A l \in Links : \A i \in DOMAIN out[l] : out[l][i].d <= Len(sent[l])
C10_Contradiction == \A l \in Links : (\E i \in DOMAIN sent[l] : sent[l][i] = <<-2>>) => err[l]
C10_OtherLinks == \A l \in Links : \A i \in DOMAIN out[l] : \A j \in DOMAIN out[l][i].chunks : out[l][i].chunks[j] = j
=============================================================================
