SPECIFICATION Spec
CONSTANT ReasonFirst = TRUE
CONSTANT KeptAlive = TRUE
PROPERTY C14_Completes
CHECK_DEADLOCK FALSE
