SPECIFICATION Spec
CONSTANT Depth = 3
CONSTANT PeerHandleBase = 0
CONSTANT Side = "client"
INVARIANT Emit
CHECK_DEADLOCK FALSE
