SPECIFICATION Spec
CONSTANT Depth = 3
CONSTANT PeerHandleBase = 0
INVARIANT Emit
CHECK_DEADLOCK FALSE
