---------------------------- MODULE RecvGen ----------------------------
(* Gen for C09 and C10 (and the routing part of C11): a receiving link of the EUT against a
   scripted sender.  After the handshake every sequence up to Depth of: deliveries in one, two
   and three frames (continuations omitting or repeating the optional fields, an empty middle
   frame), an aborted delivery, a continuation with a contradictory delivery-id, application
   recv / accept / accept-all / set_credit / drain, a flow of the sender claiming more credit than it was given.  Credit policy (Auto(n) or Manual), auto-accept
   and the sender's initial delivery-count (0 or just below 2^32) are configuration. *)
EXTENDS Integers, Sequences, TLC, Json
CONSTANTS Depth, Credit, AutoAccept, DcShift, Side

Alphabet == {"T1", "T2", "T3", "TAbort", "TContra", "Recv", "Acc", "AccAll", "SetCredit2", "Drain", "SFlow",
             \* the application detaches the link without closing it and resumes it; the sender re-attaches stating the same initial delivery-count
             "DetResume"}
VARIABLES script
Init == script = <<>>
Next == Len(script) < Depth /\ \E e \in Alphabet : script' = Append(script, e)
Spec == Init /\ [][Next]_script

CreditCfg == IF Credit = 0 THEN -1 ELSE Credit     \* 0 in the configuration means Manual
Xfer(did, first, more, aborted, m, len, off, n, fields) ==
  [e |-> "PFrame", perf |-> "transfer", ch |-> 3,
   f |-> [h |-> 6, did |-> IF first \/ fields = "repeat" THEN did ELSE IF fields = "contra" THEN did + 7 ELSE -1,
          tagn |-> IF first \/ fields = "repeat" THEN 1 ELSE -1, tag |-> <<did % 250>>, fmt |-> IF first \/ fields = "repeat" THEN 0 ELSE -1,
          settled |-> IF first THEN "f" ELSE "none", more |-> more, aborted |-> aborted],
   msg |-> [m |-> m, len |-> len, off |-> off, n |-> n, shape |-> "full"]]
ClientPrefix == <<
  [e |-> "Shifts", out |-> 0, inn |-> 0, dc_out |-> 0, dc_in |-> DcShift],
  [e |-> "AOpen", cfg |-> [mfs |-> 4096]], [e |-> "PHeader", kind |-> "amqp"],
  [e |-> "PFrame", perf |-> "open", ch |-> 0, f |-> [mfs |-> 4096, chmax |-> 10]],
  [e |-> "ABegin", s |-> "s1", cfg |-> [noi |-> 1000, iw |-> 100, ow |-> 100]],
  [e |-> "PFrame", perf |-> "begin", ch |-> 3, f |-> [rch |-> [ref |-> "s1"], noi |-> 0, iw |-> 100, ow |-> 100]],
  [e |-> "AAttachR", l |-> "L2", s |-> "s1", cfg |-> [snd |-> 2, rcv |-> 0, credit |-> CreditCfg, auto_accept |-> AutoAccept]],
  [e |-> "PFrame", perf |-> "attach", ch |-> 3, f |-> [name |-> "L2", h |-> 6, role |-> "s", snd |-> 2, rcv |-> 0, idc |-> 1000]] >>
ListenerPrefix == <<
  [e |-> "Shifts", out |-> 0, inn |-> 0, dc_out |-> 0, dc_in |-> DcShift],
  [e |-> "AAccept", cfg |-> [mfs |-> 4096]], [e |-> "PHeader", kind |-> "amqp"],
  [e |-> "PFrame", perf |-> "open", ch |-> 0, f |-> [mfs |-> 4096, chmax |-> 10]],
  [e |-> "AAcceptSession", s |-> "s1", cfg |-> [noi |-> 1000, iw |-> 100, ow |-> 100]],
  [e |-> "PFrame", perf |-> "begin", ch |-> 3, f |-> [rch |-> -1, noi |-> 0, iw |-> 100, ow |-> 100]],
  [e |-> "AAcceptLink", l |-> "L2", s |-> "s1", cfg |-> [credit |-> CreditCfg, auto_accept |-> FALSE]],
  [e |-> "PFrame", perf |-> "attach", ch |-> 3, f |-> [name |-> "L2", h |-> 6, role |-> "s", snd |-> 2, rcv |-> 0, idc |-> 1000]] >>
Manual0 == IF Credit = 0 THEN << [e |-> "ASetCredit", l |-> "L2", n |-> 1] >> ELSE <<>>
\* delivery k (0-based) carries message 201 + k
RECURSIVE Body(_, _, _)
Body(sc, i, k) ==
  IF i > Len(sc) THEN <<>> ELSE
  LET e == sc[i] m == 201 + k IN
  CASE e = "T1" -> <<Xfer(k, TRUE, FALSE, FALSE, m, 30, 0, -1, "omit")>> \o Body(sc, i + 1, k + 1)
    [] e = "T2" -> <<Xfer(k, TRUE, TRUE, FALSE, m, 200, 0, 17, "omit"), Xfer(k, FALSE, FALSE, FALSE, m, 200, 17, -1, "omit")>> \o Body(sc, i + 1, k + 1)
    [] e = "T3" -> <<Xfer(k, TRUE, TRUE, FALSE, m, 300, 0, 3, "omit"), Xfer(k, FALSE, TRUE, FALSE, m, 300, 3, 0, "repeat"), Xfer(k, FALSE, FALSE, FALSE, m, 300, 3, -1, "repeat")>> \o Body(sc, i + 1, k + 1)
    [] e = "TAbort" -> <<Xfer(k, TRUE, TRUE, FALSE, m, 200, 0, 50, "omit"), Xfer(k, FALSE, FALSE, TRUE, m, 200, 50, 0, "omit")>> \o Body(sc, i + 1, k + 1)
    [] e = "TContra" -> <<Xfer(k, TRUE, TRUE, FALSE, m, 200, 0, 50, "omit"), Xfer(k, FALSE, FALSE, FALSE, m, 200, 50, -1, "contra")>> \o Body(sc, i + 1, k + 1)
    [] e = "Recv" -> <<[e |-> "ARecv", l |-> "L2"]>> \o Body(sc, i + 1, k)
    [] e = "Acc" -> <<[e |-> "ADispose", l |-> "L2", d |-> <<0>>, state |-> "accept", all |-> FALSE]>> \o Body(sc, i + 1, k)
    [] e = "AccAll" -> <<[e |-> "ADispose", l |-> "L2", d |-> <<0, 1, 2>>, state |-> "accept", all |-> TRUE]>> \o Body(sc, i + 1, k)
    [] e = "SetCredit2" -> <<[e |-> "ASetCredit", l |-> "L2", n |-> 2]>> \o Body(sc, i + 1, k)
    [] e = "DetResume" -> <<[e |-> "ADetach", l |-> "L2", closed |-> FALSE, keep |-> TRUE],
                             [e |-> "PFrame", perf |-> "detach", ch |-> 3, needs_prev |-> TRUE, f |-> [h |-> 6, closed |-> FALSE, err |-> ""]],
                             [e |-> "AResume", l |-> "L2"],
                             [e |-> "PFrame", perf |-> "attach", ch |-> 3, needs_prev |-> TRUE, f |-> [name |-> "L2", h |-> 6, role |-> "s", snd |-> 2, rcv |-> 0, idc |-> 1000]]>> \o Body(sc, i + 1, k)
    [] e = "Drain" -> <<[e |-> "ADrain", l |-> "L2"]>> \o Body(sc, i + 1, k)
    \* the sender states its own view: its delivery-count and far more credit than it was ever given (the receiver's limit is what counts)
    [] e = "SFlow" -> <<[e |-> "PFrame", perf |-> "flow", ch |-> 3, ech |-> 0, f |-> [nii |-> [seen |-> 0], iw |-> 100, noi |-> k, ow |-> 100, h |-> 6, dc |-> 1000 + k, lc |-> 10, role |-> "s"]]>> \o Body(sc, i + 1, k)
Suffix == << [e |-> "ARecv", l |-> "L2"], [e |-> "ARecv", l |-> "L2"] >>
Done == Len(script) = Depth
Emit == Done => PrintT(<<"SCRIPT", ToJson([side |-> Side, id |-> <<Side, Credit, AutoAccept, DcShift>> \o script,
                           ev |-> (IF Side = "client" THEN ClientPrefix ELSE ListenerPrefix) \o Manual0 \o Body(script, 1, 0) \o Suffix])>>)
=============================================================================
