SPECIFICATION Spec
CONSTANT Depth = 3
CONSTANT DcShift = "4294966295"
CONSTANT Hook = FALSE
INVARIANT Emit
CHECK_DEADLOCK FALSE
