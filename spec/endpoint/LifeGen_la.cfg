SPECIFICATION Spec
CONSTANT Depth = 3
CONSTANT PeerHandleBase = 0
CONSTANT Side = "listener"
INVARIANT Emit
CHECK_DEADLOCK FALSE
