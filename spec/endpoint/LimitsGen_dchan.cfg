SPECIFICATION Spec
CONSTANT Part = "chan"
CONSTANT Depth = 1
CONSTANT ChMaxes = {0, 1, 2, 3, 5, 65535}
CONSTANT LocalIdle = 0
CONSTANT RemoteIdle = 0
INVARIANT Emit
CHECK_DEADLOCK FALSE
