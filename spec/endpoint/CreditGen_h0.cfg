SPECIFICATION Spec
CONSTANT Depth = 0
CONSTANT DcShift = "0"
CONSTANT Hook = TRUE
CONSTANT Side = "client"
INVARIANT Emit
CHECK_DEADLOCK FALSE
