SPECIFICATION Spec
CONSTANT Depth = 4
CONSTANT Shift = "4294966294"
CONSTANT Win0 = 2
CONSTANT Mms = 0
CONSTANT Side = "client"
INVARIANT Emit
CHECK_DEADLOCK FALSE
