SPECIFICATION Spec
CONSTANT Depth = 2
CONSTANT DcShift = "0"
CONSTANT Hook = TRUE
CONSTANT Side = "client"
CONSTANT Mms = 0
INVARIANT Emit
CHECK_DEADLOCK FALSE
CONSTANT Pipelined = FALSE
