SPECIFICATION Spec
CONSTANT Depth = 3
CONSTANT Shift = "0"
CONSTANT Win0 = 1
INVARIANT Emit
CHECK_DEADLOCK FALSE
