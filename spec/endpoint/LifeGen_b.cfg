SPECIFICATION Spec
CONSTANT Depth = 4
CONSTANT PeerHandleBase = 70000
CONSTANT Side = "client"
INVARIANT Emit
CHECK_DEADLOCK FALSE
CONSTANT C1 = 3
CONSTANT C2 = 4
CONSTANT Focus = "all"
