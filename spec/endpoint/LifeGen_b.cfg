SPECIFICATION Spec
CONSTANT Depth = 4
CONSTANT PeerHandleBase = 70000
INVARIANT Emit
CHECK_DEADLOCK FALSE
