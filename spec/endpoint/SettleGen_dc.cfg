SPECIFICATION Spec
CONSTANT Depth = 4
CONSTANT RcvMode = 1
CONSTANT SndMode = 0
INVARIANT Emit
CHECK_DEADLOCK FALSE
