SPECIFICATION Spec
CONSTANT Depth = 3
CONSTANT RcvMode = 0
CONSTANT PeerRcv = 0
CONSTANT SndMode = 0
CONSTANT PeerH1 = 5
CONSTANT PeerH3 = 8
CONSTANT Side = "client"
INVARIANT Emit
CHECK_DEADLOCK FALSE
