SPECIFICATION Spec
CONSTANT Part = "idle"
CONSTANT Depth = 4
CONSTANT ChMaxes = {0}
CONSTANT LocalIdle = 200
CONSTANT RemoteIdle = 200
INVARIANT Emit
CHECK_DEADLOCK FALSE
