---------------------------- MODULE Credit ----------------------------
(* Model check for the accounting half of C08 (and of C09): link credit (AMQP 1.0 2.6.7) between
   a sending link endpoint that follows the rules and a receiver that may send any flow at any
   time, in serial arithmetic modulo M.

   sender rules:  on flow(dcR, lcR, drain): link-credit := dcR + lcR - delivery-count (serial,
                  clipped at 0); with drain the sender advances delivery-count by the remaining
                  credit, sets credit 0 and owes a flow showing it;
                  a delivery is started only with credit > 0 and consumes one credit whatever
                  its number of frames. *)
EXTENDS Integers, Sequences, TLC
CONSTANTS M, MaxCredit, Starts, NDel

Add(a, n) == (a + n) % M
Dist(a, b) == (b - a + M) % M

VARIABLES dcS, credit, started, owed,      \* sender
          wire,                            \* flows in flight to the sender
          dcSeen,                          \* receiver: deliveries it has seen (it knows dcInit)
          dcInit, lastLimit                \* limit (dcR + lcR) of the last flow the sender processed, as a count from dcInit
vars == <<dcS, credit, started, owed, wire, dcSeen, dcInit, lastLimit>>

Init == /\ dcInit \in Starts /\ dcS = dcInit /\ credit = 0 /\ started = 0 /\ owed = FALSE
        /\ wire = <<>> /\ dcSeen = 0 /\ lastLimit = 0

RecvFlow == /\ Len(wire) < 2
            /\ \E lc \in 0..MaxCredit, drain \in BOOLEAN, lag \in 0..1 :
                 LET seen == IF dcSeen >= lag THEN dcSeen - lag ELSE 0 IN
                 wire' = Append(wire, [dc |-> Add(dcInit, seen), cnt |-> seen, lc |-> lc, drain |-> drain])
            /\ UNCHANGED <<dcS, credit, started, owed, dcSeen, dcInit, lastLimit>>
OnFlow == /\ wire # <<>>
          /\ LET f == Head(wire)
                 ahead == Dist(f.dc, dcS)                    \* deliveries the receiver has not seen yet
                 c == IF ahead > f.lc THEN 0 ELSE f.lc - ahead
             IN /\ lastLimit' = f.cnt + f.lc
                /\ IF f.drain THEN dcS' = Add(dcS, c) /\ credit' = 0 /\ owed' = TRUE /\ started' = started
                   ELSE dcS' = dcS /\ credit' = c /\ owed' = owed /\ started' = started
          /\ wire' = Tail(wire) /\ UNCHANGED <<dcSeen, dcInit>>
SendFlow == owed /\ owed' = FALSE /\ UNCHANGED <<dcS, credit, started, wire, dcSeen, dcInit, lastLimit>>
Start == /\ credit > 0 /\ started < NDel
         /\ credit' = credit - 1 /\ dcS' = Add(dcS, 1) /\ started' = started + 1
         /\ UNCHANGED <<owed, wire, dcSeen, dcInit, lastLimit>>
See == dcSeen < started /\ dcSeen' = dcSeen + 1 /\ UNCHANGED <<dcS, credit, started, owed, wire, dcInit, lastLimit>>
Next == RecvFlow \/ OnFlow \/ SendFlow \/ Start \/ See
Spec == Init /\ [][Next]_vars /\ WF_vars(SendFlow) /\ WF_vars(OnFlow)

\* deliveries started never exceed what the last processed flow allows (counted from the initial delivery-count)
C08_WithinCredit == started <= lastLimit \/ credit = 0
C08_NeverBeyondLimit == started + credit <= lastLimit \/ credit = 0
\* one credit per delivery: the delivery-count is the initial count plus deliveries started plus drained credit
C08_DrainAnswered == owed ~> ~owed
=============================================================================
