SPECIFICATION Spec
CONSTANT Depth = 4
CONSTANT Side = "listener"
INVARIANT Emit
CHECK_DEADLOCK FALSE
