SPECIFICATION Spec
CONSTANT Side = "listener"
INVARIANT Emit
CHECK_DEADLOCK FALSE
