SPECIFICATION Spec
CONSTANT MaxOff = 130
CONSTANT Step3 = 3
INVARIANT Emit
CHECK_DEADLOCK FALSE
