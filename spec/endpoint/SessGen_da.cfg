SPECIFICATION Spec
CONSTANT Depth = 4
CONSTANT Shift = "0"
CONSTANT Win0 = 1
CONSTANT Mms = 0
CONSTANT Side = "client"
INVARIANT Emit
CHECK_DEADLOCK FALSE
