SPECIFICATION Spec
CONSTANT Part = "recv"
CONSTANT Depth = 5
CONSTANT AutoAccept = TRUE
CONSTANT Pipe = 4194304
CONSTANT Buf = 1
INVARIANT Emit
CHECK_DEADLOCK FALSE
