SPECIFICATION Spec
CONSTANT Depth = 4
CONSTANT RcvMode = 1
CONSTANT SndMode = 2
INVARIANT Emit
CHECK_DEADLOCK FALSE
