SPECIFICATION Spec
CONSTANT Depth = 3
CONSTANT Credit = 0
CONSTANT AutoAccept = FALSE
CONSTANT DcShift = "0"
CONSTANT Side = "client"
INVARIANT Emit
CHECK_DEADLOCK FALSE
