SPECIFICATION Spec
CONSTANT Depth = 4
CONSTANT Credit = 2
CONSTANT AutoAccept = FALSE
CONSTANT DcShift = "0"
CONSTANT Side = "listener"
INVARIANT Emit
CHECK_DEADLOCK FALSE
