---------------------------- MODULE SettleRace ----------------------------
(* C02, the race between a sender's bookkeeping and the peer's answer.

   Sender::send hands the transfer to the session (enqueue) and records the delivery in the link's
   unsettled map (insert) so that the settling disposition can find the waiting future.  The two
   steps belong to the sending task; the session engine, the transport and the peer run
   concurrently.  InsertFirst = TRUE records before handing over; FALSE hands over first (the order
   of link/sender_link.rs send_payload_with_transfer before the repair).

   Checked: every send whose delivery the peer settles is resolved (Resolves, under weak
   fairness of all processes), and never with another delivery's outcome (OwnOutcome).  TLC
   refutes Resolves for InsertFirst = FALSE: the disposition is processed between enqueue and
   insert, finds nothing, and the entry inserted afterwards waits for ever.  The schedule is
   replayed against the real sender through the schedule point `send.after_enqueue`. *)
EXTENDS Naturals, Sequences, FiniteSets, TLC
CONSTANTS N, InsertFirst

VARIABLES pc,        \* pc[i]: "idle" | "half" (one of the two steps done) | "waiting" | "resolved"
          map,       \* unsettled map of the link: delivery numbers waiting for an outcome
          toPeer,    \* transfers on their way to the peer
          toLink,    \* dispositions on their way back: [d, o]
          outcome,   \* outcome[i] once resolved
          lost       \* dispositions that found no entry
vars == <<pc, map, toPeer, toLink, outcome, lost>>
D == 1..N
Out(d) == d + 100          \* the peer's outcome for delivery d (distinct per delivery)
Init == pc = [i \in D |-> "idle"] /\ map = {} /\ toPeer = <<>> /\ toLink = <<>> /\ outcome = [i \in D |-> 0] /\ lost = {}

\* the sending task of delivery i (deliveries are sent one after the other by one task)
First(i) == /\ pc[i] = "idle" /\ \A j \in D : j < i => pc[j] \in {"waiting", "resolved"}
            /\ pc' = [pc EXCEPT ![i] = "half"]
            /\ IF InsertFirst THEN map' = map \cup {i} /\ toPeer' = toPeer ELSE toPeer' = Append(toPeer, i) /\ map' = map
            /\ UNCHANGED <<toLink, outcome, lost>>
Second(i) == /\ pc[i] = "half" /\ pc' = [pc EXCEPT ![i] = "waiting"]
             /\ IF InsertFirst THEN toPeer' = Append(toPeer, i) /\ map' = map ELSE map' = map \cup {i} /\ toPeer' = toPeer
             /\ UNCHANGED <<toLink, outcome, lost>>
\* the peer settles what it receives
Peer == /\ toPeer # <<>> /\ toPeer' = Tail(toPeer) /\ toLink' = Append(toLink, [d |-> Head(toPeer), o |-> Out(Head(toPeer))])
        /\ UNCHANGED <<pc, map, outcome, lost>>
\* the session engine routes the disposition to the link: the entry is taken out of the map and its future resolved
OnDisposition == /\ toLink # <<>> /\ toLink' = Tail(toLink)
                 /\ LET x == Head(toLink) IN
                    IF x.d \in map THEN /\ map' = map \ {x.d} /\ outcome' = [outcome EXCEPT ![x.d] = x.o]
                                        /\ pc' = [pc EXCEPT ![x.d] = IF @ = "waiting" THEN "resolved" ELSE @] /\ lost' = lost
                    ELSE lost' = lost \cup {x.d} /\ UNCHANGED <<map, outcome, pc>>
                 /\ UNCHANGED toPeer
\* a send that finished its bookkeeping after its outcome had already been stored picks it up
Pickup(i) == pc[i] = "waiting" /\ outcome[i] # 0 /\ pc' = [pc EXCEPT ![i] = "resolved"] /\ UNCHANGED <<map, toPeer, toLink, outcome, lost>>
Next == (\E i \in D : First(i) \/ Second(i) \/ Pickup(i)) \/ Peer \/ OnDisposition
Spec == Init /\ [][Next]_vars /\ WF_vars(Next)

C02_OwnOutcome == \A i \in D : outcome[i] \in {0, Out(i)}
C02_Resolves == <>(\A i \in D : pc[i] = "resolved")
C02_NothingLost == lost = {}
=============================================================================
