SPECIFICATION Spec
CONSTANT Side = "listener"
CONSTANT Only = "burst"
INVARIANT Emit
CHECK_DEADLOCK FALSE
