SPECIFICATION Spec
CONSTANT NDel = 2
CONSTANT FramesPer = 2
CONSTANT BufferInLink = TRUE
CONSTANT ConsumeWithEnqueue = TRUE
INVARIANT C16_RecvExact
INVARIANT C16_CancelledAtMostOnce
INVARIANT C16_LaterIntact
CHECK_DEADLOCK FALSE
