SPECIFICATION Spec
CONSTANT Depth = 30
CONSTANT Side = "listener"
INVARIANT Emit
CHECK_DEADLOCK FALSE
