---------------------------- MODULE StreamGen ----------------------------
(* Gen for the replenishment clause of C09: a credit-respecting sender streams to an Auto(n)
   receiver whose application disposes in batches of b (accept_all of b deliveries, or b single
   accepts), for every n in Ns and b in Bs.  The sender only ever uses the credit of the first
   grant (n deliveries); after all of them have been received and disposed the link must have
   issued new credit -- otherwise a sender that respects credit stalls. *)
EXTENDS Integers, Sequences, TLC, Json
CONSTANTS Ns, Bs

VARIABLE z
Init == z = [k |-> "start"]
\* gap: the batch leaves out the middle delivery (accept_all of the 1st and 3rd held delivery), which is then rejected on its own:
\* a batch disposition must not cover deliveries that are not in the batch
Next == z.k = "start" /\ \E n \in Ns, b \in Bs, all \in BOOLEAN, aa \in BOOLEAN, pre \in BOOLEAN, gap \in BOOLEAN :
           b <= n /\ (pre => aa) /\ (gap => (all /\ ~aa /\ b = 3)) /\ z' = [k |-> "case", n |-> n, b |-> b, all |-> all, aa |-> aa, pre |-> pre, gap |-> gap]
Spec == Init /\ [][Next]_z

Prefix(n, aa) == <<
  [e |-> "AOpen", cfg |-> [mfs |-> 4096]], [e |-> "PHeader", kind |-> "amqp"],
  [e |-> "PFrame", perf |-> "open", ch |-> 0, f |-> [mfs |-> 4096, chmax |-> 10]],
  [e |-> "ABegin", s |-> "s1", cfg |-> [noi |-> 1000, iw |-> 1000, ow |-> 100]],
  [e |-> "PFrame", perf |-> "begin", ch |-> 3, f |-> [rch |-> [ref |-> "s1"], noi |-> 0, iw |-> 100, ow |-> 100]],
  [e |-> "AAttachR", l |-> "L2", s |-> "s1", cfg |-> [snd |-> 2, rcv |-> 0, credit |-> n, auto_accept |-> aa]],
  [e |-> "PFrame", perf |-> "attach", ch |-> 3, f |-> [name |-> "L2", h |-> 6, role |-> "s", snd |-> 2, rcv |-> 0, idc |-> 0]] >>
T(k) == [e |-> "PFrame", perf |-> "transfer", ch |-> 3, f |-> [h |-> 6, did |-> k, tagn |-> 1, tag |-> <<k % 250>>, fmt |-> 0, settled |-> IF z.pre THEN "t" ELSE "f", more |-> FALSE, aborted |-> FALSE],
         msg |-> [m |-> 400 + k, len |-> 10, shape |-> "data"]]
RECURSIVE Burst(_, _), Recvs(_), Rounds(_, _, _, _)
Burst(k, n) == IF k >= n THEN <<>> ELSE <<T(k)>> \o Burst(k + 1, n)
Recvs(b) == IF b = 0 THEN <<>> ELSE <<[e |-> "ARecv", l |-> "L2"]>> \o Recvs(b - 1)
Disp(b, all) == IF z.gap /\ b = 3 THEN <<[e |-> "ADispose", l |-> "L2", d |-> <<0, 2>>, state |-> "accept", all |-> TRUE],
                                          [e |-> "ADispose", l |-> "L2", d |-> <<0>>, state |-> "reject", all |-> FALSE]>>
                ELSE IF all THEN <<[e |-> "ADispose", l |-> "L2", d |-> [i \in 1..b |-> i - 1], state |-> "accept", all |-> TRUE]>>
                ELSE [i \in 1..b |-> [e |-> "ADispose", l |-> "L2", d |-> <<0>>, state |-> "accept", all |-> FALSE]]
Rounds(left, b, all, aa) == IF left <= 0 THEN <<>> ELSE
                            LET k == IF left < b THEN left ELSE b IN Recvs(k) \o (IF aa THEN <<>> ELSE Disp(k, all)) \o Rounds(left - k, b, all, aa)
Emit == z.k = "start" \/ PrintT(<<"SCRIPT", ToJson([side |-> "client", id |-> z, ev |-> Prefix(z.n, z.aa) \o Burst(0, z.n) \o Rounds(z.n, z.b, z.all, z.aa)])>>)
=============================================================================
