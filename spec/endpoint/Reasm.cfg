SPECIFICATION Spec
CONSTANT Links = {1, 2}
CONSTANT NDel = 2
CONSTANT MaxFrames = 3
INVARIANT C10_Exact
INVARIANT C10_NotBefore
INVARIANT C10_Contradiction
INVARIANT C10_OtherLinks
CHECK_DEADLOCK FALSE
