---------------------------- MODULE CreditWake ----------------------------
(* Implementation-shaped model for the liveness half of C08: the task that waits for link
   credit (Consume::consume in link/state.rs) against the session task that applies an incoming
   flow (Producer::produce: update the shared state under the lock, then notify_waiters()).

   tokio semantics: notify_waiters() wakes exactly the Notified futures that exist when it is
   called (modelled by an epoch: a future records the epoch at creation and completes once the
   epoch has moved on).  One program counter per critical section / await point.

   WaitCreatedBeforeCheck = FALSE is the check-then-create order (the lost wake-up: a grant that
   lands between the failed check and the creation of the future is never seen);
   TRUE creates the future first.  TLC shows C08_Wakes fails for FALSE and holds for TRUE; the
   schedule point credit.after_failed_check sits exactly between CCheck and the wait, so the
   failing interleaving is replayed against the real code (CreditGen, hook scripts). *)
EXTENDS Naturals, TLC
CONSTANTS WaitCreatedBeforeCheck, Grants

VARIABLES credit, epoch, pcC, seen, pcP, left
vars == <<credit, epoch, pcC, seen, pcP, left>>
Init == credit = 0 /\ epoch = 0 /\ pcC = (IF WaitCreatedBeforeCheck THEN "create" ELSE "check") /\ seen = 0 /\ pcP = "idle" /\ left = Grants

\* ---- consumer (one send waiting for one credit)
CCreate == /\ pcC = "create" /\ seen' = epoch
           /\ pcC' = (IF WaitCreatedBeforeCheck THEN "check" ELSE "await")
           /\ UNCHANGED <<credit, epoch, pcP, left>>
CCheck == /\ pcC = "check"
          /\ IF credit > 0 THEN credit' = credit - 1 /\ pcC' = "done"
             ELSE UNCHANGED credit /\ pcC' = (IF WaitCreatedBeforeCheck THEN "await" ELSE "create")
          /\ UNCHANGED <<epoch, seen, pcP, left>>
CAwait == /\ pcC = "await" /\ epoch > seen
          /\ pcC' = (IF WaitCreatedBeforeCheck THEN "create" ELSE "check")
          /\ UNCHANGED <<credit, epoch, seen, pcP, left>>
\* ---- producer (the session task applying a flow that grants one credit)
PStart == pcP = "idle" /\ left > 0 /\ pcP' = "update" /\ left' = left - 1 /\ UNCHANGED <<credit, epoch, pcC, seen>>
PUpdate == pcP = "update" /\ credit' = credit + 1 /\ pcP' = "notify" /\ UNCHANGED <<epoch, pcC, seen, left>>
PNotify == pcP = "notify" /\ epoch' = epoch + 1 /\ pcP' = "idle" /\ UNCHANGED <<credit, pcC, seen, left>>

Next == CCreate \/ CCheck \/ CAwait \/ PStart \/ PUpdate \/ PNotify
Spec == Init /\ [][Next]_vars /\ WF_vars(CCreate) /\ WF_vars(CCheck) /\ WF_vars(CAwait) /\ WF_vars(PUpdate) /\ WF_vars(PNotify) /\ WF_vars(PStart)

\* a send that is waiting completes as soon as sufficient credit has been granted
C08_Wakes == (credit > 0) ~> (pcC = "done")
C08_NoOverdraw == credit >= 0
=============================================================================
