SPECIFICATION Spec
CONSTANT Depth = 3
CONSTANT Credit = 2
CONSTANT AutoAccept = TRUE
CONSTANT DcShift = "4294966295"
CONSTANT Side = "client"
INVARIANT Emit
CHECK_DEADLOCK FALSE
