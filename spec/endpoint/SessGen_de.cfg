SPECIFICATION Spec
CONSTANT Depth = 4
CONSTANT Shift = "4294966290"
CONSTANT Win0 = 2
CONSTANT Mms = 150
INVARIANT Emit
CHECK_DEADLOCK FALSE
