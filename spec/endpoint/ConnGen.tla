---------------------------- MODULE ConnGen ----------------------------
(* Gen for C12 (and the connection-level part of C13 / C14 / C17): every sequence of
   application and peer events up to Depth over the alphabet below, for the client and the
   listener side.  The abstract EUT here only prunes scripts that make no sense
   (application calls need a handle; nothing after the transport is gone). *)
EXTENDS Integers, Sequences, TLC, Json
CONSTANTS Depth, Side

\* PFlowUnmapped / PAttachUnmapped: session and link frames on a channel on which no begin was ever exchanged
Peer == {"PHeader", "PHeaderBad", "POpen", "PClose", "PCloseErr", "PBeginUnk", "PBeginOk", "PEndUnmapped", "PEmpty", "PEof", "POpenAgain", "PFlowUnmapped", "PAttachUnmapped"}
App  == {"AClose", "ACloseErr", "ABegin", "ADrop", "AOnClose"}

VARIABLES script, over, opened, localClosed, begun
vars == <<script, over, opened, localClosed, begun>>
Init == script = <<>> /\ over = FALSE /\ opened = FALSE /\ localClosed = FALSE /\ begun = FALSE
Has(e) == \E i \in DOMAIN script : script[i] = e
Bad == {"PHeaderBad", "PBeginUnk", "PEndUnmapped", "PClose", "PCloseErr", "POpenAgain", "PFlowUnmapped", "PAttachUnmapped"}
Step(e) ==
  /\ ~over /\ Len(script) < Depth
  /\ (e \in App => opened /\ ~localClosed)            \* the application holds a handle only after open()/accept() returned
  /\ (e = "ABegin" => Side = "client" /\ ~begun)
  /\ (e = "PBeginOk" => (IF Side = "client" THEN begun ELSE opened))
  /\ (e = "POpenAgain" => Has("POpen"))
  /\ script' = Append(script, e)
  /\ opened' = (opened \/ (e = "POpen" /\ Has("PHeader") /\ ~\E b \in Bad : Has(b)))
  /\ localClosed' = (localClosed \/ e \in {"AClose", "ACloseErr", "ADrop", "AOnClose"})
  /\ begun' = (begun \/ e = "ABegin")
  /\ over' = (e = "PEof")
Next == \E e \in Peer \cup App : Step(e)
Spec == Init /\ [][Next]_vars

\* concrete events of the executor's vocabulary
Conc(e) ==
  CASE e = "PHeader" -> [e |-> "PHeader", kind |-> "amqp"]
    [] e = "PHeaderBad" -> [e |-> "PHeader", kind |-> "bad"]
    [] e = "POpen" -> [e |-> "PFrame", perf |-> "open", ch |-> 0, f |-> [mfs |-> 4096, chmax |-> 10]]
    [] e = "POpenAgain" -> [e |-> "PFrame", perf |-> "open", ch |-> 0, f |-> [mfs |-> 4096, chmax |-> 10]]
    [] e = "PClose" -> [e |-> "PFrame", perf |-> "close", ch |-> 0, f |-> [err |-> ""]]
    [] e = "PCloseErr" -> [e |-> "PFrame", perf |-> "close", ch |-> 0, f |-> [err |-> "x:forced"]]
    [] e = "PFlowUnmapped" -> [e |-> "PFrame", perf |-> "flow", ch |-> 7, f |-> [nii |-> 0, iw |-> 10, noi |-> 0, ow |-> 10]]
    [] e = "PAttachUnmapped" -> [e |-> "PFrame", perf |-> "attach", ch |-> 7, f |-> [name |-> "x", h |-> 0, role |-> "s", snd |-> 2, rcv |-> 0, idc |-> 0]]
    [] e = "PBeginUnk" -> [e |-> "PFrame", perf |-> "begin", ch |-> 4, f |-> [rch |-> 9, noi |-> 0, iw |-> 10, ow |-> 10]]
    [] e = "PBeginOk" -> IF Side = "client" THEN [e |-> "PFrame", perf |-> "begin", ch |-> 3, f |-> [rch |-> [ref |-> "s1"], noi |-> 0, iw |-> 10, ow |-> 10]]
                         ELSE [e |-> "PFrame", perf |-> "begin", ch |-> 3, f |-> [rch |-> -1, noi |-> 0, iw |-> 10, ow |-> 10]]
    [] e = "PEndUnmapped" -> [e |-> "PFrame", perf |-> "end", ch |-> 9, f |-> [err |-> ""]]
    [] e = "PEmpty" -> [e |-> "PEmpty", ch |-> 0]
    [] e = "PEof" -> [e |-> "PEof"]
    [] e = "AClose" -> [e |-> "AClose", err |-> ""]
    [] e = "ACloseErr" -> [e |-> "AClose", err |-> "internal"]
    [] e = "AOnClose" -> [e |-> "AOnClose"]
    [] e = "ABegin" -> [e |-> "ABegin", s |-> "s1", cfg |-> [noi |-> 1000]]
    [] e = "ADrop" -> [e |-> "ADrop", h |-> "conn"]
First == IF Side = "client" THEN [e |-> "AOpen", cfg |-> [mfs |-> 4096]] ELSE [e |-> "AAccept", cfg |-> [mfs |-> 4096]]
Done == over \/ Len(script) = Depth
Emit == Done => PrintT(<<"SCRIPT", ToJson([side |-> Side, id |-> script, ev |-> <<First>> \o [i \in DOMAIN script |-> Conc(script[i])]])>>)
=============================================================================
