---------------------------- MODULE EndpointTrace ----------------------------
(* Validate: replay a recorded trace (many scripts, each starting with an Init event) through the
   observer of Endpoint.tla.  Every line must be consumed; failing clauses are printed. *)
EXTENDS Endpoint, Json, IOUtils
Rec == ndJsonDeserialize(IOEnv.TRACE)
VARIABLES l, s, nfail
vars == <<l, s, nfail>>
TInit == l = 1 /\ s = InitState /\ nfail = 0
TNext == /\ l <= Len(Rec) /\ l' = l + 1
         /\ LET res == Step(s, Rec[l], l) IN s' = res.s /\ nfail' = nfail + res.f
TSpec == TInit /\ [][TNext]_vars
NoFailure == nfail = 0
Accepted == IF TLCGet("stats").diameter - 1 = Len(Rec) THEN PrintT(<<"VALIDATED", Len(Rec)>>)
            ELSE Print(<<"UNMATCHED", TLCGet("stats").diameter>>, FALSE)
=============================================================================
