SPECIFICATION Spec
CONSTANT Depth = 4
CONSTANT Shift = "2147483648"
CONSTANT Win0 = 0
INVARIANT Emit
CHECK_DEADLOCK FALSE
