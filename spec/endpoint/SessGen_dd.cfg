SPECIFICATION Spec
CONSTANT Depth = 4
CONSTANT Shift = "2147483648"
CONSTANT Win0 = 0
CONSTANT Mms = 0
CONSTANT Side = "client"
INVARIANT Emit
CHECK_DEADLOCK FALSE
