---------------------------- MODULE ConnLife ----------------------------
(* Model check for C12: the connection state machine of AMQP 1.0 section 2.4.6 as an endpoint
   that follows it (guarded EUT actions), composed with an arbitrary peer (any frame at any
   time, bounded) and an arbitrary application.  TLC checks that the C12 clauses -- the same
   ones Endpoint.tla evaluates on traces of the real code -- follow from the state machine for
   every interleaving, including pipelined open / close and the DISCARDING state. *)
EXTENDS Naturals, Sequences, TLC
CONSTANT MaxPeer       \* bound on peer frames

States == {"START", "HDR_RCVD", "HDR_SENT", "HDR_EXCH", "OPEN_PIPE", "OC_PIPE", "OPEN_RCVD", "OPEN_SENT", "CLOSE_PIPE", "OPENED", "CLOSE_RCVD", "CLOSE_SENT", "DISCARDING", "END"}
PeerFrames == {"hdr", "open", "close", "begin", "junk"}

VARIABLES st, out, wire, sent, acted, appClosed
vars == <<st, out, wire, sent, acted, appClosed>>
\* out: frames the EUT wrote; wire: peer frames not yet processed; sent: number of peer frames so far;
\* acted: peer frames the EUT acted on (delivered to a session) ; appClosed: the application asked to close

Init == st = "START" /\ out = <<>> /\ wire = <<>> /\ sent = 0 /\ acted = <<>> /\ appClosed = "no"

Write(f) == out' = Append(out, f)
\* ---- EUT output actions
SendHeader == /\ st \in {"START", "HDR_RCVD"} /\ Write("hdr")
              /\ st' = (IF st = "START" THEN "HDR_SENT" ELSE "HDR_EXCH") /\ UNCHANGED <<wire, sent, acted, appClosed>>
SendOpen == /\ st \in {"HDR_SENT", "HDR_EXCH", "OPEN_RCVD"} /\ Write("open")
            /\ st' = (CASE st = "HDR_SENT" -> "OPEN_PIPE" [] st = "HDR_EXCH" -> "OPEN_SENT" [] OTHER -> "OPENED")
            /\ UNCHANGED <<wire, sent, acted, appClosed>>
\* the application's close (with or without error)
AppClose(err) == /\ appClosed = "no" /\ st \in {"OPENED", "OPEN_SENT", "OPEN_PIPE"} /\ appClosed' = (IF err THEN "err" ELSE "clean")
                 /\ UNCHANGED <<st, out, wire, sent, acted>>
SendClose == /\ st \in {"OPENED", "CLOSE_RCVD", "OPEN_SENT", "OPEN_PIPE"} /\ (appClosed # "no" \/ st = "CLOSE_RCVD")
             /\ Write("close")
             /\ st' = (CASE st = "CLOSE_RCVD" -> "END"
                        [] st = "OPEN_PIPE" -> "OC_PIPE"
                        [] st = "OPEN_SENT" -> "CLOSE_PIPE"
                        [] OTHER -> IF appClosed = "err" THEN "DISCARDING" ELSE "CLOSE_SENT")
             /\ UNCHANGED <<wire, sent, acted, appClosed>>
SendOther == /\ st = "OPENED" /\ appClosed = "no" /\ Len(out) < 5 /\ Write("other") /\ UNCHANGED <<st, wire, sent, acted, appClosed>>

\* ---- peer
PeerSend == /\ sent < MaxPeer /\ \E f \in PeerFrames : wire' = Append(wire, f)
            /\ sent' = sent + 1 /\ UNCHANGED <<st, out, acted, appClosed>>

\* ---- EUT input: one frame at a time, reaction per state
\* close with an error instead of acting on the frame -- unless a close has already been written
Illegal == /\ (IF \E i \in DOMAIN out : out[i] = "close" THEN UNCHANGED out ELSE Write("close")) /\ st' = "END"
Recv ==
  /\ wire # <<>> /\ st # "END"
  /\ LET f == Head(wire) IN
     /\ wire' = Tail(wire) /\ UNCHANGED <<sent, appClosed>>
     /\ CASE st \in {"DISCARDING", "CLOSE_SENT"} ->
               \* everything but the peer's close is ignored
               (IF f = "close" THEN st' = "END" ELSE st' = st) /\ UNCHANGED <<out, acted>>
          [] f = "hdr" ->
               (IF st \in {"START", "HDR_SENT", "OPEN_PIPE", "OC_PIPE"}
                THEN st' = (CASE st = "START" -> "HDR_RCVD" [] st = "HDR_SENT" -> "HDR_EXCH" [] st = "OPEN_PIPE" -> "OPEN_SENT" [] OTHER -> "CLOSE_PIPE") /\ UNCHANGED <<out, acted>>
                ELSE st' = "END" /\ UNCHANGED <<out, acted>>)
          [] f = "open" ->
               (IF st \in {"HDR_EXCH", "OPEN_SENT", "CLOSE_PIPE"}
                THEN st' = (CASE st = "HDR_EXCH" -> "OPEN_RCVD" [] st = "OPEN_SENT" -> "OPENED" [] OTHER -> "CLOSE_SENT") /\ UNCHANGED <<out, acted>>
                ELSE IF st \in {"START", "HDR_SENT", "HDR_RCVD", "OPEN_PIPE", "OC_PIPE"} THEN st' = "END" /\ UNCHANGED <<out, acted>>
                ELSE Illegal /\ UNCHANGED acted)
          [] f = "close" ->
               (IF st = "OPENED" THEN st' = "CLOSE_RCVD" /\ UNCHANGED <<out, acted>>
                ELSE IF st \in {"START", "HDR_SENT", "HDR_RCVD", "OPEN_PIPE", "OC_PIPE"} THEN st' = "END" /\ UNCHANGED <<out, acted>>
                ELSE Illegal /\ UNCHANGED acted)
          [] OTHER ->      \* begin / junk
               (IF st = "OPENED" /\ f = "begin" THEN acted' = Append(acted, f) /\ UNCHANGED <<st, out>>
                ELSE IF st \in {"START", "HDR_SENT", "HDR_RCVD", "OPEN_PIPE", "OC_PIPE"} THEN st' = "END" /\ UNCHANGED <<out, acted>>
                ELSE Illegal /\ UNCHANGED acted)

Next == SendHeader \/ SendOpen \/ AppClose(TRUE) \/ AppClose(FALSE) \/ SendClose \/ SendOther \/ PeerSend \/ Recv
Spec == Init /\ [][Next]_vars /\ WF_vars(SendHeader) /\ WF_vars(SendOpen) /\ WF_vars(SendClose) /\ WF_vars(Recv)

Count(f) == Len(SelectSeq(out, LAMBDA x : x = f))
Pos(f) == IF \E i \in DOMAIN out : out[i] = f THEN CHOOSE i \in DOMAIN out : out[i] = f /\ \A j \in 1..(i-1) : out[j] # f ELSE 0
C12_HeaderFirst == out # <<>> => out[1] = "hdr"
C12_OpenOnceFirst == /\ Count("open") <= 1
                     /\ \A i \in DOMAIN out : out[i] \in {"other", "close"} => (Pos("open") > 0 /\ Pos("open") < i) \/ (out[i] = "close" /\ Pos("open") = 0 /\ st = "END")
C12_CloseAtMostOnce == Count("close") <= 1
C12_NothingAfterClose == \A i \in DOMAIN out : out[i] = "close" => i = Len(out)
\* a frame is acted on only in the OPENED state, never after the EUT closed
C12_NoActionWhenNotOpen == acted # <<>> => Pos("open") > 0
\* a peer close received while OPENED is always answered
C12_CloseReply == (st = "CLOSE_RCVD") ~> (st = "END")
=============================================================================
