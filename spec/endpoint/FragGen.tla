---------------------------- MODULE FragGen ----------------------------
(* Gen for C10: one message with header, properties and a data body is cut at every byte offset
   into two frames, and at a grid of offset pairs into three frames (so that cuts fall inside
   section descriptors and length fields); a second link receives an intact message in between.
   Offsets beyond the encoded length degenerate into an empty last frame. *)
EXTENDS Integers, Sequences, TLC, Json
CONSTANTS MaxOff, Step3

Xfer(h, did, first, more, m, len, off, n) ==
  [e |-> "PFrame", perf |-> "transfer", ch |-> 3,
   f |-> [h |-> h, did |-> IF first THEN did ELSE -1, tagn |-> IF first THEN 1 ELSE -1, tag |-> <<did % 250>>, fmt |-> IF first THEN 0 ELSE -1,
          settled |-> IF first THEN "t" ELSE "none", more |-> more, aborted |-> FALSE],
   msg |-> [m |-> m, len |-> len, off |-> off, n |-> n, shape |-> "full"]]
Prefix == <<
  [e |-> "AOpen", cfg |-> [mfs |-> 4096]], [e |-> "PHeader", kind |-> "amqp"],
  [e |-> "PFrame", perf |-> "open", ch |-> 0, f |-> [mfs |-> 4096, chmax |-> 10]],
  [e |-> "ABegin", s |-> "s1", cfg |-> [noi |-> 1000, iw |-> 1000, ow |-> 100]],
  [e |-> "PFrame", perf |-> "begin", ch |-> 3, f |-> [rch |-> [ref |-> "s1"], noi |-> 0, iw |-> 100, ow |-> 100]],
  [e |-> "AAttachR", l |-> "L2", s |-> "s1", cfg |-> [snd |-> 1, rcv |-> 0, credit |-> 200, auto_accept |-> FALSE]],
  [e |-> "PFrame", perf |-> "attach", ch |-> 3, f |-> [name |-> "L2", h |-> 6, role |-> "s", snd |-> 1, rcv |-> 0, idc |-> 0]],
  [e |-> "AAttachR", l |-> "L3", s |-> "s1", cfg |-> [snd |-> 1, rcv |-> 0, credit |-> 200, auto_accept |-> FALSE]],
  [e |-> "PFrame", perf |-> "attach", ch |-> 3, f |-> [name |-> "L3", h |-> 7, role |-> "s", snd |-> 1, rcv |-> 0, idc |-> 0]] >>
\* delivery j of a script (0-based) cut in two at offset k, with a whole message on the other link in between
Two(j, k) == << Xfer(6, 2 * j, TRUE, TRUE, 300 + j, 40, 0, k), Xfer(7, 2 * j + 1, TRUE, FALSE, 600 + j, 5, 0, -1), Xfer(6, 2 * j, FALSE, FALSE, 300 + j, 40, k, -1),
                [e |-> "ARecv", l |-> "L2"], [e |-> "ARecv", l |-> "L3"] >>
Three(j, a, b) == << Xfer(6, 2 * j, TRUE, TRUE, 300 + j, 40, 0, a), Xfer(6, 2 * j, FALSE, TRUE, 300 + j, 40, a, b - a), Xfer(6, 2 * j, FALSE, FALSE, 300 + j, 40, b, -1),
                     [e |-> "ARecv", l |-> "L2"] >>
RECURSIVE Cat(_)
Cat(ss) == IF ss = <<>> THEN <<>> ELSE Head(ss) \o Cat(Tail(ss))

VARIABLE z
Init == z = [k |-> "start"]
Next == /\ z.k = "start"
        /\ \/ \E b \in 0..(MaxOff \div 8) : z' = [k |-> "two", b |-> b]
           \/ \E a \in {x \in 1..MaxOff : x % Step3 = 1} : z' = [k |-> "three", b |-> a]
Spec == Init /\ [][Next]_z
Script == IF z.k = "two" THEN Cat([j \in 1..8 |-> Two(j - 1, z.b * 8 + j - 1)])
          ELSE Cat([j \in 1..6 |-> Three(j - 1, z.b, z.b + 1 + (j - 1) * Step3)])
Emit == z.k = "start" \/ PrintT(<<"SCRIPT", ToJson([side |-> "client", id |-> <<z.k, z.b>>, ev |-> Prefix \o Script])>>)
=============================================================================
