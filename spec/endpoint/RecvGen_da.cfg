SPECIFICATION Spec
CONSTANT Depth = 4
CONSTANT Credit = 1
CONSTANT AutoAccept = FALSE
CONSTANT DcShift = "0"
CONSTANT Side = "client"
INVARIANT Emit
CHECK_DEADLOCK FALSE
