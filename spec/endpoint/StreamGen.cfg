SPECIFICATION Spec
CONSTANT Ns = {2, 4, 6, 10}
CONSTANT Bs = {1, 2, 3, 4}
INVARIANT Emit
CHECK_DEADLOCK FALSE
