---------------------------- MODULE Ids ----------------------------
(* Model check for C11: allocation of handles (the same rule serves channels) and delivery-ids.
   Handles: the smallest free one is taken at attach and released only when the endpoint's own
   detach has been written.  Delivery-ids: taken from next-outgoing-id (serial, modulo M) at the
   first frame of a delivery; continuation frames repeat it or leave it out. *)
EXTENDS Integers, Sequences, FiniteSets, TLC
CONSTANTS MaxHandle, M, Start, NDel, Names

VARIABLES held,       \* name -> handle or -1
          wire,       \* frames: [k |-> "attach"/"detach"/"xfer", h, name, did, first]
          nextId, cur
vars == <<held, wire, nextId, cur>>
Init == held = [n \in Names |-> -1] /\ wire = <<>> /\ nextId = Start /\ cur = [n \in Names |-> -1]
Free == (0..MaxHandle) \ {held[n] : n \in Names}
Attach(n) == /\ held[n] = -1 /\ Free # {} /\ Len(wire) < 8
             /\ LET h == CHOOSE h \in Free : \A g \in Free : h <= g IN
                held' = [held EXCEPT ![n] = h] /\ wire' = Append(wire, [k |-> "attach", h |-> h, name |-> n, did |-> -1, first |-> FALSE])
             /\ UNCHANGED <<nextId, cur>>
Detach(n) == /\ held[n] # -1 /\ cur[n] = -1 /\ Len(wire) < 8
             /\ wire' = Append(wire, [k |-> "detach", h |-> held[n], name |-> n, did |-> -1, first |-> FALSE])
             /\ held' = [held EXCEPT ![n] = -1] /\ UNCHANGED <<nextId, cur>>
First(n, more) == /\ held[n] # -1 /\ cur[n] = -1 /\ Len(wire) < 8 /\ Len(SelectSeq(wire, LAMBDA f : f.k = "xfer" /\ f.first)) < NDel
                  /\ wire' = Append(wire, [k |-> "xfer", h |-> held[n], name |-> n, did |-> nextId, first |-> TRUE])
                  /\ nextId' = (nextId + 1) % M /\ cur' = [cur EXCEPT ![n] = IF more THEN nextId ELSE -1] /\ UNCHANGED held
Cont(n, more, withId) == /\ cur[n] # -1 /\ Len(wire) < 8
                         /\ wire' = Append(wire, [k |-> "xfer", h |-> held[n], name |-> n, did |-> IF withId THEN cur[n] ELSE -1, first |-> FALSE])
                         /\ nextId' = (nextId + 1) % M      \* every frame takes a transfer-id; only first frames define a delivery-id
                         /\ cur' = [cur EXCEPT ![n] = IF more THEN cur[n] ELSE -1] /\ UNCHANGED held
Next == \E n \in Names : Attach(n) \/ Detach(n) \/ \E m \in BOOLEAN : First(n, m) \/ \E w \in BOOLEAN : Cont(n, m, w)
Spec == Init /\ [][Next]_vars

\* who holds handle h after the first i frames
Holder(h, i) == LET a == {j \in 1..i : wire[j].k = "attach" /\ wire[j].h = h} d == {j \in 1..i : wire[j].k = "detach" /\ wire[j].h = h} IN
                IF a = {} THEN "none" ELSE LET ja == CHOOSE j \in a : \A x \in a : x <= j IN
                IF \E j \in d : j > ja THEN "none" ELSE wire[ja].name
C11_HandleUnique == \A i \in DOMAIN wire : wire[i].k = "attach" => Holder(wire[i].h, i - 1) = "none"
C11_NameOnce == \A i \in DOMAIN wire : wire[i].k = "attach" => ~\E h \in 0..MaxHandle : Holder(h, i - 1) = wire[i].name
C11_FramesOnHeldHandle == \A i \in DOMAIN wire : wire[i].k = "xfer" => Holder(wire[i].h, i - 1) = wire[i].name
FirstIds == [i \in 1..Len(SelectSeq(wire, LAMBDA f : f.k = "xfer" /\ f.first)) |-> SelectSeq(wire, LAMBDA f : f.k = "xfer" /\ f.first)[i].did]
\* serial order: each delivery-id is ahead of the previous one by less than half the ring
C11_DeliveryIdIncreasing == \A i \in 1..(Len(FirstIds) - 1) : LET d == (FirstIds[i + 1] - FirstIds[i] + M) % M IN d > 0 /\ d < M \div 2
C11_ContinuationId == \A i \in DOMAIN wire : (wire[i].k = "xfer" /\ ~wire[i].first /\ wire[i].did # -1) =>
                         \E j \in 1..(i - 1) : wire[j].k = "xfer" /\ wire[j].first /\ wire[j].name = wire[i].name /\ wire[j].did = wire[i].did
                                               /\ ~\E x \in (j + 1)..(i - 1) : wire[x].k = "xfer" /\ wire[x].first /\ wire[x].name = wire[i].name
=============================================================================
