SPECIFICATION Spec
CONSTANT Depth = 4
CONSTANT Side = "client"
INVARIANT Emit
CHECK_DEADLOCK FALSE
