SPECIFICATION Spec
CONSTANT Side = "client"
CONSTANT Only = "burst"
INVARIANT Emit
CHECK_DEADLOCK FALSE
