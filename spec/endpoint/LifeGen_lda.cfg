SPECIFICATION Spec
CONSTANT Depth = 5
CONSTANT PeerHandleBase = 0
CONSTANT Side = "listener"
INVARIANT Emit
CHECK_DEADLOCK FALSE
CONSTANT C1 = 3
CONSTANT C2 = 4
CONSTANT Focus = "all"
