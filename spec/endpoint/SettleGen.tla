---------------------------- MODULE SettleGen ----------------------------
(* Gen for C02 (sender side): two sending links on one session, batchable sends whose outcomes are
   awaited later, and every sequence up to Depth of peer dispositions: single ids, ranges covering
   several deliveries and both links, duplicates, terminal states settled and unsettled, the
   non-terminal `received` state, out of order.  SndMode / RcvMode select the settle modes. *)
EXTENDS Integers, Sequences, TLC, Json
CONSTANTS Depth, RcvMode, SndMode, PeerRcv, PeerH1, PeerH3, Side   \* PeerRcv: the rcv-settle-mode the receiving peer states in its attach (the mode in use; may differ from what the sender proposed)
\*   \* PeerH*: the handles the peer assigns to the two links

Alphabet == {"Send1", "Send3", "SendSettled", "D0acc", "D1rej", "D01rel", "DAllmod", "D2acc", "D0accU", "D1relU", "D0recvU", "Await0", "Await1", "Await2",
             \* the first link is closed with its deliveries unsettled: a later range that also names them must still resolve the other link's
             "Close1",
             \* the first link is closed, attached again under its name (same handle, delivery-tags start over) and sends: a disposition that still
             \* names a delivery of the closed attachment is not about the new delivery
             "Cycle1"}
VARIABLES script
Init == script = <<>>
Next == Len(script) < Depth /\ \E e \in Alphabet : script' = Append(script, e)
Spec == Init /\ [][Next]_script

Disp(a, b, settled, st) == [e |-> "PFrame", perf |-> "disposition", ch |-> 3, ech |-> 0,
                             f |-> [role |-> "r", first |-> [d |-> a], last |-> IF b = a THEN -1 ELSE [d |-> b], settled |-> settled, state |-> [k |-> st, cond |-> "", txn |-> <<>>]]]
LFlow(h) == [e |-> "PFrame", perf |-> "flow", ch |-> 3, ech |-> 0, f |-> [nii |-> [seen |-> 0], iw |-> 5000, noi |-> 0, ow |-> 100, h |-> h, dc |-> 0, lc |-> 100]]
Att(l) == IF Side = "client" THEN [e |-> "AAttachS", l |-> l, s |-> "s1", cfg |-> [snd |-> SndMode, rcv |-> RcvMode, idc |-> 0]] ELSE [e |-> "AAcceptLink", l |-> l, s |-> "s1", cfg |-> [idc |-> 0]]
Prefix ==
  (IF Side = "client"
   THEN << [e |-> "AOpen", cfg |-> [mfs |-> 4096]], [e |-> "PHeader", kind |-> "amqp"], [e |-> "PFrame", perf |-> "open", ch |-> 0, f |-> [mfs |-> 4096, chmax |-> 10]],
           [e |-> "ABegin", s |-> "s1", cfg |-> [noi |-> 1000, iw |-> 100, ow |-> 100]],
           [e |-> "PFrame", perf |-> "begin", ch |-> 3, f |-> [rch |-> [ref |-> "s1"], noi |-> 0, iw |-> 5000, ow |-> 100]] >>
   ELSE << [e |-> "AAccept", cfg |-> [mfs |-> 4096]], [e |-> "PHeader", kind |-> "amqp"], [e |-> "PFrame", perf |-> "open", ch |-> 0, f |-> [mfs |-> 4096, chmax |-> 10]],
           [e |-> "AAcceptSession", s |-> "s1", cfg |-> [noi |-> 1000, iw |-> 100, ow |-> 100]],
           [e |-> "PFrame", perf |-> "begin", ch |-> 3, f |-> [rch |-> -1, noi |-> 0, iw |-> 5000, ow |-> 100]] >>)
  \o << Att("L1"),
        [e |-> "PFrame", perf |-> "attach", ch |-> 3, f |-> [name |-> "L1", h |-> PeerH1, role |-> "r", snd |-> SndMode, rcv |-> PeerRcv]],
        LFlow(PeerH1),
        Att("L3"),
        [e |-> "PFrame", perf |-> "attach", ch |-> 3, f |-> [name |-> "L3", h |-> PeerH3, role |-> "r", snd |-> SndMode, rcv |-> PeerRcv]],
        LFlow(PeerH3) >>
RECURSIVE Body(_, _, _)
Body(sc, i, ns) ==
  IF i > Len(sc) THEN <<>> ELSE
  LET e == sc[i] IN
  CASE e = "Send1" -> <<[e |-> "ASend", l |-> "L1", m |-> ns + 1, len |-> 20, batchable |-> TRUE]>> \o Body(sc, i + 1, ns + 1)
    [] e = "Send3" -> <<[e |-> "ASend", l |-> "L3", m |-> ns + 1, len |-> 20, batchable |-> TRUE]>> \o Body(sc, i + 1, ns + 1)
    [] e = "SendSettled" -> <<[e |-> "ASend", l |-> "L1", m |-> ns + 1, len |-> 20, batchable |-> TRUE, settled |-> TRUE]>> \o Body(sc, i + 1, ns + 1)
    [] e = "D0acc" -> <<Disp(0, 0, TRUE, "accepted")>> \o Body(sc, i + 1, ns)
    [] e = "D1rej" -> <<Disp(1, 1, TRUE, "rejected")>> \o Body(sc, i + 1, ns)
    [] e = "D01rel" -> <<Disp(0, 1, TRUE, "released")>> \o Body(sc, i + 1, ns)
    [] e = "DAllmod" -> <<Disp(0, 2, TRUE, "modified")>> \o Body(sc, i + 1, ns)
    [] e = "D2acc" -> <<Disp(2, 2, TRUE, "accepted")>> \o Body(sc, i + 1, ns)
    [] e = "D0accU" -> <<Disp(0, 0, FALSE, "accepted")>> \o Body(sc, i + 1, ns)
    [] e = "D1relU" -> <<Disp(1, 1, FALSE, "released")>> \o Body(sc, i + 1, ns)
    [] e = "D0recvU" -> <<Disp(0, 1, FALSE, "received")>> \o Body(sc, i + 1, ns)
    [] e = "Close1" -> <<[e |-> "ADetach", l |-> "L1", closed |-> TRUE], [e |-> "PFrame", perf |-> "detach", ch |-> 3, needs_prev |-> TRUE, f |-> [h |-> PeerH1, closed |-> TRUE, err |-> ""]]>> \o Body(sc, i + 1, ns)
    [] e = "Cycle1" -> <<[e |-> "ADetach", l |-> "L1", closed |-> TRUE], [e |-> "PFrame", perf |-> "detach", ch |-> 3, needs_prev |-> TRUE, f |-> [h |-> PeerH1, closed |-> TRUE, err |-> ""]],
                          Att("L1"), [e |-> "PFrame", perf |-> "attach", ch |-> 3, needs_prev |-> TRUE, f |-> [name |-> "L1", h |-> PeerH1, role |-> "r", snd |-> SndMode, rcv |-> PeerRcv]], LFlow(PeerH1),
                          [e |-> "ASend", l |-> "L1", m |-> ns + 1, len |-> 20, batchable |-> TRUE]>> \o Body(sc, i + 1, ns + 1)
    [] e = "Await0" -> <<[e |-> "AAwaitOutcome", nth |-> 0]>> \o Body(sc, i + 1, ns)
    [] e = "Await1" -> <<[e |-> "AAwaitOutcome", nth |-> 1]>> \o Body(sc, i + 1, ns)
    [] e = "Await2" -> <<[e |-> "AAwaitOutcome", nth |-> 2]>> \o Body(sc, i + 1, ns)
Suffix == << [e |-> "AAwaitOutcome", nth |-> 0], [e |-> "AAwaitOutcome", nth |-> 1], [e |-> "AAwaitOutcome", nth |-> 2], Disp(0, 3, TRUE, "accepted") >>
Done == Len(script) = Depth
Emit == Done => PrintT(<<"SCRIPT", ToJson([side |-> Side, id |-> <<Side, RcvMode, SndMode, PeerH1, PeerH3>> \o script, ev |-> Prefix \o Body(script, 1, 0) \o Suffix])>>)
=============================================================================
