SPECIFICATION Spec
CONSTANT WaitCreatedBeforeCheck = FALSE
CONSTANT Grants = 1
PROPERTY C08_Wakes
CHECK_DEADLOCK FALSE
