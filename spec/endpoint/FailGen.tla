---------------------------- MODULE FailGen ----------------------------
(* Gen for C14: a reference conversation is cut at every step by every kind of failure, with the
   step's own call (or a data-path call) still pending; afterwards every handle is used again:
   awaiting the outcome of an earlier batchable send, send, recv, attach, begin, detach, end,
   close, and finally every handle is dropped.  Every call must return, data-path calls with an
   error that names the right scope and carries the peer's condition, and all engine tasks end. *)
EXTENDS Integers, Sequences, TLC, Json
CONSTANTS Side, Only     \* Only: "all" | "burst" (just the scripts that have frames queued when the peer's close is read)

Faults == {"eof", "reset", "partial", "close", "closeErr", "end", "endErr", "detachS", "detachSErr", "detachR", "silentEof", "detachSnc", "detachRnc",
           \* ..A: the peer's error condition lies in the reserved amqp: namespace but is not one this build knows (a newer or vendor-extended peer)
           "closeErrA", "endErrA", "detachSErrA",   \* ..nc: detach without closing
           \* the peer refuses the sending link whose attach is pending: it answers with an attach that has no target and closes it with an error
           "refuseS",
           \* the peer ends the session with an error and, in the same write, closes the connection / cuts the transport: the calls on that
           \* session's links still learn that the session was ended, and why
           "endErrClose", "endErrEof"}
\* cut: number of completed steps before the failure; pend: what is pending when it strikes
Cuts == 0..6
Pends == {"step", "none", "send", "recv", "close", "end", "detach", "burst1", "burst2", "burst3", "burst5"}   \* close / end / detach: the local teardown call crosses the failure on the wire
Bursts == {"burst1", "burst2", "burst3", "burst5"}
VARIABLE z
Init == z = [k |-> "start"]
Applicable(c, f, p) ==
  /\ (f \in {"end", "endErr", "endErrA", "endErrClose", "endErrEof"} => c >= 2)
  /\ (f \in {"endErrClose", "endErrEof"} => p \in {"none", "send", "recv"} /\ c \in {4, 6}) /\ (f \in {"detachS", "detachSErr", "detachSnc", "detachSErrA"} => c >= 3)
  /\ (f \in {"closeErrA", "endErrA", "detachSErrA"} => p \in {"none", "send", "recv"} /\ c \in {4, 6}) /\ (f \in {"detachR", "detachRnc"} => c >= 4)
  /\ (f = "refuseS" => c = 2 /\ p = "step" /\ Side = "client")
  /\ (p = "send" => c >= 3) /\ (p = "recv" => c >= 4) /\ (p = "step" => c <= 5)
  /\ (p = "close" => c >= 1) /\ (p = "end" => c >= 2) /\ (p = "detach" => c >= 3)
  \* (answering a closing detach with a non-closing one is itself a violation by the peer: not a failure to propagate)
  /\ ~(p = "detach" /\ f = "detachSnc")
  \* burstK: a burst of link-level frames handed over in one go, K scheduler turns, then the peer's close: frames are still
  \* queued inside the endpoint when the close is read
  /\ (p \in Bursts => c \in {3, 4} /\ f \in {"close", "closeErr"} /\ Side = "client")
  /\ (Only = "burst" => p \in Bursts)
Next == z.k = "start" /\ \E c \in Cuts, f \in Faults, p \in Pends : Applicable(c, f, p) /\ z' = [k |-> "case", c |-> c, f |-> f, p |-> p]
Spec == Init /\ [][Next]_z

PF(perf, ch, f) == [e |-> "PFrame", perf |-> perf, ch |-> ch, f |-> f]
LinkFlow(h) == [e |-> "PFrame", perf |-> "flow", ch |-> 3, ech |-> 0, f |-> [nii |-> [seen |-> 0], iw |-> 100, noi |-> 0, ow |-> 100, h |-> h, dc |-> [seen |-> 0], lc |-> 50]]
\* step i: <<application event, peer's answer>>
Step(i) ==
  \* (burst scripts run over a 300-byte transport pipe: the connection engine blocks in its first write with the rest of the burst
  \*  queued behind it, so that the peer's close and queued frames are ready at the same time)
  CASE i = 1 -> << <<[e |-> (IF Side = "client" THEN "AOpen" ELSE "AAccept"), cfg |-> [mfs |-> 4096, pipe |-> IF Only = "burst" \/ z.p \in Bursts THEN 300 ELSE 4194304]], [e |-> "PHeader", kind |-> "amqp"]>>, <<PF("open", 0, [mfs |-> 4096, chmax |-> 10])>> >>
    [] i = 2 -> IF Side = "client" THEN << <<[e |-> "ABegin", s |-> "s1", cfg |-> [noi |-> 1000, iw |-> 100, ow |-> 100]]>>, <<PF("begin", 3, [rch |-> [ref |-> "s1"], noi |-> 0, iw |-> 100, ow |-> 100])>> >>
                ELSE << <<[e |-> "AAcceptSession", s |-> "s1", cfg |-> [noi |-> 1000, iw |-> 100, ow |-> 100]]>>, <<PF("begin", 3, [rch |-> -1, noi |-> 0, iw |-> 100, ow |-> 100])>> >>
    [] i = 3 -> IF Side = "client" THEN << <<[e |-> "AAttachS", l |-> "L1", s |-> "s1", cfg |-> [snd |-> 2, rcv |-> 0, idc |-> 0, mms |-> 200]]>>, <<PF("attach", 3, [name |-> "L1", h |-> 5, role |-> "r", snd |-> 2, rcv |-> 0]), LinkFlow(5)>> >>
                ELSE << <<[e |-> "AAcceptLink", l |-> "L1", s |-> "s1", cfg |-> [credit |-> 5]]>>, <<PF("attach", 3, [name |-> "L1", h |-> 5, role |-> "r", snd |-> 2, rcv |-> 0]), LinkFlow(5)>> >>
    [] i = 4 -> IF Side = "client" THEN << <<[e |-> "AAttachR", l |-> "L2", s |-> "s1", cfg |-> [snd |-> 2, rcv |-> 0, credit |-> 5, auto_accept |-> FALSE]]>>, <<PF("attach", 3, [name |-> "L2", h |-> 6, role |-> "s", snd |-> 2, rcv |-> 0, idc |-> 0])>> >>
                ELSE << <<[e |-> "AAcceptLink", l |-> "L2", s |-> "s1", cfg |-> [credit |-> 5]]>>, <<PF("attach", 3, [name |-> "L2", h |-> 6, role |-> "s", snd |-> 2, rcv |-> 0, idc |-> 0])>> >>
    [] i = 5 -> << <<[e |-> "ASend", l |-> "L1", m |-> 1, len |-> 20, batchable |-> TRUE]>>, <<>> >>
    [] OTHER -> << <<[e |-> "ASend", l |-> "L1", m |-> 2, len |-> 1500, batchable |-> TRUE]>>, <<>> >>
RECURSIVE Done(_, _)
Done(i, c) == IF i > c THEN <<>> ELSE Step(i)[1] \o Step(i)[2] \o Done(i + 1, c)
Pending(c, p) == CASE p = "step" -> Step(c + 1)[1]
                   [] p = "send" -> <<[e |-> "ASend", l |-> "L1", m |-> 7, len |-> 20]>>
                   [] p = "recv" -> <<[e |-> "ARecv", l |-> "L2"]>>
                   [] p = "close" -> <<[e |-> "AClose", err |-> ""]>>
                   [] p = "end" -> <<[e |-> "AEnd", s |-> "s1"]>>
                   [] p = "detach" -> <<[e |-> "ADetach", l |-> "L1", closed |-> TRUE]>>
                   \* one pre-settled message far larger than the link's max-message-size (200): some thirty link-level frames are handed over in one go
                   [] p \in Bursts -> <<[e |-> "ASend", l |-> "L1", m |-> 21, len |-> 6000, batchable |-> TRUE, settled |-> TRUE, nosettle |-> TRUE],
                                        [e |-> "Yield", n |-> (CASE p = "burst1" -> 1 [] p = "burst2" -> 2 [] p = "burst3" -> 3 [] OTHER -> 5), nosettle |-> TRUE]>>
                   [] OTHER -> <<>>
Fault(f) == CASE f = "eof" -> <<[e |-> "PEof", keep_read |-> TRUE]>>
              [] f = "silentEof" -> <<[e |-> "PEof", keep_read |-> FALSE]>>
              [] f = "reset" -> <<[e |-> "PReset"]>>
              [] f = "partial" -> <<[e |-> "PRaw", tag |-> "partial", b |-> <<0, 0, 0, 40, 2, 0, 0, 3, 0, 83>>], [e |-> "PEof", keep_read |-> TRUE]>>
              [] f = "close" -> <<PF("close", 0, [err |-> ""])>>
              [] f = "closeErr" -> <<PF("close", 0, [err |-> "x:forced"])>>
              [] f = "closeErrA" -> <<PF("close", 0, [err |-> "amqp:connection:maintenance"])>>
              [] f = "endErrA" -> <<PF("end", 3, [err |-> "amqp:session:maintenance"])>>
              [] f = "detachSErrA" -> <<PF("detach", 3, [h |-> 5, closed |-> TRUE, err |-> "amqp:link:maintenance"])>>
              [] f = "end" -> <<PF("end", 3, [err |-> ""])>>
              [] f = "endErr" -> <<PF("end", 3, [err |-> "x:ended"])>>
              [] f = "endErrClose" -> <<[e |-> "PFrame", perf |-> "end", ch |-> 3, nosettle |-> TRUE, f |-> [err |-> "x:ended"]], PF("close", 0, [err |-> ""])>>
              [] f = "endErrEof" -> <<[e |-> "PFrame", perf |-> "end", ch |-> 3, nosettle |-> TRUE, f |-> [err |-> "x:ended"]], [e |-> "PEof", keep_read |-> TRUE]>>
              [] f = "detachS" -> <<PF("detach", 3, [h |-> 5, closed |-> TRUE, err |-> ""])>>
              [] f = "detachSErr" -> <<PF("detach", 3, [h |-> 5, closed |-> TRUE, err |-> "x:gone"])>>
              [] f = "refuseS" -> <<[e |-> "PFrame", perf |-> "attach", ch |-> 3, nosettle |-> TRUE, f |-> [name |-> "L1", h |-> 5, role |-> "r", snd |-> 2, rcv |-> 0, tgt |-> FALSE]],
                                    PF("detach", 3, [h |-> 5, closed |-> TRUE, err |-> "x:refused"])>>   \* (written in one go: both frames are there when the endpoint reads)
              [] f = "detachSnc" -> <<PF("detach", 3, [h |-> 5, closed |-> FALSE, err |-> "x:gone"])>>
              [] f = "detachRnc" -> <<PF("detach", 3, [h |-> 6, closed |-> FALSE, err |-> "x:gone"])>>
              [] OTHER -> <<PF("detach", 3, [h |-> 6, closed |-> TRUE, err |-> "x:gone"])>>
Probe == << [e |-> "Mark", what |-> "fault-done"],
            [e |-> "AAwaitOutcome", nth |-> 0], [e |-> "ASend", l |-> "L1", m |-> 8, len |-> 20], [e |-> "ARecv", l |-> "L2"],
            [e |-> "AAttachS", l |-> "L5", s |-> "s1", cfg |-> [snd |-> 2, rcv |-> 0, idc |-> 0]],
            [e |-> "ABegin", s |-> "s2", cfg |-> [noi |-> 1000]],
            [e |-> "ADetach", l |-> "L1", closed |-> TRUE], [e |-> "ADetach", l |-> "L2", closed |-> TRUE], [e |-> "AEnd", s |-> "s1"], [e |-> "AClose", err |-> ""],
            [e |-> "ADrop", h |-> "l:L1"], [e |-> "ADrop", h |-> "l:L2"], [e |-> "ADrop", h |-> "l:L5"], [e |-> "ADrop", h |-> "s:s1"], [e |-> "ADrop", h |-> "s:s2"], [e |-> "ADrop", h |-> "conn"] >>
Emit == z.k = "start" \/ PrintT(<<"SCRIPT", ToJson([side |-> Side, id |-> <<Side, z.c, z.f, z.p>>, final_ms |-> 3600000, ev |-> Done(1, z.c) \o Pending(z.c, z.p) \o Fault(z.f) \o Probe])>>)
=============================================================================
