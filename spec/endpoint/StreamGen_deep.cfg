SPECIFICATION Spec
CONSTANT Ns = {1, 2, 3, 4, 5, 6, 8, 10, 16}
CONSTANT Bs = {1, 2, 3, 4, 5, 7}
INVARIANT Emit
CHECK_DEADLOCK FALSE
