SPECIFICATION Spec
CONSTANT M = 8
CONSTANT MaxCredit = 2
CONSTANT Starts = {0, 6}
CONSTANT NDel = 3
INVARIANT C08_NeverBeyondLimit
PROPERTY C08_DrainAnswered
CHECK_DEADLOCK FALSE
