SPECIFICATION Spec
CONSTANT Depth = 3
CONSTANT DcShift = "0"
CONSTANT Hook = FALSE
CONSTANT Side = "client"
CONSTANT Mms = 200
INVARIANT Emit
CHECK_DEADLOCK FALSE
CONSTANT Pipelined = FALSE
