---------------------------- MODULE LifeGen ----------------------------
(* Gen for C13 and C11: sessions and links coming and going.  Macro events expand to a local
   call plus the peer's answer (or the peer acting first and the application touching the link
   afterwards).  Guards keep scripts meaningful (a link is detached only while attached, ...).
   Two sessions, four links, re-attach after detach (handle reuse), duplicate link name, attach
   refused by the peer, peer detach / end with and without error, handle drops, sends queued right
   before a detach / end / drop. *)
EXTENDS Integers, Sequences, FiniteSets, TLC, Json
CONSTANTS Depth, PeerHandleBase, Side, Focus, C1, C2     \* C1 / C2: the channel numbers the peer uses for its first / second session (need not mirror the endpoint's)
\*     \* Side: "client" | "listener" (the endpoint accepts sessions and links the peer starts)

VARIABLES script, att, s2, ended1, pdet, s3
vars == <<script, att, s2, ended1, pdet, s3>>
Init == script = <<>> /\ att = {} /\ s2 = FALSE /\ ended1 = FALSE /\ pdet = {} /\ s3 = FALSE

Ev == {"AttS1", "AttR2", "AttDup", "Refuse4", "DetS1", "CloseS1", "DropS1", "CloseR2", "PDetS1err", "PDetS1nc", "PCloseR2", "Send1", "SendDrop1", "SendDet1",
       "Beg2", "AttS3", "Send3", "End1", "End1err", "PEnd1", "PEnd1err", "End2", "SendEnd1", "PDetS1idle", "SendQEndErr1", "DropEndErr1",
       "PDetS1close", "PDetS1drop",
       \* after the first session has ended the peer answers a new session on the same channel number (3): its frames belong to the new session
       "Beg3", "AttS5", "Send5",
       \* a delivery arrives on the receiving link and is never read; the peer answers a local end with an error
       "In2", "End1PErr",
       \* frames of the peer that were on their way when the endpoint ended the session (plain / with an error): nothing is answered after the end
       "End1Traffic", "End1errTraffic",
       \* the application has seen the peer's detach (on_detach) and then drops the handle: the detach is still answered
       "PDetS1seenDrop",
       \* a receiving link whose session-to-link channel holds exactly three frames gets three deliveries that nobody reads, then the peer closes
       \* it with an error: the channel is full when the detach arrives; the application still gets the deliveries and then the peer's error
       "R6FullPClose",
       \* the handle of an attached link is dropped and, in the same scheduler turn, another link is attached on that session: the session engine
       \* finds the detach of the old link and the allocation of the new one ready together (which it serves first is random)
       "DropReatt1",
       \* the application detaches without closing; the peer answers with a closing detach that carries an error: closing is answered with
       \* closing, for which the endpoint attaches the link once more (the peer answers that attach and the closing detach)
       "DetS1PClose"}
ClientOnly == {"AttDup", "Refuse4", "R6FullPClose"}
\* Focus = "sessions": only the events that begin / end sessions and put traffic on them (channel numbers the peer chooses freely)
SessionEvents == {"AttS1", "Send1", "AttR2", "In2", "Beg2", "AttS3", "Send3", "End1", "End1err", "PEnd1", "End2", "Beg3", "AttS5", "Send5"}
Enabled(e) ==
  (Side = "client" \/ e \notin ClientOnly) /\ (Focus = "all" \/ e \in SessionEvents) /\
  CASE e = "AttS1" -> ~ended1 /\ "L1" \notin att
    [] e = "AttR2" -> ~ended1 /\ "L2" \notin att
    [] e = "AttDup" -> ~ended1 /\ "L1" \in att /\ "L1" \notin pdet
    [] e = "Refuse4" -> ~ended1
    [] e = "R6FullPClose" -> ~ended1 /\ "L6" \notin att
    [] e = "DropReatt1" -> ~ended1 /\ "L1" \in att /\ "L1" \notin pdet /\ \A i \in DOMAIN script : script[i] # "DropReatt1"
    [] e = "DetS1PClose" -> ~ended1 /\ "L1" \in att /\ "L1" \notin pdet
    [] e \in {"DetS1", "CloseS1", "DropS1", "PDetS1err", "PDetS1nc", "PDetS1idle", "PDetS1close", "PDetS1drop", "PDetS1seenDrop", "Send1", "SendDrop1", "SendDet1"} -> ~ended1 /\ "L1" \in att /\ "L1" \notin pdet
    [] e \in {"CloseR2", "PCloseR2", "In2"} -> ~ended1 /\ "L2" \in att /\ "L2" \notin pdet
    [] e = "Beg2" -> ~s2
    [] e = "Beg3" -> ended1 /\ ~s3
    [] e = "AttS5" -> s3 /\ "L5" \notin att
    [] e = "Send5" -> s3 /\ "L5" \in att
    [] e = "AttS3" -> s2 /\ "L3" \notin att
    [] e = "Send3" -> s2 /\ "L3" \in att
    [] e = "End2" -> s2
    [] e \in {"End1", "End1err", "PEnd1", "PEnd1err", "End1PErr"} -> ~ended1
    [] e \in {"SendEnd1", "SendQEndErr1", "DropEndErr1", "End1Traffic", "End1errTraffic"} -> ~ended1 /\ "L1" \in att /\ "L1" \notin pdet
Step(e) ==
  /\ Len(script) < Depth /\ Enabled(e) /\ script' = Append(script, e)
  /\ att' = CASE e = "AttS1" -> att \cup {"L1"} [] e = "AttR2" -> att \cup {"L2"} [] e = "AttS3" -> att \cup {"L3"} [] e = "AttS5" -> att \cup {"L5"} [] e = "R6FullPClose" -> att \cup {"L6"}
              [] e \in {"DetS1", "CloseS1", "DropS1", "DropReatt1", "DetS1PClose", "SendDrop1", "SendDet1", "PDetS1close", "PDetS1drop", "PDetS1seenDrop"} -> att \ {"L1"} [] e = "CloseR2" -> att \ {"L2"}
              [] e \in {"End1", "End1err", "PEnd1", "PEnd1err", "End1PErr", "SendEnd1", "SendQEndErr1", "DropEndErr1", "End1Traffic", "End1errTraffic"} -> att \ {"L1", "L2"} [] e = "End2" -> att \ {"L3"} [] OTHER -> att
  /\ s2' = IF e = "Beg2" THEN TRUE ELSE IF e = "End2" THEN FALSE ELSE s2
  /\ s3' = (s3 \/ e = "Beg3")
  /\ ended1' = (ended1 \/ e \in {"End1", "End1err", "PEnd1", "PEnd1err", "End1PErr", "SendEnd1", "SendQEndErr1", "DropEndErr1", "End1Traffic", "End1errTraffic"})
  /\ pdet' = CASE e \in {"PDetS1err", "PDetS1nc", "PDetS1idle"} -> pdet \cup {"L1"} [] e = "PCloseR2" -> pdet \cup {"L2"} [] OTHER -> pdet
Next == \E e \in Ev : Step(e)
Spec == Init /\ [][Next]_vars

H(n) == PeerHandleBase + n
PAtt(ch, name, h, role) == [e |-> "PFrame", perf |-> "attach", ch |-> ch, f |-> [name |-> name, h |-> h, role |-> role, snd |-> 2, rcv |-> 0, idc |-> 0]]
PDet(ch, h, closed, err) == [e |-> "PFrame", perf |-> "detach", ch |-> ch, f |-> [h |-> h, closed |-> closed, err |-> err]]
Credit(ch, ech, h) == [e |-> "PFrame", perf |-> "flow", ch |-> ch, ech |-> ech, f |-> [nii |-> [seen |-> 0], iw |-> 1000, noi |-> 0, ow |-> 100, h |-> h, dc |-> [seen |-> 0], lc |-> 50]]
Send(l, m, ns) == [e |-> "ASend", l |-> l, m |-> m, len |-> 20, settled |-> TRUE, nosettle |-> ns]
Prefix == IF Side = "client"
          THEN << [e |-> "AOpen", cfg |-> [mfs |-> 4096]], [e |-> "PHeader", kind |-> "amqp"],
                  [e |-> "PFrame", perf |-> "open", ch |-> 0, f |-> [mfs |-> 4096, chmax |-> 10]],
                  [e |-> "ABegin", s |-> "s1", cfg |-> [noi |-> 1000, iw |-> 100, ow |-> 100]],
                  [e |-> "PFrame", perf |-> "begin", ch |-> C1, f |-> [rch |-> [ref |-> "s1"], noi |-> 0, iw |-> 1000, ow |-> 100]] >>
          ELSE << [e |-> "AAccept", cfg |-> [mfs |-> 4096]], [e |-> "PHeader", kind |-> "amqp"],
                  [e |-> "PFrame", perf |-> "open", ch |-> 0, f |-> [mfs |-> 4096, chmax |-> 10]],
                  [e |-> "AAcceptSession", s |-> "s1", cfg |-> [noi |-> 1000, iw |-> 100, ow |-> 100]],
                  [e |-> "PFrame", perf |-> "begin", ch |-> C1, f |-> [rch |-> -1, noi |-> 0, iw |-> 1000, ow |-> 100]] >>
\* attaching: the client attaches and the peer answers; the listener accepts what the peer attaches
Att(l, s, ch, h, eutSender, cfgC, cfgL) ==
  IF Side = "client" THEN << [e |-> IF eutSender THEN "AAttachS" ELSE "AAttachR", l |-> l, s |-> s, cfg |-> cfgC], PAtt(ch, l, h, IF eutSender THEN "r" ELSE "s") >>
  ELSE << [e |-> "AAcceptLink", l |-> l, s |-> s, cfg |-> cfgL], PAtt(ch, l, h, IF eutSender THEN "r" ELSE "s") >>
Conc(e, m) ==
  CASE e = "AttS1" -> Att("L1", "s1", C1, H(5), TRUE, [snd |-> 2, rcv |-> 0, idc |-> 0], [credit |-> 10]) \o << Credit(C1, 0, H(5)) >>
    [] e = "AttR2" -> Att("L2", "s1", C1, H(6), FALSE, [snd |-> 2, rcv |-> 0, credit |-> 10, auto_accept |-> TRUE], [credit |-> 10])
    [] e = "AttDup" -> << [e |-> "AAttachS", l |-> "L9", s |-> "s1", cfg |-> [name |-> "L1", snd |-> 2, rcv |-> 0, idc |-> 0]] >>
    [] e = "Refuse4" -> << [e |-> "AAttachR", l |-> "L4", s |-> "s1", cfg |-> [snd |-> 2, rcv |-> 0, credit |-> 10]],
                           [e |-> "PFrame", perf |-> "attach", ch |-> C1, f |-> [name |-> "L4", h |-> H(8), role |-> "s", snd |-> 2, rcv |-> 0, idc |-> 0, src |-> FALSE, tgt |-> FALSE]],
                           PDet(C1, H(8), TRUE, "amqp:not-found") >>
    [] e = "DetS1" -> << [e |-> "ADetach", l |-> "L1", closed |-> FALSE], PDet(C1, H(5), FALSE, "") >>
    [] e = "CloseS1" -> << [e |-> "ADetach", l |-> "L1", closed |-> TRUE], PDet(C1, H(5), TRUE, "") >>
    [] e = "DropS1" -> << [e |-> "ADrop", h |-> "l:L1"], PDet(C1, H(5), TRUE, "") >>
    [] e = "DetS1PClose" -> << [e |-> "ADetach", l |-> "L1", closed |-> FALSE], PDet(C1, H(5), TRUE, "x:deleted"),
                               [e |-> "PFrame", perf |-> "attach", ch |-> C1, needs_prev |-> TRUE, f |-> [name |-> "L1", h |-> H(5), role |-> "r", snd |-> 2, rcv |-> 0]],
                               PDet(C1, H(5), TRUE, "") >>
    [] e = "DropReatt1" -> << [e |-> "AAttachS", l |-> "L7", s |-> "s1", drop_first |-> "L1", cfg |-> [snd |-> 2, rcv |-> 0, idc |-> 0]],
                              PDet(C1, H(5), TRUE, ""), [e |-> "PFrame", perf |-> "attach", ch |-> C1, f |-> [name |-> "L7", h |-> H(11), role |-> "r", snd |-> 2, rcv |-> 0]] >>
    [] e = "CloseR2" -> << [e |-> "ADetach", l |-> "L2", closed |-> TRUE], PDet(C1, H(6), TRUE, "") >>
    [] e = "PDetS1err" -> << PDet(C1, H(5), TRUE, "x:gone"), Send("L1", m, FALSE) >>
    [] e = "PDetS1nc" -> << PDet(C1, H(5), FALSE, ""), Send("L1", m, FALSE) >>
    [] e = "PCloseR2" -> << PDet(C1, H(6), TRUE, "x:gone"), [e |-> "ARecv", l |-> "L2"] >>
    [] e = "Send1" -> << Send("L1", m, FALSE) >>
    [] e = "SendDrop1" -> << Send("L1", m, FALSE), [e |-> "ADrop", h |-> "l:L1"], PDet(C1, H(5), TRUE, "") >>
    [] e = "SendDet1" -> << Send("L1", m, FALSE), [e |-> "ADetach", l |-> "L1", closed |-> TRUE], PDet(C1, H(5), TRUE, "") >>
    [] e = "Beg2" -> IF Side = "client" THEN << [e |-> "ABegin", s |-> "s2", cfg |-> [noi |-> 1000, iw |-> 100, ow |-> 100]],
                                                [e |-> "PFrame", perf |-> "begin", ch |-> C2, f |-> [rch |-> [ref |-> "s2"], noi |-> 0, iw |-> 1000, ow |-> 100]] >>
                     ELSE << [e |-> "AAcceptSession", s |-> "s2", cfg |-> [noi |-> 1000, iw |-> 100, ow |-> 100]],
                             [e |-> "PFrame", perf |-> "begin", ch |-> C2, f |-> [rch |-> -1, noi |-> 0, iw |-> 1000, ow |-> 100]] >>
    [] e = "AttS3" -> Att("L3", "s2", C2, H(7), TRUE, [snd |-> 2, rcv |-> 0, idc |-> 0], [credit |-> 10]) \o << Credit(C2, 1, H(7)) >>
    [] e = "Send3" -> << Send("L3", m, FALSE) >>
    [] e = "Beg3" -> IF Side = "client" THEN << [e |-> "ABegin", s |-> "s3", cfg |-> [noi |-> 1000, iw |-> 100, ow |-> 100]],
                                                [e |-> "PFrame", perf |-> "begin", ch |-> C1, f |-> [rch |-> [ref |-> "s3"], noi |-> 0, iw |-> 1000, ow |-> 100]] >>
                     ELSE << [e |-> "AAcceptSession", s |-> "s3", cfg |-> [noi |-> 1000, iw |-> 100, ow |-> 100]],
                             [e |-> "PFrame", perf |-> "begin", ch |-> C1, f |-> [rch |-> -1, noi |-> 0, iw |-> 1000, ow |-> 100]] >>
    [] e = "AttS5" -> Att("L5", "s3", C1, H(9), TRUE, [snd |-> 2, rcv |-> 0, idc |-> 0], [credit |-> 10]) \o << Credit(C1, 0, H(9)) >>
    [] e = "Send5" -> << Send("L5", m, FALSE) >>
    [] e = "End1" -> << [e |-> "AEnd", s |-> "s1"], [e |-> "PFrame", perf |-> "end", ch |-> C1, f |-> [err |-> ""]] >>
    [] e = "End1PErr" -> << [e |-> "AEnd", s |-> "s1"], [e |-> "PFrame", perf |-> "end", ch |-> C1, f |-> [err |-> "x:ended"]] >>
    [] e = "In2" -> << [e |-> "PFrame", perf |-> "transfer", ch |-> C1, f |-> [h |-> H(6), did |-> m, tagn |-> 1, tag |-> <<m % 250>>, fmt |-> 0, settled |-> "t", more |-> FALSE], msg |-> [m |-> 300 + m, len |-> 20, shape |-> "data"]] >>
    [] e = "End1err" -> << [e |-> "AEnd", s |-> "s1", err |-> "internal"], [e |-> "PFrame", perf |-> "end", ch |-> C1, f |-> [err |-> ""]] >>
    [] e = "SendEnd1" -> << Send("L1", m, FALSE), [e |-> "AEnd", s |-> "s1"], [e |-> "PFrame", perf |-> "end", ch |-> C1, f |-> [err |-> ""]] >>
    \* the peer closes the link and the application does not touch it: its handle and name stay taken until the endpoint has answered
    [] e = "PDetS1idle" -> << PDet(C1, H(5), TRUE, "") >>
    \* the peer closes first and the application answers by closing / dropping its handle: one detach per attach
    [] e = "PDetS1close" -> << [e |-> "AOnDetach", l |-> "L1"], PDet(C1, H(5), TRUE, ""), [e |-> "ADetach", l |-> "L1", closed |-> TRUE] >>
    [] e = "PDetS1drop" -> << PDet(C1, H(5), TRUE, ""), [e |-> "ADrop", h |-> "l:L1"] >>
    [] e = "R6FullPClose" ->
         << [e |-> "AAttachR", l |-> "L6", s |-> "s1", cfg |-> [snd |-> 2, rcv |-> 0, credit |-> 10, auto_accept |-> TRUE, lbuf |-> 3]],
            PAtt(C1, "L6", H(10), "s") >>
         \o [i \in 1..3 |-> [e |-> "PFrame", perf |-> "transfer", ch |-> C1, f |-> [h |-> H(10), did |-> 40 + i, tagn |-> 1, tag |-> <<40 + i>>, fmt |-> 0, settled |-> "t", more |-> FALSE],
                               msg |-> [m |-> 340 + i, len |-> 20, shape |-> "data"], nosettle |-> (i = 3)]]
         \o << PDet(C1, H(10), TRUE, "x:gone"), [e |-> "ARecv", l |-> "L6"], [e |-> "ARecv", l |-> "L6"], [e |-> "ARecv", l |-> "L6"], [e |-> "ARecv", l |-> "L6"] >>
    [] e = "PDetS1seenDrop" -> << [e |-> "AOnDetach", l |-> "L1"], PDet(C1, H(5), TRUE, ""), [e |-> "ADrop", h |-> "l:L1"] >>
    [] e \in {"End1Traffic", "End1errTraffic"} ->
         << [e |-> "AEnd", s |-> "s1", err |-> IF e = "End1errTraffic" THEN "internal" ELSE ""],
            [e |-> "PFrame", perf |-> "flow", ch |-> C1, ech |-> 0, f |-> [nii |-> [seen |-> 0], iw |-> 1000, noi |-> 0, ow |-> 100, h |-> H(5), dc |-> [seen |-> 0], lc |-> 50, echo |-> TRUE]],
            [e |-> "PFrame", perf |-> "flow", ch |-> C1, ech |-> 0, f |-> [nii |-> [seen |-> 0], iw |-> 1000, noi |-> 0, ow |-> 100, echo |-> TRUE]],
            [e |-> "PFrame", perf |-> "end", ch |-> C1, f |-> [err |-> ""]] >>
    \* work queued and the session ended with an error in the same scheduler turn
    [] e = "SendQEndErr1" -> << [e |-> "ASend", l |-> "L1", m |-> m, len |-> 20, settled |-> TRUE, batchable |-> TRUE, nosettle |-> TRUE],
                                [e |-> "AEnd", s |-> "s1", err |-> "internal"], [e |-> "PFrame", perf |-> "end", ch |-> C1, f |-> [err |-> ""]] >>
    [] e = "DropEndErr1" -> << [e |-> "ADrop", h |-> "l:L1", nosettle |-> TRUE], [e |-> "AEnd", s |-> "s1", err |-> "internal"], [e |-> "PFrame", perf |-> "end", ch |-> C1, f |-> [err |-> ""]] >>
    [] e = "PEnd1" -> << [e |-> "PFrame", perf |-> "end", ch |-> C1, f |-> [err |-> ""]], [e |-> "AEnd", s |-> "s1"] >>
    [] e = "PEnd1err" -> << [e |-> "PFrame", perf |-> "end", ch |-> C1, f |-> [err |-> "x:ended"]], [e |-> "AEnd", s |-> "s1"] >>
    [] e = "End2" -> << [e |-> "AEnd", s |-> "s2"], [e |-> "PFrame", perf |-> "end", ch |-> C2, f |-> [err |-> ""]] >>
RECURSIVE Body(_, _)
Body(sc, i) == IF i > Len(sc) THEN <<>> ELSE Conc(sc[i], i) \o Body(sc, i + 1)
Suffix == << [e |-> "AClose", err |-> ""], [e |-> "PFrame", perf |-> "close", ch |-> 0, f |-> [err |-> ""]] >>
Done == Len(script) = Depth \/ (\A e \in Ev : ~Enabled(e))
Emit == Done => PrintT(<<"SCRIPT", ToJson([side |-> Side, id |-> <<Side, PeerHandleBase>> \o script, ev |-> Prefix \o Body(script, 1) \o Suffix])>>)
=============================================================================
