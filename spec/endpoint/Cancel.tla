---------------------------- MODULE Cancel ----------------------------
(* Model check for C16: recv and send as program-counter machines with a Cancel action at every
   await.  recv: the future takes frames from the link's queue one at a time and appends them to
   the reassembly buffer, which belongs to the link (not to the future), so a dropped future
   loses nothing; a delivery is returned when its last frame has been taken.
   send (single link-level frame): wait for credit, enqueue the transfer, wait for the outcome.
   Credit is consumed in the same step that enqueues the transfer (ConsumeWithEnqueue = TRUE);
   with FALSE the two are separate awaits and a cancellation in between leaks a credit. *)
EXTENDS Naturals, Sequences, TLC
CONSTANTS NDel, FramesPer, BufferInLink, ConsumeWithEnqueue

VARIABLES q,          \* frames waiting in the link's queue: <<delivery, index>>
          nextFrame,  \* next frame the peer will send: <<delivery, index>>
          buf,        \* reassembly buffer (frames of the delivery in progress)
          got,        \* deliveries returned to the application
          pcR,        \* "idle" or "recv"
          credit, enq, pcS, sentBy     \* send side: credit, transfers enqueued, pc, which sends enqueued
vars == <<q, nextFrame, buf, got, pcR, credit, enq, pcS, sentBy>>
Init == q = <<>> /\ nextFrame = <<1, 1>> /\ buf = <<>> /\ got = <<>> /\ pcR = "idle" /\ credit = 0 /\ enq = <<>> /\ pcS = "idle" /\ sentBy = 0

PeerSend == /\ nextFrame[1] <= NDel /\ q' = Append(q, nextFrame)
            /\ nextFrame' = IF nextFrame[2] = FramesPer THEN <<nextFrame[1] + 1, 1>> ELSE <<nextFrame[1], nextFrame[2] + 1>>
            /\ UNCHANGED <<buf, got, pcR, credit, enq, pcS, sentBy>>
RecvStart == pcR = "idle" /\ pcR' = "recv" /\ UNCHANGED <<q, nextFrame, buf, got, credit, enq, pcS, sentBy>>
RecvTake == /\ pcR = "recv" /\ q # <<>>
            /\ LET f == Head(q) nb == Append(buf, f) IN
               IF f[2] = FramesPer THEN got' = Append(got, nb) /\ buf' = <<>> /\ pcR' = "idle"
               ELSE buf' = nb /\ got' = got /\ pcR' = "recv"
            /\ q' = Tail(q) /\ UNCHANGED <<nextFrame, credit, enq, pcS, sentBy>>
RecvCancel == /\ pcR = "recv" /\ pcR' = "idle"
              /\ buf' = (IF BufferInLink THEN buf ELSE <<>>)        \* a buffer owned by the future dies with it
              /\ UNCHANGED <<q, nextFrame, got, credit, enq, pcS, sentBy>>
\* ---- send
Grant == credit < 2 /\ credit' = credit + 1 /\ UNCHANGED <<q, nextFrame, buf, got, pcR, enq, pcS, sentBy>>
SendStart == pcS = "idle" /\ sentBy < 3 /\ pcS' = "credit" /\ sentBy' = sentBy + 1 /\ UNCHANGED <<q, nextFrame, buf, got, pcR, credit, enq>>
SendCredit == /\ pcS = "credit" /\ credit > 0 /\ credit' = credit - 1
              /\ IF ConsumeWithEnqueue THEN enq' = Append(enq, sentBy) /\ pcS' = "outcome" ELSE enq' = enq /\ pcS' = "enqueue"
              /\ UNCHANGED <<q, nextFrame, buf, got, pcR, sentBy>>
SendEnqueue == pcS = "enqueue" /\ enq' = Append(enq, sentBy) /\ pcS' = "outcome" /\ UNCHANGED <<q, nextFrame, buf, got, pcR, credit, sentBy>>
SendOutcome == pcS = "outcome" /\ pcS' = "idle" /\ UNCHANGED <<q, nextFrame, buf, got, pcR, credit, enq, sentBy>>
SendCancel == pcS \in {"credit", "enqueue", "outcome"} /\ pcS' = "idle" /\ UNCHANGED <<q, nextFrame, buf, got, pcR, credit, enq, sentBy>>
Next == PeerSend \/ RecvStart \/ RecvTake \/ RecvCancel \/ Grant \/ SendStart \/ SendCredit \/ SendEnqueue \/ SendOutcome \/ SendCancel
Spec == Init /\ [][Next]_vars

Whole(d) == [i \in 1..FramesPer |-> <<d, i>>]
C16_RecvExact == \A i \in DOMAIN got : got[i] = Whole(i)
C16_CancelledAtMostOnce == \A i, j \in DOMAIN enq : i # j => enq[i] # enq[j]
C16_LaterIntact == \A i, j \in DOMAIN enq : i < j => enq[i] < enq[j]
=============================================================================
