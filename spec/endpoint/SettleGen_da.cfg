SPECIFICATION Spec
CONSTANT Depth = 4
CONSTANT RcvMode = 0
CONSTANT SndMode = 0
INVARIANT Emit
CHECK_DEADLOCK FALSE
