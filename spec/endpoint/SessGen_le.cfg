SPECIFICATION Spec
CONSTANT Depth = 3
CONSTANT Shift = "0"
CONSTANT Win0 = 2
CONSTANT Mms = 150
CONSTANT Side = "listener"
INVARIANT Emit
CHECK_DEADLOCK FALSE
