SPECIFICATION Spec
CONSTANT NLinks = 2
CONSTANT MaxOut = 6
INVARIANT C13_EndAtMostOnce
INVARIANT C13_NothingAfterEnd
INVARIANT C13_DetachAtMostOncePerAttach
INVARIANT C13_AttachOnlyWhenDetached
PROPERTY C13_EndReply
CHECK_DEADLOCK FALSE
