SPECIFICATION Spec
CONSTANTS N = 2 InsertFirst = FALSE
INVARIANTS C02_NothingLost
CHECK_DEADLOCK FALSE
