SPECIFICATION Spec
CONSTANT MaxPeer = 4
INVARIANT C12_HeaderFirst
INVARIANT C12_OpenOnceFirst
INVARIANT C12_CloseAtMostOnce
INVARIANT C12_NothingAfterClose
INVARIANT C12_NoActionWhenNotOpen
PROPERTY C12_CloseReply
CHECK_DEADLOCK FALSE
