SPECIFICATION Spec
CONSTANT Depth = 30
CONSTANT Side = "client"
INVARIANT Emit
CHECK_DEADLOCK FALSE
