---------------------------- MODULE SessGen ----------------------------
(* Gen for C07 (and the session part of C11 / C01): after a fixed handshake (connection, one
   session, a pre-settled sender link with ample credit and a receiver link) every sequence up to
   Depth of: application sends of one and of several frames, peer session flows with every window
   0..3 whose next-incoming-id is exact / lags by one / is unset, incoming transfers, and a final
   flow that reopens the window (so that whatever was held back must appear).  Ids start at 0, in
   the middle of the range and two below 2^32 (Shift). *)
EXTENDS Integers, Sequences, TLC, Json
CONSTANTS Depth, Shift, Win0, Mms, Side     \* Side: "client" | "listener"

\* FlowPend (listener side, once per script): the peer attaches a further link and, before the application has accepted it, sends a flow that
\* names its handle and reopens the session window -- the session-level part of that flow counts although the link is not there yet
Alphabet == {"SendS", "SendM", "SendL", "SendL2", "Flow0", "Flow1", "Flow2", "Flow3", "Flow2Lag", "Flow2Unset", "In", "InBig"} \cup (IF Side = "listener" THEN {"FlowPend"} ELSE {})
VARIABLES script, nsend, nin
vars == <<script, nsend, nin>>
Init == script = <<>> /\ nsend = 0 /\ nin = 0
Step(e) == /\ Len(script) < Depth /\ script' = Append(script, e)
           /\ (e = "FlowPend" => \A i \in DOMAIN script : script[i] # "FlowPend")
           /\ nsend' = IF e \in {"SendS", "SendM", "SendL", "SendL2"} THEN nsend + 1 ELSE nsend
           /\ nin' = IF e \in {"In", "InBig"} THEN nin + 1 ELSE nin
Next == \E e \in Alphabet : Step(e)
Spec == Init /\ [][Next]_vars

PFlow(nii, iw) == [e |-> "PFrame", perf |-> "flow", ch |-> 3, ech |-> 0, f |-> [nii |-> nii, iw |-> iw, noi |-> 7, ow |-> 100]]
Conn == IF Side = "client"
        THEN << [e |-> "AOpen", cfg |-> [mfs |-> 512]], [e |-> "PHeader", kind |-> "amqp"], [e |-> "PFrame", perf |-> "open", ch |-> 0, f |-> [mfs |-> 512, chmax |-> 10]],
                [e |-> "ABegin", s |-> "s1", cfg |-> [noi |-> 1000, iw |-> 4, ow |-> 50]],
                [e |-> "PFrame", perf |-> "begin", ch |-> 3, f |-> [rch |-> [ref |-> "s1"], noi |-> 7, iw |-> Win0, ow |-> 100]] >>
        ELSE << [e |-> "AAccept", cfg |-> [mfs |-> 512]], [e |-> "PHeader", kind |-> "amqp"], [e |-> "PFrame", perf |-> "open", ch |-> 0, f |-> [mfs |-> 512, chmax |-> 10]],
                [e |-> "AAcceptSession", s |-> "s1", cfg |-> [noi |-> 1000, iw |-> 4, ow |-> 50]],
                [e |-> "PFrame", perf |-> "begin", ch |-> 3, f |-> [rch |-> -1, noi |-> 7, iw |-> Win0, ow |-> 100]] >>
AttS == IF Side = "client" THEN [e |-> "AAttachS", l |-> "L1", s |-> "s1", cfg |-> [snd |-> 1, rcv |-> 0, idc |-> 0]] ELSE [e |-> "AAcceptLink", l |-> "L1", s |-> "s1", cfg |-> [idc |-> 0]]
AttR == IF Side = "client" THEN [e |-> "AAttachR", l |-> "L2", s |-> "s1", cfg |-> [snd |-> 1, rcv |-> 0, credit |-> 50, auto_accept |-> TRUE]] ELSE [e |-> "AAcceptLink", l |-> "L2", s |-> "s1", cfg |-> [credit |-> 50]]
Prefix == << [e |-> "Shifts", out |-> Shift, inn |-> 0, dc_out |-> 0, dc_in |-> 0] >> \o Conn \o <<
  AttS,
  [e |-> "PFrame", perf |-> "attach", ch |-> 3, f |-> [name |-> "L1", h |-> 5, role |-> "r", snd |-> 1, rcv |-> 0, mms |-> IF Mms > 0 THEN Mms ELSE -1]],
  [e |-> "PFrame", perf |-> "flow", ch |-> 3, ech |-> 0, f |-> [nii |-> [seen |-> 0], iw |-> Win0, noi |-> 7, ow |-> 100, h |-> 5, dc |-> 0, lc |-> 100]],
  AttR,
  [e |-> "PFrame", perf |-> "attach", ch |-> 3, f |-> [name |-> "L2", h |-> 6, role |-> "s", snd |-> 1, rcv |-> 0, idc |-> 0]] >>
\* message numbers: sends 1.., incoming 101..
RECURSIVE Body(_, _, _, _)
Body(sc, i, ns, ni) ==
  IF i > Len(sc) THEN <<>> ELSE
  LET e == sc[i] IN
  CASE e = "SendS" -> <<[e |-> "ASend", l |-> "L1", m |-> ns + 1, len |-> 20]>> \o Body(sc, i + 1, ns + 1, ni)
    [] e = "SendM" -> <<[e |-> "ASend", l |-> "L1", m |-> ns + 1, len |-> 1100]>> \o Body(sc, i + 1, ns + 1, ni)
    [] e = "SendL" -> <<[e |-> "ASend", l |-> "L1", m |-> ns + 1, len |-> 330]>> \o Body(sc, i + 1, ns + 1, ni)
    [] e = "SendL2" -> <<[e |-> "ASend", l |-> "L1", m |-> ns + 1, len |-> 200]>> \o Body(sc, i + 1, ns + 1, ni)
    [] e \in {"Flow0", "Flow1", "Flow2", "Flow3"} -> <<PFlow([seen |-> 0], CASE e = "Flow0" -> 0 [] e = "Flow1" -> 1 [] e = "Flow2" -> 2 [] OTHER -> 3)>> \o Body(sc, i + 1, ns, ni)
    [] e = "FlowPend" -> <<[e |-> "PFrame", perf |-> "attach", ch |-> 3, nosettle |-> TRUE, f |-> [name |-> "L3", h |-> 7, role |-> "r", snd |-> 1, rcv |-> 0]],
                           [e |-> "PFrame", perf |-> "flow", ch |-> 3, ech |-> 0, f |-> [nii |-> [seen |-> 0], iw |-> 3, noi |-> 7, ow |-> 100, h |-> 7, dc |-> 0, lc |-> 10]]>> \o Body(sc, i + 1, ns, ni)
    [] e = "Flow2Lag" -> <<PFlow([seen |-> 1], 2)>> \o Body(sc, i + 1, ns, ni)
    [] e = "Flow2Unset" -> <<PFlow(-1, 2)>> \o Body(sc, i + 1, ns, ni)
    [] e = "In" -> <<[e |-> "PFrame", perf |-> "transfer", ch |-> 3, f |-> [h |-> 6, did |-> ni, tagn |-> 1, tag |-> <<ni>>, fmt |-> 0, settled |-> "t", more |-> FALSE],
                       msg |-> [m |-> 101 + ni, len |-> 10]]>> \o Body(sc, i + 1, ns, ni + 1)
    [] e = "InBig" -> <<[e |-> "PFrame", perf |-> "transfer", ch |-> 3, f |-> [h |-> 6, did |-> ni, tagn |-> 1, tag |-> <<ni>>, fmt |-> 0, settled |-> "t", more |-> TRUE],
                          msg |-> [m |-> 101 + ni, len |-> 600, off |-> 0, n |-> 300]],
                        [e |-> "PFrame", perf |-> "transfer", ch |-> 3, f |-> [h |-> 6, did |-> -1, tagn |-> -1, fmt |-> -1, settled |-> "none", more |-> FALSE],
                          msg |-> [m |-> 101 + ni, len |-> 600, off |-> 300, n |-> -1]]>> \o Body(sc, i + 1, ns, ni + 1)
Suffix == << PFlow([seen |-> 0], 50), PFlow([seen |-> 0], 50), [e |-> "PFrame", perf |-> "flow", ch |-> 3, ech |-> 0, f |-> [nii |-> [seen |-> 0], iw |-> 50, noi |-> 7, ow |-> 100, echo |-> TRUE]] >>
Done == Len(script) = Depth
Emit == Done => PrintT(<<"SCRIPT", ToJson([side |-> Side, id |-> <<Side, Shift, Win0>> \o script, ev |-> Prefix \o Body(script, 1, 0, 0) \o Suffix])>>)
=============================================================================
