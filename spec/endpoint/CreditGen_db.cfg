SPECIFICATION Spec
CONSTANT Depth = 4
CONSTANT DcShift = "4294966294"
CONSTANT Hook = FALSE
CONSTANT Side = "client"
INVARIANT Emit
CHECK_DEADLOCK FALSE
