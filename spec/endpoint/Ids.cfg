SPECIFICATION Spec
CONSTANT MaxHandle = 2
CONSTANT M = 16
CONSTANT Start = 14
CONSTANT NDel = 3
CONSTANT Names = {"a", "b"}
INVARIANT C11_HandleUnique
INVARIANT C11_NameOnce
INVARIANT C11_FramesOnHeldHandle
INVARIANT C11_DeliveryIdIncreasing
INVARIANT C11_ContinuationId
CHECK_DEADLOCK FALSE
