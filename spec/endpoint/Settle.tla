---------------------------- MODULE Settle ----------------------------
(* Model check for C02 (sender side): N deliveries on a link whose receiver may send any
   disposition history: any range first..last, settled or not, any state (terminal or the
   non-terminal `received`), repeated and out of order.
   Design rules: a pre-settled send resolves `accepted` at once and is never in the unsettled map;
   an unsettled send resolves with the first terminal state reported for its delivery-id, once;
   a settled disposition removes the delivery from the unsettled map; in rcv-settle-mode second a
   terminal unsettled disposition makes the sender settle and owe a settled disposition. *)
EXTENDS Integers, FiniteSets, TLC
CONSTANTS N, Second, MaxDisp

States == {"accepted", "rejected", "released", "received"}
Terminal(st) == st # "received"

VARIABLES sent, pre, unsettled, resolved, nres, applied, owed, echoed, ndisp
vars == <<sent, pre, unsettled, resolved, nres, applied, owed, echoed, ndisp>>
D == 1..N
Init == /\ sent = {} /\ pre = {} /\ unsettled = {} /\ resolved = [d \in D |-> "none"] /\ nres = [d \in D |-> 0]
        /\ applied = [d \in D |-> "none"] /\ owed = {} /\ echoed = {} /\ ndisp = 0

Send(d, presettled) ==
  /\ d \notin sent /\ (d = 1 \/ d - 1 \in sent) /\ sent' = sent \cup {d}
  /\ IF presettled THEN /\ pre' = pre \cup {d} /\ resolved' = [resolved EXCEPT ![d] = "accepted"] /\ nres' = [nres EXCEPT ![d] = 1] /\ UNCHANGED unsettled
     ELSE /\ unsettled' = unsettled \cup {d} /\ UNCHANGED <<pre, resolved, nres>>
  /\ UNCHANGED <<applied, owed, echoed, ndisp>>
Disp(a, b, settled, st) ==
  /\ ndisp < MaxDisp /\ ndisp' = ndisp + 1
  /\ LET hit == {d \in a..b : d \in unsettled}                  \* unknown / settled / pre-settled ids are ignored
         fresh == {d \in hit : Terminal(st) /\ resolved[d] = "none"}
     IN /\ applied' = [d \in D |-> IF d \in ((a..b) \cap (sent \ pre)) /\ Terminal(st) /\ applied[d] = "none" /\ d \in unsettled THEN st ELSE applied[d]]
        /\ resolved' = [d \in D |-> IF d \in fresh THEN st ELSE resolved[d]]
        /\ nres' = [d \in D |-> IF d \in fresh THEN nres[d] + 1 ELSE nres[d]]
        /\ unsettled' = IF settled THEN unsettled \ hit ELSE IF Second /\ Terminal(st) THEN unsettled \ hit ELSE unsettled
        /\ owed' = IF Second /\ ~settled /\ Terminal(st) THEN owed \cup hit ELSE owed
  /\ UNCHANGED <<sent, pre, echoed>>
Echo == /\ owed # {} /\ echoed' = echoed \cup owed /\ owed' = {} /\ UNCHANGED <<sent, pre, unsettled, resolved, nres, applied, ndisp>>
Next == \/ \E d \in D, p \in BOOLEAN : Send(d, p)
        \/ \E a \in D, b \in D, s \in BOOLEAN, st \in States : a <= b /\ Disp(a, b, s, st)
        \/ Echo
Spec == Init /\ [][Next]_vars /\ WF_vars(Echo)

C02_ResolveOnce == \A d \in D : nres[d] <= 1
C02_OwnOutcome == \A d \in D : resolved[d] # "none" => (IF d \in pre THEN resolved[d] = "accepted" ELSE resolved[d] = applied[d])
C02_Forgotten == \A d \in D : d \in unsettled => d \in sent \ pre
C02_NoEchoForUnknown == echoed \cup owed \subseteq sent \ pre
C02_Echo == (owed # {}) ~> (owed = {})
=============================================================================
