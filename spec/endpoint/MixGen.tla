---------------------------- MODULE MixGen ----------------------------
(* Gen for long mixed histories (all link / session clauses: C02, C07 - C11, C13, C16): a sane peer and
   a sane application interleave everything the single-purpose generators keep apart.  One session,
   two sending links of the EUT (L1: batchable sends whose outcomes are awaited later, L3: plain sends
   that wait for their outcome), one receiving link L2.  The generator keeps just enough state to
   stay meaningful (how many sends were issued, how many deliveries the peer has started, whether L3
   is attached); everything that depends on what the endpoint really did is a symbolic reference the
   harness resolves (next-incoming-id / delivery-count "as seen", the d-th delivery the endpoint
   started) or a guard the harness applies to an *input* (a peer transfer is withheld while the
   endpoint has not issued credit for it: "guard").  The configuration (settle modes, session window,
   credit policy, id spaces, the peer's max-message-size, channel capacities) is drawn in Init, so TLC's
   simulation mode samples it together with the history.  Run with -simulate; every behaviour that
   reaches Depth prints one script. *)
EXTENDS Integers, Sequences, TLC, Json
CONSTANTS Depth, Side

VARIABLES script, cfg, ns, nb, nin, l3, fin, pick
vars == <<script, cfg, ns, nb, nin, l3, fin, pick>>
\* ns: sends issued (message numbers 1..), nb: batchable sends issued, nin: peer deliveries started, l3: "att" | "closed"
\* pick: the kind of the next event.  TLC's simulator draws uniformly among successor *states*; choosing the kind first (with a weight) and
\* its parameters in a second step keeps kinds with many parameter combinations from crowding out the others.

Cfgs == [snd : {0, 2}, rcvS : {0, 1}, win0 : {1, 2, 50}, credit2 : {0, 2, 10}, aa2 : BOOLEAN, rcv2 : {0, 1},
         shiftOut : {"0", "4294966293", "2147483648"}, dcOut : {"0", "4294966293"}, dcIn : {"0", "4294966294"}, mms : {0, 150}, buf : {1, 256}, mfs : {512, 4096}, lbuf : {256}]
Init == script = <<>> /\ cfg \in Cfgs /\ ns = 0 /\ nb = 0 /\ nin = 0 /\ l3 = "att" /\ fin = FALSE /\ pick = <<"none", 0>>

Weight == [Send1 |-> 3, Send3 |-> 2, Send13 |-> 1, InX |-> 2, Await |-> 1, SFlow |-> 2, Grant |-> 3, Disp |-> 3, In |-> 4, App2 |-> 5, PSettle |-> 1, Cancel |-> 1, Close3 |-> 1, Att3 |-> 2]
Possible(k) == CASE k \in {"Send3", "Send13"} -> l3 = "att" [] k = "Await" -> nb > 0 [] k = "Disp" -> ns > 0 [] k = "PSettle" -> nin > 0 /\ cfg.rcv2 = 1
                 [] k = "Close3" -> l3 = "att" [] k = "Att3" -> l3 = "closed" [] OTHER -> TRUE
Choose == pick[1] = "none" /\ \E k \in DOMAIN Weight : Possible(k) /\ \E i \in 1..Weight[k] : pick' = <<k, i>>
Ev(e) == script' = Append(script, e) /\ pick' = <<"none", 0>>
Is(k) == pick[1] = k
Send1 == Is("Send1") /\ \E len \in {20, 330, 1100}, pre \in BOOLEAN : (pre => cfg.snd = 2) /\ Ev([k |-> "Send1", m |-> ns + 1, len |-> len, pre |-> pre]) /\ ns' = ns + 1 /\ nb' = nb + 1 /\ UNCHANGED <<cfg, nin, l3>>
Send3 == Is("Send3") /\ \E len \in {20, 700} : Ev([k |-> "Send3", m |-> ns + 1, len |-> len]) /\ ns' = ns + 1 /\ UNCHANGED <<cfg, nb, nin, l3>>
\* both sending links submit a several-frame message in the same scheduler turn (no settle in between): their frames may interleave
Send13 == Is("Send13") /\ Ev([k |-> "Send13", m |-> ns + 1]) /\ ns' = ns + 2 /\ nb' = nb + 1 /\ UNCHANGED <<cfg, nin, l3>>
\* a delivery on the second receiving link arrives between the frames of a delivery on the first one; the continuation repeats delivery-id and tag
InX == Is("InX") /\ \E pre \in BOOLEAN : Ev([k |-> "TX", m |-> 201 + nin, pre |-> pre]) /\ nin' = nin + 2 /\ UNCHANGED <<cfg, ns, nb, l3>>
Await == Is("Await") /\ \E n \in 0..(nb - 1) : Ev([k |-> "Await", n |-> n]) /\ UNCHANGED <<cfg, ns, nb, nin, l3>>
SFlow == Is("SFlow") /\ \E w \in {0, 1, 2, 3, 50}, lag \in {0, 1} : Ev([k |-> "SFlow", w |-> w, lag |-> lag]) /\ UNCHANGED <<cfg, ns, nb, nin, l3>>
Grant == Is("Grant") /\ \E l \in {1, 3}, lc \in {0, 1, 2, 5, 6}, lag \in {0, 1}, mode \in {"plain", "plain", "plain", "drain", "echo", "unset"} :
           \E w \in {-1, -1, 0, 3, 50} :
           (l = 3 => l3 = "att") /\ Ev([k |-> "Grant", l |-> l, lc |-> lc, w |-> w, lag |-> IF mode = "plain" THEN lag ELSE 0, drain |-> mode = "drain", echo |-> mode = "echo", unset |-> mode = "unset"]) /\ UNCHANGED <<cfg, ns, nb, nin, l3>>
Disp == Is("Disp") /\ \E a \in 0..(ns - 1), w \in {0, 1, 2}, st \in {"accepted", "rejected", "released", "modified", "received"}, settled \in BOOLEAN :
           (st = "received" => ~settled) /\ Ev([k |-> "Disp", a |-> a, b |-> a + w, st |-> st, settled |-> settled]) /\ UNCHANGED <<cfg, ns, nb, nin, l3>>
In == Is("In") /\ \E shape \in {"T1", "T1", "T2", "T3", "TAbort", "TBig"}, pre \in BOOLEAN : Ev([k |-> shape, m |-> 201 + nin, pre |-> pre]) /\ nin' = nin + 1 /\ UNCHANGED <<cfg, ns, nb, l3>>
App2 == Is("App2") /\ \E e \in {"Recv", "Recv2", "Recv3", "Recv4", "Acc", "Acc2", "Rej", "Rel", "Mod", "AccAll", "SetCredit1", "SetCredit3", "Drain2"} : Ev([k |-> e]) /\ UNCHANGED <<cfg, ns, nb, nin, l3>>
\* the sender's settling disposition for what the receiving link has disposed of (rcv-settle-mode second)
PSettle == Is("PSettle") /\ \E a \in 0..(nin - 1), w \in {0, 1, 5} : Ev([k |-> "PSettle", a |-> a, b |-> a + w]) /\ UNCHANGED <<cfg, ns, nb, nin, l3>>
Cancel == Is("Cancel") /\ \E l \in {"L2", "L3"} : Ev([k |-> "Cancel", l |-> l]) /\ UNCHANGED <<cfg, ns, nb, nin, l3>>
Close3 == Is("Close3") /\ Ev([k |-> "Close3"]) /\ l3' = "closed" /\ UNCHANGED <<cfg, ns, nb, nin>>
Att3 == Is("Att3") /\ Ev([k |-> "Att3"]) /\ l3' = "att" /\ UNCHANGED <<cfg, ns, nb, nin>>
\* (the simulator evaluates invariants on every candidate successor: the script is printed from the one state that follows the last event)
Finish == Len(script) = Depth /\ ~fin /\ fin' = TRUE /\ UNCHANGED <<script, cfg, ns, nb, nin, l3, pick>>
Next == Finish \/ (Len(script) < Depth /\ UNCHANGED fin /\
                   ((Choose /\ UNCHANGED <<script, cfg, ns, nb, nin, l3>>) \/ Send1 \/ Send3 \/ Send13 \/ InX \/ Await \/ SFlow \/ Grant \/ Disp \/ In \/ App2 \/ PSettle \/ Cancel \/ Close3 \/ Att3))
Spec == Init /\ [][Next]_vars

\* ---------------------------------------------------------------- expansion to script events
CH == 3
SessFlow(nii, iw) == [e |-> "PFrame", perf |-> "flow", ch |-> CH, ech |-> 0, f |-> [nii |-> nii, iw |-> iw, noi |-> [sent |-> 0], ow |-> 100]]
LFlow(h, dc, lc, drain, echo, w) == [e |-> "PFrame", perf |-> "flow", ch |-> CH, ech |-> 0,
                                   f |-> [nii |-> [seen |-> 0], iw |-> IF w < 0 THEN [keep |-> TRUE] ELSE w, noi |-> [sent |-> 0], ow |-> 100, h |-> h, dc |-> dc, lc |-> lc, drain |-> drain, echo |-> echo]]
XferH(h, first, more, aborted, m, len, off, n, fields, pre) ==
  [e |-> "PFrame", perf |-> "transfer", ch |-> CH, guard |-> TRUE,
   f |-> [h |-> h, did |-> IF first \/ fields = "repeat" THEN [auto |-> TRUE] ELSE -1,
          tagn |-> IF first \/ fields = "repeat" THEN 1 ELSE -1, tag |-> [auto |-> TRUE], fmt |-> IF first \/ fields = "repeat" THEN 0 ELSE -1,
          settled |-> IF first THEN (IF pre THEN "t" ELSE "f") ELSE "none", more |-> more, aborted |-> aborted],
   msg |-> [m |-> m, len |-> len, off |-> off, n |-> n, shape |-> "full"]]
Xfer(first, more, aborted, m, len, off, n, fields, pre) == XferH(6, first, more, aborted, m, len, off, n, fields, pre)
Att(l, h, eutSender, cfgC, cfgL, pf) ==
  (IF Side = "client" THEN << [e |-> IF eutSender THEN "AAttachS" ELSE "AAttachR", l |-> l, s |-> "s1", cfg |-> cfgC] >>
   ELSE << [e |-> "AAcceptLink", l |-> l, s |-> "s1", cfg |-> cfgL] >>)
  \o << [e |-> "PFrame", perf |-> "attach", ch |-> CH, f |-> pf] >>
Att3Ev == << [e |-> (IF Side = "client" THEN "AAttachS" ELSE "AAcceptLink"), l |-> "L3", s |-> "s1", cfg |-> [snd |-> 0, rcv |-> 0, idc |-> 500]],
             [e |-> "PFrame", perf |-> "attach", ch |-> CH, needs_prev |-> (Side = "client"),
              f |-> [name |-> "L3", h |-> 7, role |-> "r", snd |-> 0, rcv |-> 0, mms |-> IF cfg.mms > 0 THEN cfg.mms ELSE -1]] >>
Prefix ==
  << [e |-> "Shifts", out |-> cfg.shiftOut, inn |-> 0, dc_out |-> cfg.dcOut, dc_in |-> cfg.dcIn] >> \o
  (IF Side = "client"
   THEN << [e |-> "AOpen", cfg |-> [mfs |-> 4096, buf |-> cfg.buf]], [e |-> "PHeader", kind |-> "amqp"], [e |-> "PFrame", perf |-> "open", ch |-> 0, f |-> [mfs |-> cfg.mfs, chmax |-> 10]],
           [e |-> "ABegin", s |-> "s1", cfg |-> [noi |-> 1000, iw |-> 100, ow |-> 100, buf |-> cfg.buf]],
           [e |-> "PFrame", perf |-> "begin", ch |-> CH, f |-> [rch |-> [ref |-> "s1"], noi |-> 0, iw |-> cfg.win0, ow |-> 100]] >>
   ELSE << [e |-> "AAccept", cfg |-> [mfs |-> 4096, buf |-> cfg.buf]], [e |-> "PHeader", kind |-> "amqp"], [e |-> "PFrame", perf |-> "open", ch |-> 0, f |-> [mfs |-> cfg.mfs, chmax |-> 10]],
           [e |-> "AAcceptSession", s |-> "s1", cfg |-> [noi |-> 1000, iw |-> 100, ow |-> 100, buf |-> cfg.buf]],
           [e |-> "PFrame", perf |-> "begin", ch |-> CH, f |-> [rch |-> -1, noi |-> 0, iw |-> cfg.win0, ow |-> 100]] >>)
  \o Att("L1", 5, TRUE, [snd |-> cfg.snd, rcv |-> cfg.rcvS, idc |-> 1000], [idc |-> 1000],
         [name |-> "L1", h |-> 5, role |-> "r", snd |-> cfg.snd, rcv |-> cfg.rcvS, mms |-> IF cfg.mms > 0 THEN cfg.mms ELSE -1])
  \o Att("L2", 6, FALSE, [snd |-> 2, rcv |-> cfg.rcv2, credit |-> IF cfg.credit2 = 0 THEN -1 ELSE cfg.credit2, auto_accept |-> cfg.aa2, lbuf |-> cfg.lbuf],
         [credit |-> IF cfg.credit2 = 0 THEN -1 ELSE cfg.credit2, auto_accept |-> FALSE],
         [name |-> "L2", h |-> 6, role |-> "s", snd |-> 2, rcv |-> cfg.rcv2, idc |-> 1000])
  \o Att("L4", 8, FALSE, [snd |-> 2, rcv |-> 0, credit |-> 10, auto_accept |-> TRUE, lbuf |-> cfg.lbuf], [credit |-> 10, auto_accept |-> FALSE],
         [name |-> "L4", h |-> 8, role |-> "s", snd |-> 2, rcv |-> 0, idc |-> 0])
  \o Att3Ev
Conc(e) ==
  CASE e.k = "Send1" -> << [e |-> "ASend", l |-> "L1", m |-> e.m, len |-> e.len, batchable |-> TRUE, settled |-> IF cfg.snd = 2 THEN e.pre ELSE FALSE] >>
    [] e.k = "Send3" -> << [e |-> "ASend", l |-> "L3", m |-> e.m, len |-> e.len] >>
    [] e.k = "Send13" -> << [e |-> "ASend", l |-> "L1", m |-> e.m, len |-> 1100, batchable |-> TRUE, settled |-> FALSE, nosettle |-> TRUE],
                             [e |-> "ASend", l |-> "L3", m |-> e.m + 1, len |-> 700] >>
    [] e.k = "Await" -> << [e |-> "AAwaitOutcome", nth |-> e.n] >>
    [] e.k = "SFlow" -> << SessFlow([seen |-> e.lag], e.w) >>
    [] e.k = "Grant" -> << LFlow(IF e.l = 1 THEN 5 ELSE 7, IF e.unset THEN -1 ELSE [seen |-> e.lag], e.lc, e.drain, e.echo, e.w) >>
    [] e.k = "Disp" -> << [e |-> "PFrame", perf |-> "disposition", ch |-> CH, ech |-> 0,
                           f |-> [role |-> "r", first |-> [d |-> e.a], last |-> IF e.b = e.a THEN -1 ELSE [d |-> e.b], settled |-> e.settled, state |-> [k |-> e.st, cond |-> "", txn |-> <<>>]]] >>
    [] e.k = "T1" -> << Xfer(TRUE, FALSE, FALSE, e.m, 30, 0, -1, "omit", e.pre) >>
    [] e.k = "T2" -> << Xfer(TRUE, TRUE, FALSE, e.m, 200, 0, 17, "omit", e.pre), Xfer(FALSE, FALSE, FALSE, e.m, 200, 17, -1, "omit", e.pre) >>
    [] e.k = "T3" -> << Xfer(TRUE, TRUE, FALSE, e.m, 300, 0, 3, "omit", e.pre), Xfer(FALSE, TRUE, FALSE, e.m, 300, 3, 0, "repeat", e.pre), Xfer(FALSE, FALSE, FALSE, e.m, 300, 3, -1, "repeat", e.pre) >>
    [] e.k = "TBig" -> << Xfer(TRUE, FALSE, FALSE, e.m, 900, 0, -1, "omit", e.pre) >>
    [] e.k = "TX" -> << XferH(6, TRUE, TRUE, FALSE, e.m, 300, 0, 40, "omit", e.pre), XferH(8, TRUE, FALSE, FALSE, e.m + 1, 30, 0, -1, "omit", TRUE),
                         XferH(6, FALSE, TRUE, FALSE, e.m, 300, 40, 60, "repeat", e.pre), XferH(6, FALSE, FALSE, FALSE, e.m, 300, 100, -1, "repeat", e.pre) >>
    [] e.k = "Recv4" -> << [e |-> "ARecv", l |-> "L4"] >>
    [] e.k = "TAbort" -> << Xfer(TRUE, TRUE, FALSE, e.m, 200, 0, 50, "omit", e.pre), Xfer(FALSE, FALSE, TRUE, e.m, 200, 50, 0, "omit", e.pre) >>
    [] e.k \in {"Recv", "Recv2", "Recv3"} -> << [e |-> "ARecv", l |-> "L2"] >>
    [] e.k = "Acc2" -> << [e |-> "ADispose", l |-> "L2", d |-> <<0>>, state |-> "accept", all |-> FALSE] >>
    [] e.k = "Acc" -> << [e |-> "ADispose", l |-> "L2", d |-> <<0>>, state |-> "accept", all |-> FALSE] >>
    [] e.k = "Rej" -> << [e |-> "ADispose", l |-> "L2", d |-> <<0>>, state |-> "reject", all |-> FALSE] >>
    [] e.k = "Rel" -> << [e |-> "ADispose", l |-> "L2", d |-> <<1, 0>>, state |-> "release", all |-> FALSE] >>
    [] e.k = "Mod" -> << [e |-> "ADispose", l |-> "L2", d |-> <<0>>, state |-> "modify", all |-> FALSE] >>
    [] e.k = "AccAll" -> << [e |-> "ADispose", l |-> "L2", d |-> <<0, 1, 2>>, state |-> "accept", all |-> TRUE] >>
    [] e.k = "SetCredit1" -> << [e |-> "ASetCredit", l |-> "L2", n |-> 1] >>
    [] e.k = "SetCredit3" -> << [e |-> "ASetCredit", l |-> "L2", n |-> 3] >>
    \* the application drains; the sender gives all credit back (delivery-count = the receiver's limit, credit 0)
    [] e.k = "Drain2" -> << [e |-> "ADrain", l |-> "L2"],
                             [e |-> "PFrame", perf |-> "flow", ch |-> CH, ech |-> 0, needs_prev |-> TRUE,
                              f |-> [nii |-> [seen |-> 0], iw |-> [keep |-> TRUE], noi |-> [sent |-> 0], ow |-> 100, h |-> 6, dc |-> [drained |-> TRUE], lc |-> 0, drain |-> TRUE, role |-> "s"]] >>
    [] e.k = "PSettle" -> << [e |-> "PFrame", perf |-> "disposition", ch |-> CH, ech |-> 0,
                              f |-> [role |-> "s", first |-> e.a, last |-> IF e.b = e.a THEN -1 ELSE e.b, settled |-> TRUE, state |-> [k |-> "none", cond |-> "", txn |-> <<>>]]] >>
    [] e.k = "Cancel" -> << [e |-> "ACancel", l |-> e.l] >>
    [] e.k = "Close3" -> << [e |-> "ADetach", l |-> "L3", closed |-> TRUE], [e |-> "PFrame", perf |-> "detach", ch |-> CH, needs_prev |-> TRUE, f |-> [h |-> 7, closed |-> TRUE, err |-> ""]] >>
    [] e.k = "Att3" -> Att3Ev
RECURSIVE Body(_, _)
Body(sc, i) == IF i > Len(sc) THEN <<>> ELSE Conc(sc[i]) \o Body(sc, i + 1)
\* the window reopens, both sending links get ample credit, everything started is accepted and settled, every outcome is awaited
RECURSIVE Awaits(_, _)
Awaits(i, n) == IF i >= n THEN <<>> ELSE << [e |-> "AAwaitOutcome", nth |-> i] >> \o Awaits(i + 1, n)
Suffix == << SessFlow([seen |-> 0], 50), LFlow(5, [seen |-> 0], 50, FALSE, FALSE, -1) >>
          \o (IF l3 = "att" THEN << LFlow(7, [seen |-> 0], 50, FALSE, FALSE, -1) >> ELSE <<>>)
          \o << SessFlow([seen |-> 0], 50),
                [e |-> "PFrame", perf |-> "disposition", ch |-> CH, ech |-> 0,
                 f |-> [role |-> "r", first |-> [d |-> 0], last |-> [d |-> ns + 1], settled |-> TRUE, state |-> [k |-> "accepted", cond |-> "", txn |-> <<>>]]] >>
          \o Awaits(0, nb)
          \o << [e |-> "AClose", err |-> ""], [e |-> "PFrame", perf |-> "close", ch |-> 0, f |-> [err |-> ""]] >>
Done == fin
Emit == Done => PrintT(<<"SCRIPT", ToJson([side |-> Side, id |-> <<"mix", Side, cfg>> \o script, ev |-> Prefix \o Body(script, 1) \o Suffix])>>)
=============================================================================
