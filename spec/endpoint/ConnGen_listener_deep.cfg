SPECIFICATION Spec
CONSTANT Depth = 5
CONSTANT Side = "listener"
INVARIANT Emit
CHECK_DEADLOCK FALSE
