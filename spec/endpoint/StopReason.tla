---------------------------- MODULE StopReason ----------------------------
(* Implementation-shaped model for C14: how a link operation learns why its session stopped.
   The engine task, on its way out, (1) publishes the stop reason in a write-once cell and
   (2) closes its channels; an operation task blocked on a channel wakes when the channel closes
   and then reads the cell.  ReasonFirst = TRUE is the order the engines use (reason, then close);
   FALSE is the dangerous order.  Pending operations are of two kinds: those waiting on a channel
   of the engine (they wake at closure) and those waiting on a one-shot owned by a structure the
   application itself keeps alive (KeptAlive = TRUE models the unsettled map shared with the
   Sender handle: such a wait never learns of the stop -- the open finding of C14). *)
EXTENDS Naturals, TLC
CONSTANTS ReasonFirst, KeptAlive

VARIABLES pcE, reason, chanOpen, oneshotAlive, pcOp, pcOut, seenOp, seenOut
vars == <<pcE, reason, chanOpen, oneshotAlive, pcOp, pcOut, seenOp, seenOut>>
Init == pcE = "running" /\ reason = "none" /\ chanOpen = TRUE /\ oneshotAlive = TRUE
        /\ pcOp = "waiting" /\ pcOut = "waiting" /\ seenOp = "none" /\ seenOut = "none"

\* engine
Fail == pcE = "running" /\ pcE' = "stopping" /\ UNCHANGED <<reason, chanOpen, oneshotAlive, pcOp, pcOut, seenOp, seenOut>>
SetReason == /\ pcE \in {"stopping", "closed"} /\ reason = "none" /\ (ReasonFirst => pcE = "stopping") /\ (~ReasonFirst => pcE = "closed")
             /\ reason' = "stopped" /\ pcE' = (IF ReasonFirst THEN "reasoned" ELSE "done") /\ UNCHANGED <<chanOpen, oneshotAlive, pcOp, pcOut, seenOp, seenOut>>
Close == /\ (IF ReasonFirst THEN pcE = "reasoned" ELSE pcE = "stopping") /\ chanOpen' = FALSE
         /\ oneshotAlive' = (IF KeptAlive THEN oneshotAlive ELSE FALSE)
         /\ pcE' = (IF ReasonFirst THEN "done" ELSE "closed") /\ UNCHANGED <<reason, pcOp, pcOut, seenOp, seenOut>>
\* an operation blocked on an engine channel
OpWake == pcOp = "waiting" /\ ~chanOpen /\ seenOp' = reason /\ pcOp' = "returned" /\ UNCHANGED <<pcE, reason, chanOpen, oneshotAlive, pcOut, seenOut>>
\* an outcome future blocked on the one-shot
OutWake == pcOut = "waiting" /\ ~oneshotAlive /\ seenOut' = reason /\ pcOut' = "returned" /\ UNCHANGED <<pcE, reason, chanOpen, oneshotAlive, pcOp, seenOp>>
Next == Fail \/ SetReason \/ Close \/ OpWake \/ OutWake
Spec == Init /\ [][Next]_vars /\ WF_vars(SetReason) /\ WF_vars(Close) /\ WF_vars(OpWake) /\ WF_vars(OutWake)

\* whoever observes the closure finds the reason
C14_ReasonVisible == (pcOp = "returned" => seenOp = "stopped") /\ (pcOut = "returned" => seenOut = "stopped")
\* every pending operation returns once the engine has stopped
C14_Completes == (pcE = "stopping") ~> (pcOp = "returned" /\ pcOut = "returned")
=============================================================================
