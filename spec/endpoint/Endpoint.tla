---------------------------- MODULE Endpoint ----------------------------
(* Observer model of one AMQP 1.0 connection seen from the endpoint under test (EUT).
   Every trace event (frame from the EUT, frame from the peer, application call / return,
   environment event, quiescence mark) updates the abstract protocol state the AMQP 1.0
   specification (2.4 - 2.7) and the listed properties talk about; each property clause is
   evaluated where it applies and, if it fails, reported as  <<"FAIL", clause, line, detail>>.
   The EUT's frames are *recorded* unconditionally (monitor style): a misbehaving endpoint never
   makes a trace "unexplainable", it makes a named clause fail at a named line.

   Serial numbers in traces are small offsets (see harness/perfjson.rs), so plain integer
   arithmetic here coincides with RFC 1982 arithmetic while the implementation runs next to 2^32.
   -1 means "absent". *)
EXTENDS Integers, Sequences, FiniteSets, TLC

Min(a, b) == IF a < b THEN a ELSE b
Max(a, b) == IF a > b THEN a ELSE b

\* ---------------------------------------------------------------- verdict plumbing
\* R(s, f): result of a handler: new state and number of failed clauses
R(s, f) == [s |-> s, f |-> f]
RF(f, s) == [s |-> s, f |-> f]
RS(s) == [s |-> s]
\* evaluated for its side effect (one line per failing clause); the driver de-duplicates
Fail(name, line, detail) == IF PrintT(<<"FAIL", name, line, detail>>) THEN 1 ELSE 1
Chk(name, cond, line, detail) == IF cond THEN 0 ELSE Fail(name, line, detail)

\* ---------------------------------------------------------------- state
NoSess == [ech |-> -1, pch |-> -1, st |-> "none"]
NewSess == [ech |-> -1, pch |-> -1,
            eBegun |-> FALSE, pBegun |-> FALSE, eEnded |-> FALSE, pEnded |-> FALSE, pEndErr |-> "", endTold |-> FALSE, eEndSpont |-> FALSE, pEndedBeforeE |-> FALSE, name |-> "",
            initOut |-> 0, framesOut |-> 0, delsOut |-> 0, lastDid |-> -1,
            peerNII |-> 0, peerWin |-> 0, devWin |-> 0,          \* window last advertised by the peer / as the code computes it
            pNoi |-> 0, framesInSince |-> 0, pBeginSeen |-> FALSE,
            winBlocked |-> FALSE]
NewLink == [ech |-> -1, pch |-> -1, eh |-> -1, ph |-> -1, name |-> "", eutSender |-> TRUE,
            eAtt |-> FALSE, pAtt |-> FALSE, eDet |-> FALSE, eClosed |-> FALSE, pDet |-> FALSE, pClosed |-> FALSE, pDetErr |-> "", touched |-> FALSE, pDetFirst |-> FALSE, errTold |-> FALSE,
            snd |-> 2, rcv |-> 0, mmsP |-> -1,
            \* sender role (EUT sends)
            idc |-> 0, dcS |-> 0, fBase |-> 0, fN |-> 0, fWired |-> 0, fSends |-> 0, owed |-> 0, limit |-> -1, limRel |-> -1, drainOwed |-> FALSE, echoOwed |-> FALSE, inDel |-> FALSE, curDid |-> -1,
            sendsIssued |-> 0, delsDone |-> 0, blockedBy |-> "none", lastM |-> -1, cancels |-> 0,
            \* receiver role (EUT receives)
            dcR |-> 0, dcGot |-> 0, lcR |-> 0, limitR |-> 0, limitMax |-> 0, idcP |-> 0, accepted |-> 0, broken |-> FALSE, aborts |-> 0, cfgActive |-> FALSE, creditMode |-> -2, autoAcc |-> FALSE, expectLc |-> -1, appLc |-> -1, sflowGap |-> FALSE, dispN |-> 1, held |-> 0, pInDel |-> FALSE, appDrained |-> FALSE, drainAsked |-> FALSE, cutQueued |-> FALSE, detQueued |-> FALSE,
            inq |-> <<>>,          \* incoming deliveries not yet handed to the application
            got |-> <<>>,          \* deliveries handed to the application: [did, m, app (state chosen by the application or "none"), presettled]
            \* settlement
            sendq |-> <<>>,        \* sends of the application on this link: [call, m, did, presettled, outcome, settledByPeer]
            oblEcho |-> {}]        \* deliveries for which the EUT (sender, rcv-settle-mode second) owes a settling disposition

InitState == [side |-> "client", sc |-> 0, last |-> "Init", now |-> 0,
  \* connection
  ehdr |-> FALSE, eframes |-> 0, eopens |-> 0, ecloses |-> 0, ecloseErr |-> FALSE, eeof |-> FALSE,
  phdr |-> "none", popen |-> FALSE, pclose |-> FALSE, pcloseErr |-> "", pcloseHeard |-> FALSE, peof |-> FALSE, illegal |-> FALSE, garbage |-> FALSE, noise |-> FALSE, roomy |-> FALSE, appCloseErr |-> FALSE,
  oblClose |-> FALSE, openRet |-> "none", closeRet |-> "none", hook |-> FALSE, tol |-> 2, timedOut |-> FALSE, panics0 |-> -1, lidle |-> -1, shutAfterIllegal |-> FALSE, illegalWhat |-> "", deadAt |-> 0, callAt |-> <<>>, appTeardown |-> FALSE, lastAlive |-> 0, lastPending |-> 0, badAttach |-> "-", badAttachPending |-> FALSE,
  emfs |-> 512, pmfs |-> 512, echmax |-> 65535, pchmax |-> 65535, eidle |-> -1, pidle |-> -1, lastE |-> 0, lastP |-> 0, openAt |-> -1,
  ss |-> <<>>, ls |-> <<>>, pendCfg |-> <<>>, pendSess |-> <<>>]

\* index of the first element of seq satisfying P, 0 if none
FirstIdx(seq, P(_)) == IF \E i \in DOMAIN seq : P(seq[i]) THEN CHOOSE i \in DOMAIN seq : P(seq[i]) /\ \A j \in 1..(i - 1) : ~P(seq[j]) ELSE 0
LastIdx(seq, P(_)) == IF \E i \in DOMAIN seq : P(seq[i]) THEN CHOOSE i \in DOMAIN seq : P(seq[i]) /\ \A j \in (i + 1)..Len(seq) : ~P(seq[j]) ELSE 0

\* a session is live on the EUT's channel from the EUT's begin until the EUT's end
LiveE(x) == x.eBegun /\ ~x.eEnded
SessByE(s, ch) == LastIdx(s.ss, LAMBDA x : x.ech = ch /\ x.eBegun)
SessByP(s, ch) == LastIdx(s.ss, LAMBDA x : x.pch = ch /\ x.pBegun)
LinkLiveE(x) == x.eAtt /\ ~x.eDet
LinkByE(s, ch, h) == LastIdx(s.ls, LAMBDA x : x.ech = ch /\ x.eh = h /\ x.eAtt)
LinkByP(s, ch, h) == LastIdx(s.ls, LAMBDA x : x.pch = ch /\ x.ph = h /\ x.pAtt)

\* the EUT is reading and reacting to frames
Listening(s) == s.phdr = "amqp" /\ ~s.eeof /\ s.ecloses = 0 /\ ~s.garbage
ConnUp(s) == Listening(s) /\ s.popen /\ s.eopens = 1 /\ ~s.pclose /\ ~s.peof /\ ~s.illegal
OpenShouldSucceed(s) == s.phdr = "amqp" /\ s.popen /\ ~s.illegal

\* ---------------------------------------------------------------- EUT frames
\* a sender link that has a message waiting although window and credit allow it
Stuck(s, k) ==
  LET y == s.ls[k] i == SessByE(s, y.ech) IN
  IF ~(y.eutSender /\ LinkLiveE(y) /\ y.pAtt /\ ~y.pDet /\ y.sendsIssued > y.delsDone /\ i > 0) THEN "no" ELSE
  LET x == s.ss[i]
      winStrict == x.pBegun /\ ~x.pEnded /\ (x.initOut + x.framesOut) - x.peerNII < x.peerWin
      \* (a delivery abandoned by a cancelled send holds no claim to be continued)
      credit == (y.inDel /\ y.cancels = 0) \/ (y.limit >= 0 /\ y.dcS < y.limit)
      \* (named deviation, open finding: a send dropped after it has taken its credit and before its first frame is handed to the session
      \* keeps that credit for good -- the link's delivery-count runs one ahead of the deliveries on the wire.  The shortfall that
      \* explains is at most one credit per send that was cancelled without ever reaching the wire.)
      burnt == Cardinality({n \in DOMAIN y.sendq : y.sendq[n].canc /\ y.sendq[n].did = -1})
      creditBurnt == (y.inDel /\ y.cancels = 0) \/ (y.limit >= 0 /\ y.dcS + burnt < y.limit)
  IN IF ~LiveE(x) \/ ~x.pBegun \/ x.pEnded THEN "no"
     ELSE IF winStrict /\ credit THEN (IF ~creditBurnt THEN "stuck_dev_burnt" ELSE IF x.devWin > 0 THEN "stuck" ELSE "stuck_dev_closed")
     ELSE IF ~winStrict THEN "window" ELSE "credit"

SetS(s, i, x) == [s EXCEPT !.ss[i] = x]
SetL(s, k, y) == [s EXCEPT !.ls[k] = y]
Illegal(s) == [s EXCEPT !.illegal = TRUE]
IllegalW(s, w) == [s EXCEPT !.illegal = TRUE, !.illegalWhat = IF @ = "" THEN w ELSE @]

\* clauses that apply to every frame the EUT writes
EPre(s, r, l) ==
    Chk("C12_HeaderFirst", s.ehdr, l, r.perf)
  + Chk("C12_OpenOnceFirst", (s.eframes = 0) => (r.perf = "open" /\ r.ch = 0), l, r.perf)
  + Chk("C12_NothingAfterClose", s.ecloses = 0, l, r.perf)
  + Chk("C06_WithinMaxOnWire", r.size <= (IF s.popen THEN s.pmfs ELSE 512), l, r.perf)
  + Chk("C17_Heartbeat", ~(s.pidle > 0 /\ s.popen /\ s.eopens = 1 /\ s.ecloses = 0 /\ ~s.eeof) \/ r.t - s.lastE <= s.pidle + s.tol, l, "gap")

H_EHeader(s, r, l) == R([s EXCEPT !.ehdr = TRUE], Chk("C12_HeaderFirst", s.eframes = 0 /\ ~s.ehdr, l, "header"))

H_EOpen(s, r, l) == R([s EXCEPT !.eopens = @ + 1, !.emfs = r.f.mfs, !.echmax = r.f.chmax, !.eidle = r.f.idle],
                      Chk("C12_OpenOnceFirst", s.eopens = 0 /\ r.ch = 0, l, "open"))
H_EClose(s, r, l) == R([s EXCEPT !.ecloses = @ + 1, !.ecloseErr = (r.f.err # ""), !.oblClose = FALSE],
                       Chk("C12_CloseAtMostOnce", s.ecloses = 0, l, "")
                       \* the endpoint closes the connection with an error of its own only for a reason: a frame it may not accept,
                       \* undecodable input, an idle time-out, or because the application asked for it
                     + Chk("C12_NoSpontaneousError", r.f.err = "" \/ s.illegal \/ s.garbage \/ s.noise \/ s.appCloseErr \/ s.lidle > 0 \/ s.pclose \/ s.peof, l, r.f.err)
                       \* (deliveries that had arrived, or were arriving, on a receiving link are thereby lost to the application)
                     + Chk("C10_NoSpuriousError", r.f.err = "" \/ s.illegal \/ s.garbage \/ s.noise \/ s.appCloseErr \/ s.lidle > 0 \/ s.pclose \/ s.peof
                                                  \/ ~\E k \in DOMAIN s.ls : ~s.ls[k].eutSender /\ LinkLiveE(s.ls[k]) /\ (s.ls[k].inq # <<>> \/ s.ls[k].pInDel), l, "connection-closed-by-endpoint")
                       \* the peer's close is answered only after what had been handed over before has been written
                     + Chk("C12_FlushBeforeClose", ~(s.pclose /\ s.ecloses = 0 /\ ~s.illegal /\ ~s.garbage /\ ~s.appTeardown /\ r.f.err = "")
                                                   \/ \A k \in DOMAIN s.ls : ~(s.ls[k].eutSender /\ s.ls[k].pAtt /\ ~s.ls[k].pDet /\ ~s.ls[k].eDet
                                                                              /\ \E n \in DOMAIN s.ls[k].sendq : s.ls[k].sendq[n].ret /\ s.ls[k].sendq[n].presettled
                                                                                                                /\ (s.ls[k].sendq[n].did < 0 \/ s.ls[k].inDel)), l, ""))

H_EBegin(s, r, l) ==
  LET f == r.f
      dup == \E i \in DOMAIN s.ss : s.ss[i].ech = r.ch /\ LiveE(s.ss[i])
      ans == IF f.rch >= 0 THEN LastIdx(s.ss, LAMBDA x : x.pch = f.rch /\ x.pBegun /\ ~x.eBegun) ELSE 0
      base == IF ans > 0 THEN s.ss[ans] ELSE NewSess
      x == [base EXCEPT !.ech = r.ch, !.eBegun = TRUE, !.initOut = f.noi, !.peerNII = f.noi, !.name = IF s.pendSess # <<>> THEN Head(s.pendSess) ELSE ""]
      ss2 == IF ans > 0 THEN [s.ss EXCEPT ![ans] = x] ELSE Append(s.ss, x)
  IN R([s EXCEPT !.ss = ss2, !.pendSess = IF @ # <<>> THEN Tail(@) ELSE @],
         Chk("C11_ChannelUnique", ~dup, l, "")
       + Chk("C17_ChannelMax", r.ch <= (IF s.popen THEN Min(s.echmax, s.pchmax) ELSE s.echmax), l, "")
       + Chk("C11_BeginAnswersKnown", f.rch < 0 \/ ans > 0, l, ""))

H_EEnd(s, r, l) ==
  LET i == SessByE(s, r.ch) IN
  IF i = 0 \/ ~LiveE(s.ss[i]) THEN R(s, Fail("C13_EndAtMostOnce", l, ""))
  ELSE LET fl == Chk("C13_Flush", ~(ConnUp(s) /\ \E k \in DOMAIN s.ls : s.ls[k].ech = r.ch /\ Stuck(s, k) = "stuck"), l, "end")
                 \* a cancelled call leaves the session usable: the endpoint does not end it with an error of its own making
                 + Chk("C16_LaterIntact", r.f.err = "" \/ s.illegal \/ s.garbage \/ s.appTeardown \/ s.ss[i].pEnded
                                          \/ ~\E k \in DOMAIN s.ls : s.ls[k].ech = r.ch /\ s.ls[k].cancels > 0, l, "session-ended")
                 \* the endpoint ends a session with an error of its own only for a reason: the peer broke a rule, sent something undecodable,
                 \* contradicted itself or overran its credit on one of the session's links, has ended or closed itself, or the application asked for it
                 reason == s.illegal \/ s.garbage \/ s.noise \/ s.appTeardown \/ s.badAttach # "-" \/ s.ss[i].pEnded \/ s.pclose \/ s.peof \/ s.timedOut
                           \/ \E k \in DOMAIN s.ls : s.ls[k].ech = r.ch /\ (s.ls[k].broken \/ \E n \in DOMAIN s.ls[k].inq : s.ls[k].inq[n].contra \/ ~s.ls[k].inq[n].within)
                 \* (deliveries that had arrived, or were arriving, on a receiving link of that session are thereby lost to the application)
                 sp == Chk("C13_NoSpontaneousEnd", r.f.err = "" \/ reason, l, r.f.err)
                     + Chk("C10_NoSpuriousError", r.f.err = "" \/ reason \/ ~\E k \in DOMAIN s.ls : s.ls[k].ech = r.ch /\ ~s.ls[k].eutSender /\ LinkLiveE(s.ls[k]) /\ (s.ls[k].inq # <<>> \/ s.ls[k].pInDel),
                           l, "session-ended-by-endpoint") IN
       RF(fl + sp, [s EXCEPT !.ss[i].eEnded = TRUE, !.ss[i].eEndSpont = (r.f.err # "" /\ ~reason),
                   !.ls = [k \in DOMAIN s.ls |-> IF s.ls[k].ech = r.ch /\ LinkLiveE(s.ls[k]) THEN [s.ls[k] EXCEPT !.eDet = TRUE] ELSE s.ls[k]]])

H_EAttach(s, r, l) ==
  LET f == r.f i == SessByE(s, r.ch) IN
  IF i = 0 \/ ~LiveE(s.ss[i]) THEN R(s, Fail("C13_NothingAfterEnd", l, "attach"))
  ELSE LET eutSender == f.role = "s"
           dupH == \E k \in DOMAIN s.ls : s.ls[k].ech = r.ch /\ s.ls[k].eh = f.h /\ LinkLiveE(s.ls[k])
           dupN == \E k \in DOMAIN s.ls : s.ls[k].ech = r.ch /\ s.ls[k].name = f.name /\ s.ls[k].eutSender = eutSender /\ LinkLiveE(s.ls[k])
           \* answers an attach the peer sent first?
           ans == LastIdx(s.ls, LAMBDA y : y.pch = s.ss[i].pch /\ y.name = f.name /\ y.eutSender = eutSender /\ y.pAtt /\ ~y.eAtt /\ ~y.pDet)
           \* a link that is resumed keeps the sends that are still unsettled: their outcome may now come from the peer's unsettled map
           prev == LastIdx(s.ls, LAMBDA y : y.name = f.name /\ y.eutSender = eutSender /\ y.eAtt /\ y.eDet /\ ~y.pClosed)
           kept == IF eutSender /\ ans = 0 /\ prev > 0 THEN SelectSeq(s.ls[prev].sendq, LAMBDA q : ~q.done /\ ~q.presettled /\ q.did >= 0) ELSE <<>>
           base == IF ans > 0 THEN s.ls[ans] ELSE [NewLink EXCEPT !.sendq = kept, !.sendsIssued = Len(kept), !.delsDone = Len(kept)]
           ci == LastIdx(s.pendCfg, LAMBDA c : c.name = f.name)
           y == [base EXCEPT !.ech = r.ch, !.eh = f.h, !.name = f.name, !.eutSender = eutSender, !.eAtt = TRUE,
                             !.creditMode = IF ~eutSender /\ ci > 0 THEN s.pendCfg[ci].credit ELSE @,
                             !.autoAcc = IF ~eutSender /\ ci > 0 THEN s.pendCfg[ci].autoAcc ELSE @,
                             !.idc = IF eutSender /\ f.idc >= 0 THEN f.idc ELSE @, !.dcS = IF eutSender /\ f.idc >= 0 THEN f.idc ELSE @, !.fBase = IF eutSender /\ f.idc >= 0 THEN f.idc ELSE @,
                             !.limit = IF eutSender /\ f.idc >= 0 /\ base.limRel >= 0 THEN f.idc + base.limRel ELSE @,
                             \* the settle modes in use: snd-settle-mode is what the sender states, rcv-settle-mode what the receiver states (2.7.3);
                             \* the other side's value is a wish and counts only until the owner has spoken
                             !.snd = IF eutSender \/ ans = 0 THEN f.snd ELSE @, !.rcv = IF ~eutSender \/ ans = 0 THEN f.rcv ELSE @]
       IN R([s EXCEPT !.ls = IF ans > 0 THEN [s.ls EXCEPT ![ans] = y] ELSE Append(s.ls, y)],
              Chk("C11_HandleUnique", ~dupH, l, "") + Chk("C11_NameOnce", ~dupN, l, f.name)
            + Chk("C13_SenderStatesCount", ~eutSender \/ f.idc >= 0, l, ""))

H_EDetach(s, r, l) ==
  LET k == LinkByE(s, r.ch, r.f.h) IN
  IF k = 0 \/ ~LinkLiveE(s.ls[k]) THEN R(s, Fail("C13_DetachAtMostOncePerAttach", l, ""))
  \* detQueued: deliveries the application had submitted are not (completely) on the wire when the detach is written
  ELSE R([s EXCEPT !.ls[k].eDet = TRUE, !.ls[k].eClosed = r.f.closed, !.ls[k].detQueued = (s.ls[k].eutSender /\ (s.ls[k].inDel \/ \E n \in DOMAIN s.ls[k].sendq : s.ls[k].sendq[n].did = -1))],
         Chk("C13_DetachInKind", ~s.ls[k].pDet \/ ~s.ls[k].pClosed \/ r.f.closed, l, "")
         \* what the application had queued on the link and could be sent goes out before the detach
       + Chk("C13_Flush", ~(ConnUp(s) /\ Stuck(s, k) = "stuck"), l, "detach"))

\* the frame's link must be attached by the EUT and not yet detached
ELink(s, r) == LET k == LinkByE(s, r.ch, r.f.h) IN IF k > 0 /\ LinkLiveE(s.ls[k]) THEN k ELSE 0

H_ETransfer(s, r, l) ==
  LET f == r.f i == SessByE(s, r.ch) IN
  IF i = 0 \/ ~LiveE(s.ss[i]) THEN R(s, Fail("C13_NothingAfterEnd", l, "transfer")) ELSE
  LET k == ELink(s, r) IN
  IF k = 0 THEN R([s EXCEPT !.ss[i].framesOut = @ + 1],
                  Fail("C13_NothingAfterDetach", l, IF LinkByE(s, r.ch, r.f.h) > 0 /\ s.ls[LinkByE(s, r.ch, r.f.h)].detQueued THEN "transfer:queued_at_detach" ELSE "transfer")) ELSE
  LET x == s.ss[i] y == s.ls[k]
      id == x.initOut + x.framesOut
      \* a frame with another delivery-id than the delivery in progress starts a new delivery and leaves the old one unfinished
      abandoned == y.inDel /\ f.did >= 0 /\ f.did # y.curDid
      first == ~y.inDel \/ abandoned
      strictOK == x.pBegun /\ id >= x.peerNII /\ id - x.peerNII < x.peerWin
      \* deviation model (known finding): the session counts one transfer per link-level transfer; the link splits a
      \* delivery only at multiples of the peer's max-message-size, every other frame boundary is made below the session
      unit == first \/ (y.mmsP > 0 /\ r.pl.off % y.mmsP = 0)
      devOK == x.pBegun /\ (unit => x.devWin > 0)
      x2 == [x EXCEPT !.framesOut = @ + 1, !.delsOut = IF unit THEN @ + 1 ELSE @, !.lastDid = IF first /\ f.did >= 0 THEN f.did ELSE @,
                      !.devWin = IF unit THEN Max(0, @ - 1) ELSE @]
      \* (a delivery that is sent again after a resumption -- resumed under its tag or resent as a new one -- is the same send: it gets the new id)
      qi0 == IF first THEN FirstIdx(y.sendq, LAMBDA q : q.m = r.pl.m /\ q.did = -1) ELSE 0
      qi == IF first /\ qi0 = 0 /\ f.resume /\ f.tagn >= 0 THEN FirstIdx(y.sendq, LAMBDA q : q.tag = f.tag /\ q.did >= 0 /\ ~q.done /\ ~q.presettled /\ q.outcome = "none")
            ELSE IF first /\ qi0 = 0 /\ r.pl.m >= 0 THEN FirstIdx(y.sendq, LAMBDA q : q.m = r.pl.m /\ q.did >= 0 /\ ~q.done /\ ~q.presettled /\ q.outcome = "none") ELSE qi0
      y2 == [y EXCEPT !.inDel = f.more, !.curDid = IF first THEN f.did ELSE @, !.dcS = IF first THEN @ + 1 ELSE @,
                      !.fWired = IF first THEN @ + 1 ELSE @, !.owed = IF first THEN Max(0, @ - 1) ELSE @,
                      !.delsDone = IF f.more THEN @ ELSE @ + 1, !.lastM = IF first THEN r.pl.m ELSE @,
                      !.sendq = IF qi > 0 THEN [@ EXCEPT ![qi].did = f.did, ![qi].presettled = (f.settled = "t"), ![qi].tag = (IF f.tagn >= 0 THEN f.tag ELSE <<>>)] ELSE @]
  IN R(SetL(SetS(s, i, x2), k, y2),
         Chk("C07_WindowSafety", strictOK, l, IF devOK THEN "dev_ok" ELSE "dev_bad")
       \* (detail queued_at_detach: the open C13 finding seen from here -- transfers of an earlier attachment of this handle were still waiting for the
       \*  session window when its detach was written; they are sent now and look like frames of the new attachment)
       + Chk("C11_DeliveryIdIncreasing", ~first \/ (f.did >= 0 /\ f.did > x.lastDid), l,
             IF \E j \in DOMAIN s.ls : j < k /\ s.ls[j].ech = y.ech /\ s.ls[j].eh = y.eh /\ s.ls[j].eDet /\ s.ls[j].detQueued THEN "queued_at_detach" ELSE "")
       + Chk("C11_ContinuationId", first \/ f.did = -1 \/ f.did = y.curDid, l, "")
       + Chk(IF y.cancels > 0 THEN "C16_NeverPartial" ELSE "C11_DeliveryAbandoned", ~abandoned, l, IF y.cancels > 0 /\ s.roomy THEN "roomy" ELSE "")
       + Chk("C08_SenderRole", y.eutSender, l, "")
       \* The count the endpoint has reached is at least what its last flow stated plus the deliveries started since beyond those that were
       \* already waiting then (they may have been counted in that flow).
       \* (a delivery that had credit while it was waiting inside the endpoint -- for the session window or a full channel -- has taken
       \*  that credit; a later flow that lowers the limit does not call it back, exactly as for a transfer in flight)
       + Chk("C08_WithinCredit", ~first \/ (y.limit >= 0 /\ (y.fBase + Max(0, y.fWired - y.fN) < y.limit \/ y.owed > 0)), l,
             IF \E j \in DOMAIN s.ls : j < k /\ s.ls[j].ech = y.ech /\ s.ls[j].eh = y.eh /\ s.ls[j].eDet /\ s.ls[j].detQueued THEN "queued_at_detach" ELSE "")
       + Chk("C01_PayloadContinuity", r.pl.ok, l, "")
       \* deliveries leave in the order the application submitted them, none twice (message numbers grow per link)
       + Chk("C07_Fifo", r.pl.ok /\ (~first \/ r.pl.m > y.lastM), l, "")
       + Chk("C16_LaterIntact", y.cancels = 0 \/ (r.pl.ok /\ (~first \/ r.pl.m > y.lastM)), l, ""))

H_EFlow(s, r, l) ==
  LET f == r.f i == SessByE(s, r.ch) IN
  IF i = 0 \/ ~LiveE(s.ss[i]) THEN R(s, Fail("C13_NothingAfterEnd", l, "flow")) ELSE
  LET x == s.ss[i]
      fs == Chk("C07_Accounting_Out", f.noi = x.initOut + x.framesOut, l, IF f.noi = x.initOut + x.delsOut THEN "dev_ok" ELSE "dev_bad")
          + Chk("C07_Accounting_In", IF x.pBegun THEN f.nii = x.pNoi + x.framesInSince ELSE f.nii = -1, l, "")
  IN IF f.h < 0 THEN R(s, fs) ELSE
  LET k == ELink(s, r) IN
  IF k = 0 THEN R(s, fs + Fail("C13_NothingAfterDetach", l, "flow")) ELSE
  LET y == s.ls[k] IN
  IF y.eutSender
  THEN LET \* drain: the sender advances its delivery-count to the limit (if it is not already there or beyond) and shows zero credit
           \* The delivery-count a sender states: one per delivery, however many frames carry it.  A delivery takes its credit when the
           \* link hands it over, which may be before its first frame is on the wire (it may wait for the session window), so between two
           \* flows the count has grown by at least the deliveries started on the wire beyond those that were already waiting at the
           \* earlier flow, and by at most those waiting then plus those submitted since.
           notStarted == Cardinality({n \in DOMAIN y.sendq : y.sendq[n].did = -1})
           lo == y.fBase + Max(0, y.fWired - y.fN)
           hi == y.fBase + y.fN + y.fSends
           drained == y.drainOwed /\ f.lc = 0 /\ f.dc >= y.limit /\ f.dc >= lo /\ (f.dc = y.limit \/ f.dc <= hi)
           y2 == [y EXCEPT !.drainOwed = IF drained THEN FALSE ELSE @, !.dcS = IF drained THEN Max(y.dcS, y.limit - y.owed) ELSE @, !.echoOwed = FALSE,   \* (deliveries that hold credit but are not on the wire yet are inside the drained count: they add themselves when they start)
                           !.fBase = f.dc, !.fN = notStarted, !.fWired = 0, !.fSends = 0]
       IN R(SetL(s, k, y2), fs + Chk("C08_OnePerDelivery", (f.dc >= lo /\ f.dc <= hi) \/ drained, l, ""))
  ELSE \* the delivery-count a receiver reports is the sender's count as learnt, advanced by the deliveries it has taken in:
       \* at least those already handed to the application, at most those that have arrived (a link endpoint
       \* processes arrivals when the application drives it)
       \* cutQueued: the flow states a limit below what has already arrived and waits for recv() (credit lowered over queued deliveries)
       R(SetL(s, k, [y EXCEPT !.lcR = f.lc, !.limitR = f.dc + Max(f.lc, 0), !.limitMax = Max(@, f.dc + Max(f.lc, 0)), !.expectLc = -1, !.drainAsked = FALSE,
                              !.cutQueued = (@ \/ (y.dcR > y.dcGot /\ f.dc + Max(f.lc, 0) < y.dcR))]),
         fs + Chk("C09_FlowCount", f.dc >= y.dcGot /\ f.dc <= y.dcR, l, IF y.sflowGap THEN "after_sender_flow" ELSE "")
            + Chk("C09_FlowCredit", y.expectLc < 0 \/ f.lc = y.expectLc, l, "")
            \* credit that is re-issued must be usable: a flow that raises the limit while telling the sender to drain makes a sender that
            \* honours drain give the fresh credit back at once; only the application's own drain() may do that
            + Chk("C09_TopUpUsable", ~(f.drain /\ f.lc > 0 /\ f.dc + f.lc > y.limitR) \/ y.drainAsked, l, "")
            + Chk("C09_FlowCreditAuto", ~y.cfgActive \/ y.creditMode < 0 \/ y.expectLc >= 0 \/ f.drain \/ f.lc <= Max(y.creditMode, y.appLc), l, ""))   \* (credit the application raised itself may be re-announced)

\* a delivery that may be handed to the application: complete, not aborted, not contradictory
Eligible(e) == e.complete /\ ~e.aborted /\ ~e.contra
\* ---------------------------------------------------------------- settlement (C02)
Terminal(st) == st.k \in {"accepted", "rejected", "released", "modified"} \/ (st.k = "txn" /\ st.cond \in {"accepted", "rejected", "released", "modified"})
OutcomeOf(st) == IF st.k = "txn" THEN st.cond ELSE st.k
InRange(d, f) == d >= f.first /\ d <= (IF f.last >= 0 THEN f.last ELSE f.first)

\* the peer (receiver) reports on deliveries the EUT sent
H_PDisposition(s, r, l) ==
  LET f == r.f i == SessByP(s, r.ch) IN
  IF i = 0 \/ s.ss[i].pEnded THEN R(Illegal(s), 0) ELSE
  IF f.role = "r"
  THEN LET ech == s.ss[i].ech
           upd(y) == IF ~(y.ech = ech /\ y.eutSender) THEN y ELSE
                     [y EXCEPT !.sendq = [n \in DOMAIN y.sendq |->
                                            IF y.sendq[n].did >= 0 /\ InRange(y.sendq[n].did, f) /\ ~y.sendq[n].presettled /\ y.sendq[n].outcome = "none" /\ Terminal(f.state)
                                            THEN [y.sendq[n] EXCEPT !.outcome = OutcomeOf(f.state), !.done = f.settled]
                                            ELSE IF y.sendq[n].did >= 0 /\ InRange(y.sendq[n].did, f) /\ f.settled THEN [y.sendq[n] EXCEPT !.done = TRUE]
                                            ELSE y.sendq[n]],
                               \* a settling echo is owed only for deliveries that are still unsettled
                               !.oblEcho = IF y.rcv = 1 /\ ~f.settled /\ Terminal(f.state)
                                           THEN @ \cup {y.sendq[n].did : n \in {n \in DOMAIN y.sendq : y.sendq[n].did >= 0 /\ InRange(y.sendq[n].did, f) /\ ~y.sendq[n].presettled /\ ~y.sendq[n].done}}
                                           ELSE {d \in @ : ~(f.settled /\ InRange(d, f))}]
       IN R([s EXCEPT !.ls = [k \in DOMAIN s.ls |-> upd(s.ls[k])]], 0)
  ELSE R(s, 0)

\* the EUT's own dispositions
H_EDisposition(s, r, l) ==
  LET f == r.f i == SessByE(s, r.ch) IN
  IF i = 0 \/ ~LiveE(s.ss[i]) THEN R(s, Fail("C13_NothingAfterEnd", l, "disposition")) ELSE
  IF f.role = "s"
  THEN \* settling echo of the EUT as sender
       LET mine == UNION {{s.ls[k].sendq[n].did : n \in DOMAIN s.ls[k].sendq} : k \in {k \in DOMAIN s.ls : s.ls[k].ech = r.ch /\ s.ls[k].eutSender}}
           hi == IF f.last >= 0 THEN f.last ELSE f.first
       IN R([s EXCEPT !.ls = [k \in DOMAIN s.ls |-> IF s.ls[k].ech = r.ch /\ s.ls[k].eutSender
                                                    THEN [s.ls[k] EXCEPT !.oblEcho = {d \in @ : ~InRange(d, f)},
                                                                         !.sendq = [n \in DOMAIN @ |-> IF @[n].did >= 0 /\ InRange(@[n].did, f) THEN [@[n] EXCEPT !.done = TRUE] ELSE @[n]]] ELSE s.ls[k]]],
              Chk("C02_NoEchoForUnknown", hi - f.first <= 64 /\ \A d \in f.first..hi : d \in mine, l, "")
            + Chk("C02_EchoSettles", f.settled, l, ""))
  ELSE \* disposition of the EUT as receiver: every delivery in the range must have been disposed that way by the application
       LET pch == s.ss[i].pch
           hi == IF f.last >= 0 THEN f.last ELSE f.first
           rl == {k \in DOMAIN s.ls : s.ls[k].pch = pch /\ ~s.ls[k].eutSender}
           find(d) == {<<k, n>> \in UNION {{<<k, n>> : n \in DOMAIN s.ls[k].got} : k \in rl} : s.ls[k].got[n].did = d}
           \* with auto-accept the disposition is written while recv is still running: the delivery is complete but not yet returned
           auto(d) == \E k \in rl : s.ls[k].autoAcc /\ \E n \in DOMAIN s.ls[k].inq : s.ls[k].inq[n].did = d /\ Eligible(s.ls[k].inq[n])
                                     /\ f.state.k = "accepted" /\ (s.ls[k].rcv = 1 => ~f.settled)
           okd(d) == \E kn \in find(d) : LET y == s.ls[kn[1]] g == y.got[kn[2]] IN
                        /\ (IF y.autoAcc /\ g.app = "none" THEN f.state.k = "accepted" ELSE f.state.k = g.app)
                        /\ (y.rcv = 1 => ~f.settled)
       IN R(s, Chk("C02_RangeExact", hi - f.first <= 64 /\ \A d \in f.first..hi : find(d) # {} \/ auto(d), l, "")
             + Chk("C02_OwnState", hi - f.first > 64 \/ \A d \in f.first..hi : find(d) = {} \/ okd(d), l, ""))

H_EFrame(s, r, l) ==
  LET pre == EPre(s, r, l)
      s1 == [s EXCEPT !.eframes = @ + 1, !.lastE = r.t]
      h == CASE r.perf = "open" -> H_EOpen(s1, r, l)
             [] r.perf = "close" -> H_EClose(s1, r, l)
             [] r.perf = "begin" -> H_EBegin(s1, r, l)
             [] r.perf = "end" -> H_EEnd(s1, r, l)
             [] r.perf = "attach" -> H_EAttach(s1, r, l)
             [] r.perf = "detach" -> H_EDetach(s1, r, l)
             [] r.perf = "transfer" -> H_ETransfer(s1, r, l)
             [] r.perf = "flow" -> H_EFlow(s1, r, l)
             [] r.perf = "disposition" -> H_EDisposition(s1, r, l)
             [] r.perf = "undecodable" -> R(s1, Fail("C06_Undecodable", l, ""))
             [] OTHER -> R(s1, 0)
      \* any frame on a channel whose session the EUT has ended (and not begun again)
      chan == IF r.perf \in {"attach", "detach", "transfer", "flow", "disposition"} /\ SessByE(s, r.ch) > 0 /\ ~LiveE(s.ss[SessByE(s, r.ch)])
              THEN 0 ELSE 0
      \* a reaction to an illegal frame: the EUT shuts a scope down with an error (a plain close / end / detach issued by the application later does not count)
      s9 == IF s.illegal /\ r.perf \in {"close", "end", "detach"} /\ (r.f.err # "" \/ ~s.appTeardown) THEN [h.s EXCEPT !.shutAfterIllegal = TRUE] ELSE h.s
  IN R(s9, pre + h.f + chan)

\* ---------------------------------------------------------------- peer frames

H_PBegin(s, r, l) ==
  LET f == r.f IN
  IF f.rch >= 0
  THEN LET i == LastIdx(s.ss, LAMBDA x : x.ech = f.rch /\ x.eBegun /\ ~x.pBegun) IN
       IF i = 0 THEN R(IllegalW(s, "begin-unknown-remote-channel"), 0)
       ELSE R(SetS(s, i, [s.ss[i] EXCEPT !.pch = r.ch, !.pBegun = TRUE, !.peerNII = s.ss[i].initOut, !.peerWin = f.iw, !.devWin = f.iw, !.pNoi = f.noi, !.framesInSince = 0]), 0)
  ELSE IF \E i \in DOMAIN s.ss : s.ss[i].pch = r.ch /\ s.ss[i].pBegun /\ ~s.ss[i].pEnded THEN R(IllegalW(s, "begin-on-mapped-channel"), 0)
  ELSE R([s EXCEPT !.ss = Append(@, [NewSess EXCEPT !.pch = r.ch, !.pBegun = TRUE, !.peerWin = f.iw, !.devWin = f.iw, !.pNoi = f.noi])], 0)

H_PEnd(s, r, l) ==
  LET i == SessByP(s, r.ch) IN
  IF i = 0 \/ s.ss[i].pEnded THEN R(IllegalW(s, "end-unmapped"), 0)
  ELSE R(SetS(s, i, [s.ss[i] EXCEPT !.pEnded = TRUE, !.pEndErr = r.f.err, !.pEndedBeforeE = ~s.ss[i].eEnded]), 0)

H_PAttach(s, r, l) ==
  LET f == r.f i == SessByP(s, r.ch) IN
  IF i = 0 \/ s.ss[i].pEnded THEN R(IllegalW(s, "attach-unmapped"), 0) ELSE
  \* an attach on a handle that is in use: a listener sees it only when the application accepts it; accepting it is the violation
  IF \E k \in DOMAIN s.ls : s.ls[k].pch = r.ch /\ s.ls[k].ph = f.h /\ s.ls[k].pAtt /\ ~s.ls[k].pDet
  THEN (IF s.side = "listener" THEN R([s EXCEPT !.badAttach = f.name, !.badAttachPending = TRUE], 0) ELSE R(IllegalW(s, "attach-handle-in-use"), 0)) ELSE
  LET eutSender == f.role = "r"
      ans == LastIdx(s.ls, LAMBDA y : y.ech = s.ss[i].ech /\ y.name = f.name /\ y.eutSender = eutSender /\ y.eAtt /\ ~y.pAtt /\ ~y.eDet)
      base == IF ans > 0 THEN s.ls[ans] ELSE NewLink
      y == [base EXCEPT !.pch = r.ch, !.ph = f.h, !.name = f.name, !.eutSender = eutSender, !.pAtt = TRUE, !.mmsP = f.mms,
                        !.dcR = IF ~eutSender /\ f.idc >= 0 THEN f.idc ELSE @, !.dcGot = IF ~eutSender /\ f.idc >= 0 THEN f.idc ELSE @, !.idcP = IF ~eutSender /\ f.idc >= 0 THEN f.idc ELSE @,
                        !.snd = IF ~eutSender \/ ans = 0 THEN f.snd ELSE @, !.rcv = IF eutSender \/ ans = 0 THEN f.rcv ELSE @,
                        \* resumption: a terminal state in the receiver's unsettled map is the outcome the receiver applied to that delivery
                        \* (2.6.13): the send that waits for it resolves with it
                        !.sendq = IF eutSender THEN [n \in DOMAIN base.sendq |->
                                     LET q == base.sendq[n]
                                         u == FirstIdx(f.unsl, LAMBDA e : e.tag = q.tag /\ e.k \in {"accepted", "rejected", "released", "modified"}) IN
                                     IF u > 0 /\ q.tag # <<>> /\ q.outcome = "none" THEN [q EXCEPT !.outcome = f.unsl[u].k, !.done = TRUE] ELSE q] ELSE @]
  IN R([s EXCEPT !.ls = IF ans > 0 THEN [s.ls EXCEPT ![ans] = y] ELSE Append(s.ls, y)], 0)

H_PDetach(s, r, l) ==
  LET k == LinkByP(s, r.ch, r.f.h) IN
  IF k = 0 \/ s.ls[k].pDet THEN R(IllegalW(s, "detach-unattached"), 0)
  ELSE R(SetL(s, k, [s.ls[k] EXCEPT !.pDet = TRUE, !.pClosed = r.f.closed, !.pDetErr = r.f.err, !.pDetFirst = ~s.ls[k].eDet, !.touched = FALSE]), 0)

H_PFlow(s, r, l) ==
  LET f == r.f i == SessByP(s, r.ch) IN
  IF i = 0 \/ s.ss[i].pEnded THEN R(Illegal(s), 0) ELSE
  LET x == s.ss[i]
      nii == IF f.nii >= 0 THEN f.nii ELSE x.initOut
      x2 == [x EXCEPT !.peerNII = nii, !.peerWin = f.iw, !.devWin = Max(0, nii + f.iw - (x.initOut + x.delsOut)), !.pNoi = f.noi, !.framesInSince = 0]
      s2 == SetS(s, i, x2)
  IN IF f.h < 0 THEN R(s2, 0) ELSE
  LET k == LinkByP(s, r.ch, f.h) IN
  IF k = 0 /\ s.side = "listener" THEN R(s2, 0) ELSE
  IF k = 0 \/ s.ls[k].pDet THEN R(IllegalW(s2, "flow-unattached"), 0) ELSE
  LET y == s.ls[k] IN
  IF y.eutSender
  THEN LET lim == (IF f.dc >= 0 THEN f.dc ELSE y.idc) + Max(f.lc, 0) IN
       \* (limRel: the flow left the delivery-count unset, so its limit is relative to the sender's initial delivery-count -- which, on a link the
       \*  peer started, the endpoint states only in its answering attach)
       R(SetL(s2, k, [y EXCEPT !.limit = lim, !.limRel = IF f.dc >= 0 THEN -1 ELSE Max(f.lc, 0), !.drainOwed = f.drain, !.echoOwed = (@ \/ f.echo),
                                \* (a flow that asks for a drain hands no credit to sends that are waiting for it: the endpoint may give all of it back)
                                !.owed = IF f.drain THEN @ ELSE Max(@, Min(Cardinality({n \in DOMAIN y.sendq : y.sendq[n].did = -1}), Max(0, lim - y.dcS)))]), 0)
  \* the sender states its delivery-count: everything it has sent has arrived (dcR); deliveries that have arrived but have not been
  \* handed to the application yet stay that many behind (dcGot).  sflowGap remembers that such a flow overtook queued deliveries.
  ELSE R(SetL(s2, k, [y EXCEPT !.dcR = IF f.dc >= 0 THEN f.dc ELSE @, !.dcGot = IF f.dc >= 0 THEN f.dc - (y.dcR - y.dcGot) ELSE @,
                                !.sflowGap = (@ \/ (f.dc >= 0 /\ y.dcR > y.dcGot))]), 0)

\* one incoming delivery as the observer sees it
NewIn(f, pl, within) == [m |-> pl.m, total |-> pl.total, next |-> IF pl.off = 0 THEN pl.len ELSE -1, did |-> f.did, tag |-> f.tag, tagn |-> f.tagn, fmt |-> f.fmt,
                         within |-> within, aborted |-> f.aborted, contra |-> FALSE, complete |-> (~f.more \/ f.aborted), presettled |-> (f.settled = "t")]
H_PTransfer(s, r, l) ==
  LET i == SessByP(s, r.ch) f == r.f IN
  IF i = 0 \/ s.ss[i].pEnded THEN R(Illegal(s), 0) ELSE
  LET s2 == SetS(s, i, [s.ss[i] EXCEPT !.framesInSince = @ + 1])
      k == LinkByP(s, r.ch, f.h) IN
  \* a listener keeps link frames for handles it has not accepted an attach for (the attach may still be waiting for the application)
  IF k = 0 /\ s.side = "listener" THEN R(s2, 0) ELSE
  IF k = 0 \/ s.ls[k].pDet \/ s.ls[k].eutSender THEN R(IllegalW(s2, "transfer-bad-handle"), 0) ELSE
  LET y == s.ls[k] IN
  IF ~y.pInDel
  THEN R(SetL(s2, k, [y EXCEPT !.inq = Append(@, NewIn(f, r.pl, y.dcR < y.limitR)), !.dcR = @ + 1, !.pInDel = (f.more /\ ~f.aborted), !.aborts = IF f.aborted THEN @ + 1 ELSE @]), 0)
  ELSE LET n == Len(y.inq) e == y.inq[n]
           e2 == [e EXCEPT !.contra = (@ \/ (f.did >= 0 /\ f.did # e.did) \/ (f.tagn >= 0 /\ f.tag # e.tag) \/ (f.fmt >= 0 /\ f.fmt # e.fmt)),
                           !.next = IF r.pl.m = e.m /\ r.pl.off = e.next THEN e.next + r.pl.len ELSE -1,
                           !.aborted = (@ \/ f.aborted), !.complete = (~f.more \/ f.aborted)]
       IN R(SetL(s2, k, [y EXCEPT !.inq[n] = e2, !.pInDel = (f.more /\ ~f.aborted), !.aborts = IF f.aborted THEN @ + 1 ELSE @]), 0)

H_PFrame(s, r, l) ==
  \* the peer's close is heard even after the EUT has sent its own
  IF r.written /\ r.perf = "close" /\ s.phdr = "amqp" /\ ~s.eeof /\ ~s.garbage /\ s.popen /\ s.ecloses > 0
  THEN R([s EXCEPT !.lastP = r.t, !.pclose = TRUE, !.pcloseErr = r.f.err, !.pcloseHeard = TRUE], 0) ELSE
  \* frames that reach the EUT while it waits for the answer to its close are not judged (they may be in flight or may be
  \* violations such as a second open or a begin for an unknown channel); the close result is then not required to be clean
  IF r.written /\ r.perf \notin {"close", "empty"} /\ s.ecloses > 0 /\ ~s.eeof THEN R([s EXCEPT !.lastP = r.t, !.noise = TRUE], 0) ELSE
  IF ~r.written \/ ~Listening(s) THEN R([s EXCEPT !.lastP = r.t], 0) ELSE
  LET s1 == [s EXCEPT !.lastP = r.t] IN
  IF r.perf = "empty" THEN R(s1, 0)
  ELSE IF r.perf = "open" THEN
       (IF s.popen \/ r.ch # 0 THEN R(IllegalW(s1, "second-open"), 0)
        ELSE R([s1 EXCEPT !.popen = TRUE, !.pmfs = Max(r.f.mfs, 512), !.pchmax = r.f.chmax, !.pidle = r.f.idle, !.openAt = r.t], 0))
  \* (a close that comes instead of the peer's open -- the peer refuses the connection -- is a close all the same: it is owed an answer)
  ELSE IF ~s.popen THEN R([Illegal(s1) EXCEPT !.pclose = (@ \/ r.perf = "close"), !.oblClose = (@ \/ (r.perf = "close" /\ s.phdr = "amqp" /\ s.ecloses = 0 /\ ~s.eeof))], 0)
  ELSE IF r.perf = "close" THEN R([s1 EXCEPT !.pclose = TRUE, !.pcloseErr = r.f.err, !.pcloseHeard = TRUE, !.oblClose = TRUE, !.deadAt = IF @ = 0 THEN l ELSE @], 0)
  ELSE IF s.pclose THEN R(s1, 0)          \* nothing is expected of frames after the peer's close
  ELSE CASE r.perf = "begin" -> H_PBegin(s1, r, l)
         [] r.perf = "end" -> H_PEnd(s1, r, l)
         [] r.perf = "attach" -> H_PAttach(s1, r, l)
         [] r.perf = "detach" -> H_PDetach(s1, r, l)
         [] r.perf = "flow" -> H_PFlow(s1, r, l)
         [] r.perf = "transfer" -> H_PTransfer(s1, r, l)
         [] r.perf = "disposition" -> H_PDisposition(s1, r, l)
         [] OTHER -> R(s1, 0)

\* (header bytes where a frame is expected are garbage)
H_PHeader(s, r, l) == R([s EXCEPT !.phdr = IF s.phdr = "none" THEN r.kind ELSE "twice", !.garbage = (@ \/ s.phdr # "none")], 0)

\* ---------------------------------------------------------------- application
SessName(scope) == scope      \* the scope string of a session call ("s:<name>") identifies the session
LinkByName(s, name, wantSender) == LastIdx(s.ls, LAMBDA y : y.name = name /\ y.eAtt /\ y.eutSender = wantSender)

H_ApiCall(s, r, l) ==
  \* roomy: the channels between link, session and connection are not configured down to a handful of slots
  IF r.op \in {"open", "accept"} THEN R([s EXCEPT !.openRet = "pending", !.lidle = IF "idle" \in DOMAIN r.args THEN r.args.idle ELSE -1,
                                                    !.roomy = ~("buf" \in DOMAIN r.args /\ r.args.buf < 64)], 0)
  ELSE IF r.op \in {"begin", "accept_session"} THEN R([s EXCEPT !.pendSess = Append(@, r.scope)], 0)
  ELSE IF r.op \in {"attach_receiver", "accept_link"} THEN R([s EXCEPT !.pendCfg = Append(@, [name |-> r.lname, credit |-> IF "credit" \in DOMAIN r.args THEN r.args.credit ELSE -1,
                                                                                                 autoAcc |-> IF "auto_accept" \in DOMAIN r.args THEN r.args.auto_accept ELSE FALSE])], 0)
  ELSE IF r.op \in {"send", "send_batchable"} THEN
       LET k == LinkByName(s, r.lname, TRUE) IN
       IF k = 0 THEN R(s, 0) ELSE R(SetL(s, k, [s.ls[k] EXCEPT !.sendsIssued = @ + 1, !.touched = TRUE, !.fSends = @ + 1,
                                                \* owed: how many of the waiting deliveries have had credit at the same time (they have taken it)
                                                !.owed = Max(@, Min(1 + Cardinality({n \in DOMAIN s.ls[k].sendq : s.ls[k].sendq[n].did = -1}), IF s.ls[k].limit >= 0 THEN Max(0, s.ls[k].limit - s.ls[k].dcS) ELSE 0)),
                                                !.sendq = Append(@, [call |-> r.call, m |-> r.args.m, did |-> -1, presettled |-> (s.ls[k].snd = 1 \/ (s.ls[k].snd = 2 /\ r.args.settled = "t")), outcome |-> "none", done |-> FALSE, ret |-> FALSE, canc |-> FALSE, tag |-> <<>>])]), 0)
  ELSE IF r.op = "dispose" THEN
       LET k == LinkByName(s, r.lname, FALSE)
           st == CASE r.args.state = "accept" -> "accepted" [] r.args.state = "reject" -> "rejected" [] r.args.state = "release" -> "released" [] OTHER -> "modified" IN
       IF k = 0 THEN R(s, 0)
       ELSE R(SetL(s, k, [s.ls[k] EXCEPT !.touched = TRUE, !.dispN = Max(1, Len(r.args.dids)),
                            !.got = [n \in DOMAIN @ |-> IF \E j \in DOMAIN r.args.dids : r.args.dids[j] = @[n].did THEN [@[n] EXCEPT !.app = st] ELSE @[n]]]), 0)
  ELSE IF r.op = "set_credit" THEN
       LET k == LinkByName(s, r.lname, FALSE) IN
       IF k = 0 THEN R(s, 0) ELSE R(SetL(s, k, [s.ls[k] EXCEPT !.expectLc = r.args.n, !.appLc = r.args.n, !.touched = TRUE, !.appDrained = FALSE]), 0)
  \* the application drains the link: by the documented contract of drain() the link stays drained until the application sets credit again
  ELSE IF r.op = "drain" THEN
       LET k == LinkByName(s, r.lname, FALSE) IN
       IF k = 0 THEN R(s, 0) ELSE R(SetL(s, k, [s.ls[k] EXCEPT !.touched = TRUE, !.appDrained = TRUE, !.drainAsked = TRUE]), 0)
  ELSE IF r.scope # "" /\ r.lname # "" /\ r.op # "await_outcome" THEN
       \* any operation on a link counts as the application touching it
       LET k == LastIdx(s.ls, LAMBDA y : y.name = r.lname /\ y.eAtt) IN
       IF k = 0 THEN R(s, 0) ELSE R(SetL(s, k, [s.ls[k] EXCEPT !.touched = TRUE]), 0)
  ELSE R(s, 0)

H_RecvRet(s, r, l) ==
  LET k == LinkByName(s, r.lname, FALSE) IN
  IF k = 0 THEN R(s, 0) ELSE
  LET y == s.ls[k] j == FirstIdx(y.inq, Eligible) IN
  IF ~r.res.ok
  THEN \* an error result consumes nothing the observer can name; a contradictory or over-limit delivery is dropped with it
       \* (a cancelled call is not an error of the link)
       \* (a delivery refused for lack of credit is gone as well: the first one waiting)
       R(SetL(s, k, IF r.res.class = "Cancelled" THEN y
                    ELSE LET q == SelectSeq(y.inq, LAMBDA e : ~e.contra /\ ~(e.complete /\ e.aborted))
                             jj == FirstIdx(q, Eligible)
                         IN [y EXCEPT !.inq = IF r.res.class = "TransferLimitExceeded" /\ jj > 0 THEN SubSeq(q, 1, jj - 1) \o SubSeq(q, jj + 1, Len(q)) ELSE q,
                                      !.broken = TRUE, !.errTold = TRUE]),
         Chk("C13_PeerError", ~(y.pDet /\ y.pDetFirst /\ y.pDetErr # "" /\ ~y.errTold) \/ r.res.cond = y.pDetErr, l, "recv")
         \* recv fails only for a reason: the connection / session / link has stopped or is stopping, the call was cancelled,
         \* or the peer's transfers were contradictory, aborted or beyond the credit issued
       \* (a session the endpoint itself ended with an error it had no reason for is no excuse)
       + Chk("C10_NoSpuriousError", \/ ~ConnUp(s) \/ s.garbage \/ y.pDet \/ ~y.pAtt \/ y.broken \/ r.res.class = "Cancelled" \/ s.appTeardown
                                    \/ SessByE(s, y.ech) = 0 \/ s.ss[SessByE(s, y.ech)].pEnded
                                    \/ ((y.eDet \/ ~LiveE(s.ss[SessByE(s, y.ech)])) /\ ~s.ss[SessByE(s, y.ech)].eEndSpont)
                                    \/ \E n \in DOMAIN y.inq : y.inq[n].contra \/ y.inq[n].aborted \/ ~y.inq[n].within, l,
                                    \* (a refusal for lack of credit after a sender's flow overtook queued deliveries is the double count of the open C09 finding)
                                    IF SessByE(s, y.ech) > 0 /\ s.ss[SessByE(s, y.ech)].eEndSpont THEN "session-ended-by-endpoint"
                                    ELSE IF y.sflowGap /\ r.res.class = "TransferLimitExceeded" THEN "after_sender_flow"
                                    \* (the same late accounting: credit lowered by the application while deliveries sent under the old credit wait for recv())
                                    ELSE IF y.cutQueued /\ r.res.class = "TransferLimitExceeded" THEN "after_credit_cut" ELSE r.res.class))
  ELSE IF j = 0 THEN R(s, Fail("C10_NotBefore", l, "") + (IF \E n \in DOMAIN y.inq : y.inq[n].m = r.res.m /\ y.inq[n].contra THEN Fail("C10_Contradiction", l, "") ELSE 0)
                                + (IF \E n \in DOMAIN y.inq : y.inq[n].m = r.res.m /\ y.inq[n].aborted THEN Fail("C10_Abort", l, "") ELSE 0))
  ELSE LET e == y.inq[j] IN
       \* (a recv that hands over a delivery that had arrived before the peer's detach has not yet shown the detach to the application)
       R(SetL(s, k, [y EXCEPT !.inq = SubSeq(@, j + 1, Len(@)), !.held = IF y.autoAcc THEN @ ELSE @ + 1, !.dcGot = @ + 1, !.accepted = @ + 1, !.touched = FALSE,
                         !.got = Append(@, [did |-> e.did, m |-> e.m, app |-> "none", presettled |-> e.presettled])]),
           Chk("C10_Exact", r.res.m = e.m /\ r.res.intact /\ e.next = e.total, l, "")
         + Chk("C11_Routing", r.res.m = e.m \/ ~\E k2 \in DOMAIN s.ls : k2 # k /\ \E n \in DOMAIN s.ls[k2].inq : s.ls[k2].inq[n].m = r.res.m, l, "")
         \* deliveries handed to the application never outnumber the credit issued so far (largest limit stated in a flow)
         + Chk("C09_Enforced", y.accepted + 1 <= y.limitMax - y.idcP, l, "")
         + Chk("C10_Contradiction", ~\E n \in 1..(j - 1) : y.inq[n].contra /\ y.inq[n].m = r.res.m, l, ""))

PeerDetachedWithError(s, name) == LastIdx(s.ls, LAMBDA y : y.name = name /\ y.eAtt /\ y.pDet /\ y.pDetFirst /\ y.pDetErr # "" /\ ~y.errTold)
H_ApiRet(s, r, l) ==
  IF r.op \in {"open", "accept"}
  THEN R([s EXCEPT !.openRet = IF r.res.ok THEN "ok" ELSE r.res.class], Chk("C12_OpenResult", ~r.res.ok \/ OpenShouldSucceed(s), l, ""))
  ELSE IF r.op \in {"close", "on_close"}
  THEN R([s EXCEPT !.closeRet = IF r.res.ok THEN "ok" ELSE r.res.class, !.timedOut = (@ \/ (~r.res.ok /\ r.res.idle_timeout))],
           \* an idle time-out is reported only when nothing has arrived for (at least) the configured time
           Chk("C17_NoEarlyTimeout", r.res.ok \/ ~r.res.idle_timeout \/ (s.lidle > 0 /\ r.t - s.lastP >= s.lidle - s.tol), l, "")
         +
           Chk("C12_CloseResult_PeerError", ~(s.pcloseHeard /\ s.pcloseErr # "") \/ (~r.res.ok /\ r.res.cond = s.pcloseErr), l, r.res.class)
         \* a clean close (no error on either side) is reported as Ok, or -- when the peer closed first -- as the
         \* error-free notification RemoteClosed; never as an error carrying a condition
         + Chk("C12_CloseResult_Clean", ~(s.pcloseHeard /\ s.pcloseErr = "" /\ ~s.illegal /\ s.ecloses = 1 /\ ~s.ecloseErr /\ ~s.garbage /\ ~s.noise)
                                        \/ r.res.ok \/ (r.res.class = "RemoteClosed" /\ r.res.cond = ""), l, r.res.class)
         + Chk("C13_TeardownWaits", ~(r.op = "close" /\ r.res.ok) \/ s.pcloseHeard \/ s.peof, l, "close")
         \* a transport that ends without the peer's close is an error, also when the endpoint's own close had already gone out
         + Chk("C14_ConnHandle", ~(r.res.ok /\ s.peof /\ ~s.pcloseHeard /\ ~s.pclose), l, r.op)
         \* the connection handle reports a transport failure itself
         + Chk("C14_ConnHandle", ~(s.peof /\ ~s.pcloseHeard /\ s.ecloses = 0) \/ ~r.res.ok, l, "")
         \* ... and says why the connection stopped: "illegal state" is an answer only to a close that follows another close
         + Chk("C14_ConnHandle", r.res.class # "IllegalState" \/ Cardinality({a \in DOMAIN s.callAt : s.callAt[a].op = "close"}) > 1, l, "illegal-state"))
  ELSE IF r.op = "begin" THEN
       \* a begin that cannot get a channel within channel-max is refused locally with the dedicated error
       R(s, Chk("C17_RefusedLocally", r.res.ok \/ r.res.class # "LocalChannelMaxReached" \/ Cardinality({i \in DOMAIN s.ss : LiveE(s.ss[i])}) > Min(s.echmax, s.pchmax), l, "")
          + Chk("C17_NotRefusedEarly", ~(~r.res.ok /\ r.res.class = "LocalChannelMaxReached") \/ Cardinality({i \in DOMAIN s.ss : LiveE(s.ss[i])}) >= Min(s.echmax, s.pchmax) + 1, l, ""))
  ELSE IF r.op \in {"detach", "close_link"} THEN
       LET k == LastIdx(s.ls, LAMBDA y : y.name = r.lname /\ y.eAtt) IN
       IF k = 0 THEN R(s, 0) ELSE
       LET y == s.ls[k]
           told == [j \in DOMAIN s.ls |-> IF s.ls[j].name = r.lname /\ s.ls[j].eAtt /\ j <= k THEN [s.ls[j] EXCEPT !.errTold = TRUE] ELSE s.ls[j]] IN
       R([s EXCEPT !.ls = told],
           Chk("C13_TeardownWaits", ~r.res.ok \/ y.pDet \/ ~ConnUp(s), l, r.op)
         + Chk("C13_PeerError", ~(y.pDet /\ y.pDetErr # "" /\ ~y.errTold) \/ (~r.res.ok /\ r.res.cond = y.pDetErr) \/ (s.appTeardown /\ ~r.res.ok /\ r.res.says_sess), l, r.op)
           \* (the error may sit on an earlier attachment of that name: the peer met a non-closing detach with a closing one that carried it,
           \*  and the endpoint attached once more only to close in kind)
         + Chk("C13_PeerError", LET e == LastIdx(s.ls, LAMBDA z : z.name = r.lname /\ z.eAtt /\ z.pDet /\ z.pClosed /\ z.eDet /\ ~z.eClosed /\ ~z.pDetFirst /\ z.pDetErr # "" /\ ~z.errTold) IN
                                  (e = 0) \/ (e = k) \/ (~r.res.ok /\ r.res.cond = s.ls[e].pDetErr) \/ ~ConnUp(s), l, "closing-answer")
         \* an orderly exchange (the peer answered in kind, without an error, on a live session) is reported as success, whatever was still queued on the link
         \* (and an error is not reported before the peer has answered while nothing else has failed)
         + Chk("C13_DetachResult", r.res.ok \/ ~(ConnUp(s) /\ (y.pDet => (~y.pDetFirst /\ y.pDetErr = "" /\ (r.op = "close_link") = y.pClosed)) /\ y.eDet /\ ~y.broken /\ y.cancels = 0 /\ ~s.hook /\ ~s.illegal
                                              /\ SessByE(s, y.ech) > 0 /\ ~s.ss[SessByE(s, y.ech)].pEnded /\ ~s.ss[SessByE(s, y.ech)].eEnded), l, r.res.class))
  ELSE IF r.op = "end" THEN
       LET i == LastIdx(s.ss, LAMBDA x : x.eBegun /\ x.name = SessName(r.scope)) IN
       IF i = 0 THEN R(s, 0) ELSE
       \* the peer's error is reported by the first end() that returns after it (a repeated end() is a usage error)
       R([s EXCEPT !.ss[i].endTold = (@ \/ (s.ss[i].pEnded /\ s.ss[i].pEndErr # "" /\ ~r.res.ok /\ r.res.cond = s.ss[i].pEndErr))],
            Chk("C13_TeardownWaits", ~r.res.ok \/ s.ss[i].pEnded \/ ~ConnUp(s), l, "end")
          + Chk("C13_PeerError", ~(s.ss[i].pEnded /\ s.ss[i].pEndErr # "" /\ ~s.ss[i].endTold) \/ (~r.res.ok /\ r.res.cond = s.ss[i].pEndErr) \/ (s.peof \/ s.pclose \/ s.eeof), l, "end"))   \* (weaker reading: with the connection gone as well, close() is where the application learns it)
  ELSE IF r.op = "accept_link" /\ r.res.ok /\ s.badAttachPending THEN R([s EXCEPT !.badAttachPending = FALSE], Fail("C15_IllegalHandled", l, "attach-handle-in-use-accepted"))
  ELSE IF r.op \in {"attach_receiver", "accept_link"} THEN
       LET k == LinkByName(s, r.lname, FALSE) IN
       IF k = 0 \/ ~r.res.ok THEN R(s, 0) ELSE R(SetL(s, k, [s.ls[k] EXCEPT !.cfgActive = TRUE]), 0)
  ELSE IF r.op = "recv" THEN H_RecvRet(s, r, l)
  ELSE IF r.op = "dispose" /\ r.res.ok THEN
       LET k == LinkByName(s, r.lname, FALSE) IN
       IF k = 0 THEN R(s, 0) ELSE R(SetL(s, k, [s.ls[k] EXCEPT !.held = Max(0, @ - s.ls[k].dispN)]), 0)
  \* (an attach that the peer refuses -- it answers and closes the link with an error -- fails with that error too)
  ELSE IF r.op \in {"send", "send_batchable", "recv", "attach_sender", "attach_receiver"} /\ ~r.res.ok /\ r.lname # "" /\ PeerDetachedWithError(s, r.lname) > 0 THEN
       LET k == PeerDetachedWithError(s, r.lname) IN
       R(SetL(s, k, [s.ls[k] EXCEPT !.errTold = TRUE, !.sendsIssued = IF @ > s.ls[k].delsDone THEN @ - 1 ELSE @]),
         Chk("C13_PeerError", r.res.cond = s.ls[k].pDetErr \/ (s.appTeardown /\ r.res.says_sess), l, r.op))
  ELSE IF r.op = "send_batchable" /\ r.res.ok THEN
       \* the delivery has been handed to the session: from here on it is "queued"
       LET k == LinkByName(s, r.lname, TRUE) IN
       IF k = 0 THEN R(s, 0) ELSE
       R(SetL(s, k, [s.ls[k] EXCEPT !.sendq = [n \in DOMAIN @ |-> IF @[n].call = r.call THEN [@[n] EXCEPT !.ret = TRUE] ELSE @[n]]]), 0)
  ELSE IF r.op \in {"send", "await_outcome"} /\ r.res.ok THEN
       LET k == LinkByName(s, r.lname, TRUE)
           c == IF r.op = "send" THEN r.call ELSE r.of IN
       IF k = 0 THEN R(s, 0) ELSE
       LET qi == FirstIdx(s.ls[k].sendq, LAMBDA q : q.call = c) IN
       IF qi = 0 THEN R(s, 0) ELSE
       LET q == s.ls[k].sendq[qi] IN
       R(s, Chk("C02_OwnOutcome", IF q.presettled THEN r.res.outcome = "accepted" ELSE (q.outcome # "none" /\ r.res.outcome = q.outcome), l,
                IF q.presettled THEN "presettled" ELSE IF q.outcome = "none" THEN "early" ELSE "wrong"))
  ELSE IF r.op \in {"send", "send_batchable", "await_outcome"} /\ ~r.res.ok THEN
       LET k == LinkByName(s, r.lname, TRUE)
           c == IF r.op = "await_outcome" THEN r.of ELSE r.call IN
       IF k = 0 THEN R(s, 0) ELSE
       LET qi == FirstIdx(s.ls[k].sendq, LAMBDA q : q.call = c)
           \* the peer has reported a terminal outcome for this very delivery and nothing has failed: the send must report that outcome
           owed == qi > 0 /\ s.ls[k].sendq[qi].outcome # "none" /\ ConnUp(s) /\ ~s.ls[k].pDet /\ r.res.class # "Cancelled"
                   /\ SessByE(s, s.ls[k].ech) > 0 /\ ~s.ss[SessByE(s, s.ls[k].ech)].pEnded
       IN RF(Chk("C02_OwnOutcome", ~owed, l, "error-instead"),
       \* a cancelled send may or may not have put its message on the wire: it is no longer owed
       SetL(s, k, [s.ls[k] EXCEPT !.sendsIssued = IF @ > s.ls[k].delsDone /\ (~s.ls[k].inDel \/ r.res.class = "Cancelled") THEN @ - 1 ELSE @,
                                    !.cancels = IF r.res.class = "Cancelled" THEN @ + 1 ELSE @,
                                    !.sendq = IF r.res.class = "Cancelled" /\ qi > 0 THEN [@ EXCEPT ![qi].canc = TRUE] ELSE @]))
  ELSE R(s, 0)

\* ---------------------------------------------------------------- failures propagate (C14)
DataPath == {"begin", "accept_session", "attach_sender", "attach_receiver", "accept_link", "send", "send_batchable", "await_outcome", "recv", "dispose", "set_credit", "drain"}
ConnDead(s) == s.peof \/ s.pclose \/ s.eeof
StartedAt(s, c) == LET i == LastIdx(s.callAt, LAMBDA x : x.call = c) IN IF i = 0 THEN 0 ELSE s.callAt[i].line
\* the session a link-scoped call belongs to has been ended by the peer
SessEndedFor(s, lname) == LET k == LastIdx(s.ls, LAMBDA y : y.name = lname /\ y.eAtt) IN
                          k > 0 /\ SessByE(s, s.ls[k].ech) > 0 /\ s.ss[SessByE(s, s.ls[k].ech)].pEnded
SessErrFor(s, lname) == LET k == LastIdx(s.ls, LAMBDA y : y.name = lname /\ y.eAtt) IN s.ss[SessByE(s, s.ls[k].ech)].pEndErr
FailureClauses(s, r, l) ==
  IF r.op \notin DataPath THEN 0 ELSE
    \* a data-path call issued after the connection broke must fail
    \* (the outcome of a pre-settled delivery is known without the peer)
    Chk("C14_DataPathErr", ~(ConnDead(s) /\ s.deadAt > 0 /\ StartedAt(s, r.call) > s.deadAt) \/ ~r.res.ok
                           \/ (r.op = "await_outcome" /\ LET k == LinkByName(s, r.lname, TRUE) IN k > 0 /\ \E n \in DOMAIN s.ls[k].sendq : s.ls[k].sendq[n].call = r.of /\ s.ls[k].sendq[n].presettled), l, r.op)
    \* a call on a link whose session the peer has ended must fail
  + Chk("C14_DataPathErr", ~(r.lname # "" /\ SessEndedFor(s, r.lname) /\ r.op \in {"send", "send_batchable", "recv", "dispose"}) \/ ~r.res.ok, l, "after-end")
    \* the error names the scope that stopped ...
    \* (after a teardown the application started itself the nearest scope it stopped may be named instead)
    \* (when the peer had ended the link's session before the connection went down, naming the session -- with the peer's reason -- is naming the scope that stopped first)
  + Chk("C14_Level", r.res.ok \/ ~(ConnDead(s) /\ s.deadAt > 0 /\ StartedAt(s, r.call) > s.deadAt) \/ r.res.says_conn \/ s.appTeardown
                     \/ (r.res.says_sess /\ \E j \in DOMAIN s.ss : s.ss[j].pEnded), l, r.op)
  + Chk("C14_Level", r.res.ok \/ ConnDead(s) \/ r.lname = "" \/ ~SessEndedFor(s, r.lname) \/ (r.res.says_sess /\ ~r.res.says_conn), l, "session")
    \* ... and carries the peer's condition when one was supplied
    \* (an error that names a nearer scope the application stopped itself need not)
  + Chk("C14_PeerCondition", r.res.ok \/ ~(s.pcloseHeard /\ s.pcloseErr # "" /\ StartedAt(s, r.call) > s.deadAt) \/ r.res.cond = s.pcloseErr \/ (s.appTeardown /\ ~r.res.says_conn), l, r.op)
    \* (also when the connection went down right after the peer's end: the end's error is the only reason the peer ever gave; an error that
    \*  carries a condition of the connection's close instead is accepted)
  + Chk("C14_PeerCondition", r.res.ok \/ (ConnDead(s) /\ s.pcloseErr # "") \/ r.lname = "" \/ ~SessEndedFor(s, r.lname) \/ SessErrFor(s, r.lname) = "" \/ r.res.cond = SessErrFor(s, r.lname) \/ s.appTeardown, l, "session")

\* ---------------------------------------------------------------- quiescence: obligations
H_Quiesce(s, r, l) ==
  LET up == ConnUp(s) /\ ~s.hook          \* a task parked at an armed schedule point is not expected to make progress
      stuck == {k \in DOMAIN s.ls : up /\ Stuck(s, k) \in {"stuck", "stuck_dev_closed", "stuck_dev_burnt"}}
      ls2 == [k \in DOMAIN s.ls |-> IF up /\ Stuck(s, k) \in {"window", "credit"} THEN [s.ls[k] EXCEPT !.blockedBy = Stuck(s, k)] ELSE s.ls[k]]
      fStuck == IF stuck = {} THEN 0 ELSE
                LET k == CHOOSE k \in stuck : TRUE IN
                \* attribution: a wait seen earlier names the resource; otherwise the scarcer one (ties: the window)
                LET y == s.ls[k] x == s.ss[SessByE(s, y.ech)]
                    winSlack == x.peerWin - ((x.initOut + x.framesOut) - x.peerNII)
                    credSlack == y.limit - y.dcS
                    who == IF Stuck(s, k) = "stuck_dev_burnt" THEN "C08_Wake" ELSE IF y.blockedBy = "window" THEN "C07_Drain" ELSE IF y.blockedBy = "credit" THEN "C08_Wake"
                           ELSE IF winSlack <= credSlack THEN "C07_Drain" ELSE "C08_Wake"
                IN Fail(who, l, IF Stuck(s, k) = "stuck" THEN "dev_ok" ELSE IF Stuck(s, k) = "stuck_dev_burnt" THEN "dev_burnt" ELSE "dev_closed")
  IN R([s EXCEPT !.ls = ls2, !.panics0 = IF @ < 0 THEN r.panics ELSE @, !.lastAlive = r.alive, !.lastPending = Len(r.pending)],
         Chk("C12_CloseReply_Q", ~(s.oblClose /\ ~s.eeof), l, "")
       + Chk("C12_IllegalClosed_Q", ~s.illegal \/ s.ecloses > 0 \/ s.eeof \/ ~Listening(s), l, "")
       + Chk("C12_OpenReturns_Q", ~(OpenShouldSucceed(s) /\ s.openRet = "pending" /\ ~s.pclose /\ ~s.peof), l, "")
       + Chk("C13_EndReply_Q", \A i \in DOMAIN s.ss : ~(s.ss[i].pEnded /\ s.ss[i].pEndedBeforeE /\ s.ss[i].eBegun /\ ~s.ss[i].eEnded /\ Listening(s) /\ ~s.pclose), l, "")
       + Chk("C13_DetachReply_Q", \A k \in DOMAIN s.ls : ~(s.ls[k].pDet /\ s.ls[k].pDetFirst /\ s.ls[k].touched /\ LinkLiveE(s.ls[k]) /\ ConnUp(s)
                                                           /\ SessByE(s, s.ls[k].ech) > 0 /\ LiveE(s.ss[SessByE(s, s.ls[k].ech)]) /\ ~s.ss[SessByE(s, s.ls[k].ech)].pEnded), l, "")
       \* closing is answered with closing: a peer that meets the endpoint's non-closing detach with a closing one is owed a closing detach, for
       \* which the endpoint has to attach the link once more (2.6.6); nothing is demanded while that re-attach waits for the peer's answer
       + Chk("C13_ClosingInKind_Q", \A k \in DOMAIN s.ls : LET y == s.ls[k] IN
               ~(ConnUp(s) /\ y.eDet /\ ~y.eClosed /\ y.pDet /\ y.pClosed /\ ~y.pDetFirst /\ y.eAtt /\ y.pAtt
                 /\ SessByE(s, y.ech) > 0 /\ LiveE(s.ss[SessByE(s, y.ech)]) /\ ~s.ss[SessByE(s, y.ech)].pEnded
                 /\ ~\E j \in DOMAIN s.ls : j > k /\ s.ls[j].name = y.name /\ s.ls[j].eutSender = y.eutSender /\ s.ls[j].ech = y.ech
                                              /\ ((s.ls[j].eDet /\ s.ls[j].eClosed) \/ (s.ls[j].eAtt /\ ~s.ls[j].pAtt /\ ~s.ls[j].eDet))), l, "")
       + Chk("C08_Drain_Q", \A k \in DOMAIN s.ls : ~(up /\ s.ls[k].eutSender /\ s.ls[k].drainOwed /\ LinkLiveE(s.ls[k]) /\ ~s.ls[k].pDet), l, "")
       + Chk("C02_Echo_Q", \A k \in DOMAIN s.ls : ~(ConnUp(s) /\ s.ls[k].eutSender /\ s.ls[k].oblEcho # {} /\ LinkLiveE(s.ls[k]) /\ ~s.ls[k].pDet
                                                     /\ SessByE(s, s.ls[k].ech) > 0 /\ LiveE(s.ss[SessByE(s, s.ls[k].ech)]) /\ ~s.ss[SessByE(s, s.ls[k].ech)].pEnded), l, "")
       \* a send whose delivery the peer has settled with a terminal outcome resolves (the disposition reached the link it belongs to)
       + Chk("C02_Resolves_Q", \A k \in DOMAIN s.ls : ~(ConnUp(s) /\ ~s.hook /\ s.ls[k].eutSender /\ LinkLiveE(s.ls[k]) /\ ~s.ls[k].pDet
                                                     /\ SessByE(s, s.ls[k].ech) > 0 /\ LiveE(s.ss[SessByE(s, s.ls[k].ech)]) /\ ~s.ss[SessByE(s, s.ls[k].ech)].pEnded
                                                     /\ \E n \in DOMAIN s.ls[k].sendq : LET q == s.ls[k].sendq[n] IN
                                                          /\ q.outcome # "none" /\ q.done /\ ~q.presettled
                                                          /\ \E i \in DOMAIN r.pending : \/ r.pending[i] = q.call
                                                                                         \/ \E a \in DOMAIN s.callAt : s.callAt[a].call = r.pending[i] /\ s.callAt[a].op = "await_outcome" /\ s.callAt[a].of = q.call), l, "")
       + Chk("C08_Echo_Q", \A k \in DOMAIN s.ls : ~(up /\ s.ls[k].eutSender /\ s.ls[k].echoOwed /\ LinkLiveE(s.ls[k]) /\ ~s.ls[k].pDet), l, "")
       \* local idle time-out: once nothing has arrived for that long (plus the clock granularity) the transport is torn down
       + Chk("C17_LocalTimeoutFires", ~(s.lidle > 0 /\ s.popen /\ s.eopens = 1 /\ s.phdr = "amqp" /\ ~s.garbage /\ r.t - Max(s.lastP, s.openAt) > s.lidle + 2 * s.tol + 2) \/ s.eeof \/ s.ecloses > 0, l, "")
       + Chk("C17_TimeoutReported", ~(s.timedOut) \/ s.eeof, l, "")
       + Chk("C15_NoPanic", s.panics0 < 0 \/ r.panics = s.panics0, l, "")
       \* work and memory per step stay in proportion (CPU of the thread that runs every endpoint task; peak allocation growth)
       + Chk("C15_Cpu", r.cpu_ms <= 2000, l, "")
       + Chk("C15_Alloc", r.peak_kb <= 65536, l, "")
       + Chk("C17_Heartbeat", ~(s.pidle > 0 /\ ConnUp(s)) \/ r.t - s.lastE <= s.pidle + s.tol, l, "quiesce")
       \* automatic credit: with nothing held back by the application the sender must have credit to continue
       + Chk("C09_Replenished_Q", \A k \in DOMAIN s.ls : ~(ConnUp(s) /\ ~s.ls[k].eutSender /\ s.ls[k].creditMode > 0 /\ LinkLiveE(s.ls[k]) /\ s.ls[k].pAtt /\ ~s.ls[k].pDet
                                                            /\ s.ls[k].held = 0 /\ s.ls[k].inq = <<>> /\ ~s.ls[k].pInDel /\ ~s.ls[k].broken
                                                            /\ SessByE(s, s.ls[k].ech) > 0 /\ LiveE(s.ss[SessByE(s, s.ls[k].ech)]) /\ ~s.ss[SessByE(s, s.ls[k].ech)].pEnded
                                                            /\ s.ls[k].cfgActive /\ ~s.ls[k].appDrained /\ s.ls[k].limitR - s.ls[k].dcR <= 0), l,
             IF \E k \in DOMAIN s.ls : s.ls[k].aborts > 0 THEN "after_abort" ELSE "")
       + fStuck)

\* no call is left pending on a scope that has stopped
DeadScope(s, p) == \/ ConnDead(s)
                   \* (a session the application is ending itself has stopped once the peer's end has arrived)
                   \/ (p.sess # "" /\ \E i \in DOMAIN s.ss : s.ss[i].name = p.sess /\ (s.ss[i].pEnded \/ (s.ss[i].eEnded /\ ~s.appTeardown)))
                   \* (the latest incarnation of the link counts: after a non-closing detach the endpoint may have attached it again)
                   \/ (p.lname # "" /\ LET k == LastIdx(s.ls, LAMBDA y : y.name = p.lname /\ y.eAtt) IN k > 0 /\ s.ls[k].pDet)
RECURSIVE PendingFails(_, _, _, _)
PendingFails(s, ps, i, l) == IF i > Len(ps) THEN 0 ELSE (IF DeadScope(s, ps[i]) THEN Fail("C14_Completes", l, ps[i].op) ELSE 0) + PendingFails(s, ps, i + 1, l)
PendingClauses(s, r, l) == PendingFails(s, r.pending, 1, l)

\* ---------------------------------------------------------------- one step
Step(s, r, l) ==
  LET res ==
    CASE r.ev = "Init" -> R([InitState EXCEPT !.side = r.side], 0)
      [] r.ev = "EHeader" -> H_EHeader(s, r, l)
      [] r.ev = "EFrame" -> H_EFrame(s, r, l)
      \* having closed with an error the endpoint discards what still arrives and keeps the transport until the peer's close (or the
      \* peer's end of stream) has arrived
      [] r.ev = "EEof" -> R([s EXCEPT !.eeof = TRUE, !.oblClose = FALSE, !.shutAfterIllegal = (@ \/ (s.illegal /\ s.ecloses = 0))],
                            Chk("C12_WaitsForPeerClose", s.ecloses = 0 \/ ~s.ecloseErr \/ ~s.popen \/ s.pclose \/ s.pcloseHeard \/ s.peof \/ s.garbage \/ s.timedOut \/ s.lidle > 0, l, "")
                            \* the endpoint hangs up on an open connection (no close exchanged) only for a reason; deliveries that had arrived, or were
                            \* arriving, on a receiving link are lost to the application with it
                            \* the peer's close is answered with a close, not by hanging up (unless the peer's side of the stream is gone or unreadable)
                          + Chk("C12_CloseReply", ~s.oblClose \/ s.peof \/ s.garbage, l, "eof-instead-of-close")
                          + Chk("C12_NoSpontaneousError", s.ecloses > 0 \/ ~ConnUp(s) \/ s.illegal \/ s.garbage \/ s.noise \/ s.appTeardown \/ s.lidle > 0 \/ s.timedOut, l, "eof")
                          + Chk("C10_NoSpuriousError", s.ecloses > 0 \/ ~ConnUp(s) \/ s.illegal \/ s.garbage \/ s.noise \/ s.appTeardown \/ s.lidle > 0 \/ s.timedOut
                                                       \/ ~\E k \in DOMAIN s.ls : ~s.ls[k].eutSender /\ LinkLiveE(s.ls[k]) /\ (s.ls[k].inq # <<>> \/ s.ls[k].pInDel), l, "transport-dropped-by-endpoint"))
      [] r.ev = "EGarbage" -> R(s, Fail("C06_Garbage", l, ""))
      [] r.ev = "PHeader" -> H_PHeader(s, r, l)
      [] r.ev = "PFrame" -> H_PFrame(s, r, l)
      [] r.ev = "PRaw" -> R([s EXCEPT !.garbage = TRUE], 0)
      [] r.ev = "PEof" -> R([s EXCEPT !.peof = TRUE, !.deadAt = IF @ = 0 THEN l ELSE @], 0)
      [] r.ev = "PReset" -> R([s EXCEPT !.peof = TRUE, !.deadAt = IF @ = 0 THEN l ELSE @], 0)
      [] r.ev = "ApiCall" -> H_ApiCall([s EXCEPT !.callAt = Append(@, [call |-> r.call, line |-> l, op |-> r.op, of |-> r.of]), !.appTeardown = (@ \/ r.op \in {"close", "end", "detach", "close_link"}),
                                                                  !.appCloseErr = (@ \/ (r.op = "close" /\ "err" \in DOMAIN r.args /\ r.args.err # ""))], r, l)
      [] r.ev = "ApiDrop" -> R([s EXCEPT !.appTeardown = TRUE], 0)
      [] r.ev = "ApiRet" -> LET h == H_ApiRet(s, r, l) IN R(h.s, h.f + FailureClauses(s, r, l))
      [] r.ev = "Quiesce" -> H_Quiesce(s, r, l)
      [] r.ev = "End" -> R(s, Chk("C15_IllegalHandled", ~s.illegal \/ s.shutAfterIllegal, l, s.illegalWhat) + Chk("C15_NoHang", Len(r.pending) = 0 \/ ~(s.peof \/ s.pclose \/ s.eeof), l, "") + Chk("C15_NoPanic", r.panics = s.panics0 \/ s.panics0 < 0, l, "end")
                              + PendingClauses(s, r, l)
                              \* cancellation never leaves half a delivery on the wire nor a complete delivery undelivered
                              + Chk("C16_NeverPartial", ~ConnUp(s) \/ \A k \in DOMAIN s.ls : ~(s.ls[k].eutSender /\ LinkLiveE(s.ls[k]) /\ ~s.ls[k].pDet /\ s.ls[k].inDel /\ s.ls[k].cancels > 0), l, IF s.roomy THEN "roomy" ELSE "")
                              + Chk("C16_NoLoss", ~ConnUp(s) \/ \A k \in DOMAIN s.ls : ~(~s.ls[k].eutSender /\ LinkLiveE(s.ls[k]) /\ ~s.ls[k].pDet /\ ~s.ls[k].broken /\ \E n \in DOMAIN s.ls[k].inq : Eligible(s.ls[k].inq[n])), l, "")
                              + Chk("C14_TasksEnd", ~ConnDead(s) \/ s.lastAlive <= Len(r.pending), l, ""))
      [] r.ev = "Spin" -> R(s, Fail("C15_Quiesces", l, "spin"))
      [] r.ev = "Hook" -> R([s EXCEPT !.hook = (r.op = "arm")], 0)
      [] r.ev = "Advance" -> R([s EXCEPT !.tol = Max(@, r.step + 2)], 0)
      [] OTHER -> R(s, 0)
  IN R([res.s EXCEPT !.last = r.ev, !.now = r.t], res.f)
=============================================================================
