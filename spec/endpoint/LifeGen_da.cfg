SPECIFICATION Spec
CONSTANT Depth = 5
CONSTANT PeerHandleBase = 0
INVARIANT Emit
CHECK_DEADLOCK FALSE
