SPECIFICATION Spec
CONSTANT Depth = 3
CONSTANT RcvMode = 1
CONSTANT PeerRcv = 1
CONSTANT SndMode = 2
CONSTANT PeerH1 = 5
CONSTANT PeerH3 = 8
CONSTANT Side = "client"
INVARIANT Emit
CHECK_DEADLOCK FALSE
