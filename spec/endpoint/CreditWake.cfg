SPECIFICATION Spec
CONSTANT WaitCreatedBeforeCheck = TRUE
CONSTANT Grants = 1
PROPERTY C08_Wakes
CHECK_DEADLOCK FALSE
