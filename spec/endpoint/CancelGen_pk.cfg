SPECIFICATION Spec
CONSTANT Part = "park"
CONSTANT Depth = 4
CONSTANT AutoAccept = FALSE
CONSTANT Pipe = 4194304
CONSTANT Buf = 1
INVARIANT Emit
CHECK_DEADLOCK FALSE
