SPECIFICATION Spec
CONSTANT Depth = 4
CONSTANT Shift = "4294966295"
CONSTANT Win0 = 3
CONSTANT Mms = 0
CONSTANT Side = "client"
INVARIANT Emit
CHECK_DEADLOCK FALSE
