SPECIFICATION Spec
CONSTANT Part = "idle"
CONSTANT Depth = 3
CONSTANT ChMaxes = {0}
CONSTANT LocalIdle = 200
CONSTANT RemoteIdle = 0
INVARIANT Emit
CHECK_DEADLOCK FALSE
