SPECIFICATION Spec
CONSTANT MaxOff = 130
CONSTANT Step3 = 13
INVARIANT Emit
CHECK_DEADLOCK FALSE
