SPECIFICATION Spec
CONSTANT Depth = 5
CONSTANT Side = "client"
INVARIANT Emit
CHECK_DEADLOCK FALSE
