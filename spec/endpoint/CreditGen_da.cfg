SPECIFICATION Spec
CONSTANT Depth = 4
CONSTANT DcShift = "0"
CONSTANT Hook = FALSE
CONSTANT Side = "client"
CONSTANT Mms = 0
INVARIANT Emit
CHECK_DEADLOCK FALSE
CONSTANT Pipelined = FALSE
