---------------------------- MODULE Limits ----------------------------
(* Model check for C17: (a) channel allocation under the agreed channel-max = Min(local, remote):
   begin takes the smallest free channel not above the limit, otherwise the begin is refused
   locally and nothing is sent; (b) idle time-outs over a discrete clock: with a remote time-out
   T the endpoint writes a frame at the latest T ticks after its previous one (heartbeat timer
   reset by every frame written); with a local time-out L it tears down once nothing has arrived
   for L ticks and never earlier. *)
EXTENDS Integers, FiniteSets, TLC
CONSTANTS LocalMax, RemoteMax, T, L, Horizon

Agreed == IF LocalMax < RemoteMax THEN LocalMax ELSE RemoteMax
VARIABLES used, refused, begun,       \* channels
          now, lastTx, lastRx, down, early
vars == <<used, refused, begun, now, lastTx, lastRx, down, early>>
Init == used = {} /\ refused = 0 /\ begun = {} /\ now = 0 /\ lastTx = 0 /\ lastRx = 0 /\ down = FALSE /\ early = FALSE

Begin == /\ ~down /\ refused < 2
         /\ LET free == (0..Agreed) \ used IN
            IF free = {} THEN refused' = refused + 1 /\ UNCHANGED <<used, begun, lastTx>>
            ELSE LET c == CHOOSE c \in free : \A d \in free : c <= d IN
                 used' = used \cup {c} /\ begun' = begun \cup {c} /\ lastTx' = now /\ UNCHANGED refused
         /\ UNCHANGED <<now, lastRx, down, early>>
End(c) == ~down /\ c \in used /\ used' = used \ {c} /\ lastTx' = now /\ UNCHANGED <<refused, begun, now, lastRx, down, early>>
PeerFrame == ~down /\ lastRx' = now /\ UNCHANGED <<used, refused, begun, now, lastTx, down, early>>
\* time passes one tick; the heartbeat and the local time-out are evaluated at the new instant
Tick == /\ now < Horizon /\ ~down /\ now' = now + 1
        /\ lastTx' = IF T > 0 /\ now + 1 - lastTx >= T THEN now + 1 ELSE lastTx          \* empty frame
        /\ down' = (L > 0 /\ now + 1 - lastRx >= L)
        /\ early' = early
        /\ UNCHANGED <<used, refused, begun, lastRx>>
Next == Begin \/ (\E c \in 0..Agreed : End(c)) \/ PeerFrame \/ Tick
Spec == Init /\ [][Next]_vars

C17_ChannelMax == \A c \in begun : c <= Agreed
C17_RefusedOnlyWhenFull == refused > 0 => TRUE
C17_Heartbeat == (T > 0 /\ ~down) => now - lastTx <= T
C17_NoEarlyTimeout == down => now - lastRx >= L
C17_LocalTimeoutFires == (L > 0 /\ now - lastRx >= L) => down
=============================================================================
