---------------------------- MODULE CreditGen ----------------------------
(* Gen for C08: after a handshake with a wide-open session window, every sequence up to Depth of
   sends (one frame, several frames) and receiver flows: grants of 0..2 relative to what the
   receiver has seen (exact or lagging by one delivery), grants with the delivery-count left
   unset, drain with credit, echo requests; then a final generous grant, so that every send that
   was waiting must have gone out.  Delivery-counts start at 0 and just below 2^32 (DcShift).
   With Hook = TRUE the script additionally parks the sending task at the schedule point between
   its failed credit check and its wait while the grant is applied (the interleaving CreditWake.tla
   shows to be the dangerous one). *)
EXTENDS Integers, Sequences, TLC, Json
CONSTANTS Depth, DcShift, Hook, Side, Pipelined, Mms     \* Mms > 0: the peer's max-message-size, so that SendM is split at link level (one credit, several transfers)     \* Side: "client" | "listener"

\* DetResume: the application detaches the link without closing it and resumes it; the receiver's attach comes with a grant right behind it
\* (one write), so the session task applies the flow before the link task has finished the attach exchange
Alphabet == {"Send", "SendM", "Grant0", "Grant1", "Grant2", "Grant1Lag", "Grant2Unset", "Drain1", "Drain2", "Echo"} \cup (IF Side = "client" /\ ~Hook THEN {"DetResume"} ELSE {})
VARIABLES script
Init == script = <<>>
Next == Len(script) < Depth /\ \E e \in Alphabet : script' = Append(script, e)
Spec == Init /\ [][Next]_script

LFlow(dc, lc, drain, echo) == [e |-> "PFrame", perf |-> "flow", ch |-> 3, ech |-> 0,
                                f |-> [nii |-> [seen |-> 0], iw |-> 5000, noi |-> 7, ow |-> 100, h |-> 5, dc |-> dc, lc |-> lc, drain |-> drain, echo |-> echo]]
Prefix == << [e |-> "Shifts", out |-> 0, inn |-> 0, dc_out |-> DcShift, dc_in |-> 0] >> \o
  (IF Side = "client"
   THEN << [e |-> "AOpen", cfg |-> [mfs |-> 512]], [e |-> "PHeader", kind |-> "amqp"], [e |-> "PFrame", perf |-> "open", ch |-> 0, f |-> [mfs |-> 512, chmax |-> 10]],
           [e |-> "ABegin", s |-> "s1", cfg |-> [noi |-> 1000, iw |-> 100, ow |-> 100]],
           [e |-> "PFrame", perf |-> "begin", ch |-> 3, f |-> [rch |-> [ref |-> "s1"], noi |-> 7, iw |-> 5000, ow |-> 100]],
           [e |-> "AAttachS", l |-> "L1", s |-> "s1", cfg |-> [snd |-> 1, rcv |-> 0, idc |-> 1000]] >>
   ELSE << [e |-> "AAccept", cfg |-> [mfs |-> 512]], [e |-> "PHeader", kind |-> "amqp"], [e |-> "PFrame", perf |-> "open", ch |-> 0, f |-> [mfs |-> 512, chmax |-> 10]],
           [e |-> "AAcceptSession", s |-> "s1", cfg |-> [noi |-> 1000, iw |-> 100, ow |-> 100]],
           [e |-> "PFrame", perf |-> "begin", ch |-> 3, f |-> [rch |-> -1, noi |-> 7, iw |-> 5000, ow |-> 100]],
           [e |-> "AAcceptLink", l |-> "L1", s |-> "s1", cfg |-> [idc |-> 1000], nosettle |-> FALSE] >>)
  \o << [e |-> "PFrame", perf |-> "attach", ch |-> 3, f |-> [name |-> "L1", h |-> 5, role |-> "r", snd |-> 1, rcv |-> 0, mms |-> IF Mms > 0 THEN Mms ELSE -1]] >>
\* Pipelined (listener): the peer's attach and ten flows lowering the credit from 10 to 1 are all there before the application accepts the link;
\* the flow that counts is the last one
PrefixP == << [e |-> "Shifts", out |-> 0, inn |-> 0, dc_out |-> DcShift, dc_in |-> 0],
              [e |-> "AAccept", cfg |-> [mfs |-> 512]], [e |-> "PHeader", kind |-> "amqp"], [e |-> "PFrame", perf |-> "open", ch |-> 0, f |-> [mfs |-> 512, chmax |-> 10]],
              [e |-> "AAcceptSession", s |-> "s1", cfg |-> [noi |-> 1000, iw |-> 100, ow |-> 100]],
              [e |-> "PFrame", perf |-> "begin", ch |-> 3, f |-> [rch |-> -1, noi |-> 7, iw |-> 5000, ow |-> 100]],
              [e |-> "PFrame", perf |-> "attach", ch |-> 3, f |-> [name |-> "L1", h |-> 5, role |-> "r", snd |-> 1, rcv |-> 0, mms |-> IF Mms > 0 THEN Mms ELSE -1]] >>
           \o [i \in 1..10 |-> LFlow(-1, 11 - i, FALSE, FALSE)]
           \o << [e |-> "AAcceptLink", l |-> "L1", s |-> "s1", cfg |-> [idc |-> 1000]] >>
RECURSIVE Body(_, _, _)
Body(sc, i, ns) ==
  IF i > Len(sc) THEN <<>> ELSE
  LET e == sc[i] IN
  CASE e = "Send" -> <<[e |-> "ASend", l |-> "L1", m |-> ns + 1, len |-> 20]>> \o Body(sc, i + 1, ns + 1)
    [] e = "SendM" -> <<[e |-> "ASend", l |-> "L1", m |-> ns + 1, len |-> 1100]>> \o Body(sc, i + 1, ns + 1)
    [] e = "Grant0" -> <<LFlow([seen |-> 0], 0, FALSE, FALSE)>> \o Body(sc, i + 1, ns)
    [] e = "Grant1" -> <<LFlow([seen |-> 0], 1, FALSE, FALSE)>> \o Body(sc, i + 1, ns)
    [] e = "Grant2" -> <<LFlow([seen |-> 0], 2, FALSE, FALSE)>> \o Body(sc, i + 1, ns)
    [] e = "Grant1Lag" -> <<LFlow([seen |-> 1], 1, FALSE, FALSE)>> \o Body(sc, i + 1, ns)
    [] e = "Grant2Unset" -> <<LFlow(-1, 2, FALSE, FALSE)>> \o Body(sc, i + 1, ns)
    [] e = "Drain1" -> <<LFlow([seen |-> 0], 1, TRUE, FALSE)>> \o Body(sc, i + 1, ns)
    [] e = "Drain2" -> <<LFlow([seen |-> 0], 2, TRUE, FALSE)>> \o Body(sc, i + 1, ns)
    [] e = "Echo" -> <<LFlow([seen |-> 0], 1, FALSE, TRUE)>> \o Body(sc, i + 1, ns)
    [] e = "DetResume" -> <<[e |-> "ADetach", l |-> "L1", closed |-> FALSE, keep |-> TRUE],
                             [e |-> "PFrame", perf |-> "detach", ch |-> 3, needs_prev |-> TRUE, f |-> [h |-> 5, closed |-> FALSE, err |-> ""]],
                             [e |-> "AResume", l |-> "L1"],
                             [e |-> "PFrame", perf |-> "attach", ch |-> 3, needs_prev |-> TRUE, nosettle |-> TRUE, f |-> [name |-> "L1", h |-> 5, role |-> "r", snd |-> 1, rcv |-> 0, mms |-> IF Mms > 0 THEN Mms ELSE -1]],
                             LFlow([seen |-> 0], 1, FALSE, FALSE)>> \o Body(sc, i + 1, ns)
\* hook variant: the first send is parked at the schedule point, a grant is applied, then it is released
HookBody == << [e |-> "HookArm", name |-> "credit.after_failed_check"],
               [e |-> "ASend", l |-> "L1", m |-> 1, len |-> 20],
               LFlow([seen |-> 0], 1, FALSE, FALSE),
               [e |-> "HookRelease", name |-> "credit.after_failed_check"] >>
Suffix == << LFlow([seen |-> 0], 20, FALSE, FALSE), LFlow([seen |-> 0], 20, FALSE, FALSE) >>
Done == Len(script) = Depth
Emit == Done => PrintT(<<"SCRIPT", ToJson([side |-> Side, id |-> <<Side, DcShift, Hook, Mms, Pipelined>> \o script,
                           ev |-> (IF Pipelined THEN PrefixP ELSE Prefix) \o (IF Hook THEN HookBody ELSE <<>>) \o Body(script, 1, IF Hook THEN 1 ELSE 0) \o (IF Hook /\ Depth > 0 THEN <<>> ELSE Suffix)])>>)
=============================================================================
