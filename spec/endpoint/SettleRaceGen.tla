---------------------------- MODULE SettleRaceGen ----------------------------
(* Gen for the schedule TLC finds in SettleRace.tla (InsertFirst = FALSE): the sending task is
   parked at the schedule point `send.after_enqueue` (transfer handed to the session, delivery not
   yet recorded), the peer's settling disposition is processed, the task is released.  The send
   must still resolve, with the peer's outcome.  Variants: outcome, a range covering a later
   delivery, an unsettled terminal disposition first (rcv-settle-mode second), a second send
   issued after the release. *)
EXTENDS Integers, Sequences, TLC, Json
CONSTANTS RcvModes
VARIABLE z
Init == z = [k |-> "start"]
Variants == {"accepted", "rejected", "range", "unsettledFirst", "twoSends"}
Next == z.k = "start" /\ \E v \in Variants, r \in RcvModes : z' = [k |-> "case", v |-> v, r |-> r]
Spec == Init /\ [][Next]_z
Disp(a, b, settled, st) == [e |-> "PFrame", perf |-> "disposition", ch |-> 3, ech |-> 0,
                             f |-> [role |-> "r", first |-> [d |-> a], last |-> IF b = a THEN -1 ELSE [d |-> b], settled |-> settled, state |-> [k |-> st, cond |-> "", txn |-> <<>>]]]
Prefix(r) == <<
  [e |-> "AOpen", cfg |-> [mfs |-> 4096]], [e |-> "PHeader", kind |-> "amqp"],
  [e |-> "PFrame", perf |-> "open", ch |-> 0, f |-> [mfs |-> 4096, chmax |-> 10]],
  [e |-> "ABegin", s |-> "s1", cfg |-> [noi |-> 1000, iw |-> 100, ow |-> 100]],
  [e |-> "PFrame", perf |-> "begin", ch |-> 3, f |-> [rch |-> [ref |-> "s1"], noi |-> 0, iw |-> 5000, ow |-> 100]],
  [e |-> "AAttachS", l |-> "L1", s |-> "s1", cfg |-> [snd |-> 0, rcv |-> r, idc |-> 0]],
  [e |-> "PFrame", perf |-> "attach", ch |-> 3, f |-> [name |-> "L1", h |-> 5, role |-> "r", snd |-> 0, rcv |-> r]],
  [e |-> "PFrame", perf |-> "flow", ch |-> 3, ech |-> 0, f |-> [nii |-> [seen |-> 0], iw |-> 5000, noi |-> 0, ow |-> 100, h |-> 5, dc |-> 0, lc |-> 100]] >>
Send(m) == [e |-> "ASend", l |-> "L1", m |-> m, len |-> 20, batchable |-> TRUE]
Body(v) ==
  << [e |-> "HookArm", name |-> "send.after_enqueue"], Send(1) >>
  \o (CASE v = "accepted" -> <<Disp(0, 0, TRUE, "accepted")>>
        [] v = "rejected" -> <<Disp(0, 0, TRUE, "rejected")>>
        [] v = "range" -> <<Disp(0, 3, TRUE, "released")>>
        [] v = "unsettledFirst" -> <<Disp(0, 0, FALSE, "accepted"), Disp(0, 0, TRUE, "accepted")>>
        [] OTHER -> <<Disp(0, 0, TRUE, "modified")>>)
  \o << [e |-> "HookRelease", name |-> "send.after_enqueue"] >>
  \o (IF v = "twoSends" THEN <<Send(2), Disp(1, 1, TRUE, "accepted"), [e |-> "AAwaitOutcome", nth |-> 1]>> ELSE <<>>)
  \o << [e |-> "AAwaitOutcome", nth |-> 0] >>
Emit == z.k = "start" \/ PrintT(<<"SCRIPT", ToJson([side |-> "client", id |-> <<"hook", z.v, z.r>>, final_ms |-> 1000, ev |-> Prefix(z.r) \o Body(z.v)])>>)
=============================================================================
