SPECIFICATION Spec
CONSTANT ReasonFirst = TRUE
CONSTANT KeptAlive = FALSE
INVARIANT C14_ReasonVisible
PROPERTY C14_Completes
CHECK_DEADLOCK FALSE
