---------------------------- MODULE CancelGen ----------------------------
(* Gen for C16: pending recv and send futures are dropped at every point a script can reach.
   Part "recv": deliveries of one and two frames arrive around recv calls that are cancelled
   before anything arrived, between the frames of a delivery, or after it is complete; in the
   end enough recv calls are issued to take everything: the completed recvs must return exactly
   the deliveries sent, in order.
   Part "send": sends of one frame, of several link-level frames and of several transport frames
   on a link whose channels to the session and connection have capacity 1 and whose transport
   pipe is tiny, so that a send can be suspended at its internal awaits; sends are cancelled
   while waiting for credit, in mid-flight and while waiting for the outcome; later sends must
   arrive intact, in order, at most once, and must not be starved of credit. *)
EXTENDS Integers, Sequences, TLC, Json
CONSTANTS Part, Depth, AutoAccept, Pipe, Buf     \* Buf: capacity of the connection / session channels (1: sends suspend between frames; 256: they do not)

RecvEv == {"Recv", "Cancel", "T1", "T2a", "T2b"}
\* part "mix": a receiving link with Auto(2) credit next to a sending link that keeps the capacity-1 channel to the session busy
\* (a send of ten link-level frames running in the background), so that whatever recv has to send (credit flows) has to wait
MixEv == {"Recv", "RecvNow1", "RecvNow2", "T1", "BigNow", "Yield"}
SendEv == {"Send", "SendL", "SendM", "SendNow", "SendNowBig", "SendNow1", "SendNow2", "Cancel", "Yield", "Grant1", "Grant3", "Disp"}
\* part "park": a batchable send fills the capacity-1 channel to the session, the next send is polled once (it takes its credit, records the
\* delivery and waits for room in the channel) and is then frozen; while it is frozen the session engine processes a grant of the receiver
\* (ParkF) or a settlement of the oldest delivery still unsettled (ParkD); then the frozen send is dropped.  No generous grant follows: the
\* sends of the suffix live on the credit granted while the send was parked.
\* part "win": the peer's session window holds one frame, so that the transfers of a send wait in the session (all of them handed over, the send
\* waiting for its outcome) when the application drops it; then the peer reopens the window
WinEv == {"Send", "SendL", "Cancel", "WinOpen", "Win1", "Disp", "Yield"}
ParkEv == {"SB", "ParkF", "ParkD", "ParkM", "Disp", "Yield"}
Cnt(sc, S) == Len(SelectSeq(sc, LAMBDA e : e \in S))
VARIABLES script, half
Init == script = <<>> /\ half = FALSE
Next == /\ Len(script) < Depth
        /\ \E e \in (IF Part = "recv" THEN RecvEv ELSE IF Part = "mix" THEN MixEv ELSE IF Part = "park" THEN ParkEv ELSE IF Part = "win" THEN WinEv ELSE SendEv) :
             /\ (e = "T2b" => half) /\ (e \in {"T1", "T2a"} => ~half)
             /\ (Part = "park" /\ e \in {"Disp", "ParkD"} => Cnt(script, {"Disp", "ParkD"}) < Cnt(script, {"SB", "ParkF", "ParkD", "ParkM"}))
             /\ script' = Append(script, e) /\ half' = (IF e = "T2a" THEN TRUE ELSE IF e = "T2b" THEN FALSE ELSE half)
Spec == Init /\ [][Next]_<<script, half>>

Open == << [e |-> "AOpen", cfg |-> [mfs |-> 512, buf |-> Buf, pipe |-> Pipe]], [e |-> "PHeader", kind |-> "amqp"],
           [e |-> "PFrame", perf |-> "open", ch |-> 0, f |-> [mfs |-> 512, chmax |-> 10]],
           [e |-> "ABegin", s |-> "s1", cfg |-> [noi |-> 1000, iw |-> 1000, ow |-> 100, buf |-> Buf]],
           [e |-> "PFrame", perf |-> "begin", ch |-> 3, f |-> [rch |-> [ref |-> "s1"], noi |-> 0, iw |-> 1000, ow |-> 100]] >>
RecvPrefix == Open \o << [e |-> "AAttachR", l |-> "L2", s |-> "s1", cfg |-> [snd |-> 2, rcv |-> 0, credit |-> 20, auto_accept |-> AutoAccept]],
                         [e |-> "PFrame", perf |-> "attach", ch |-> 3, f |-> [name |-> "L2", h |-> 6, role |-> "s", snd |-> 2, rcv |-> 0, idc |-> 0]] >>
SendPrefix == Open \o << [e |-> "AAttachS", l |-> "L1", s |-> "s1", cfg |-> [snd |-> 2, rcv |-> 0, idc |-> 0]],
                         [e |-> "PFrame", perf |-> "attach", ch |-> 3, f |-> [name |-> "L1", h |-> 5, role |-> "r", snd |-> 2, rcv |-> 0, mms |-> 150]] >>
X(k, first, more, m, len, off, n) == [e |-> "PFrame", perf |-> "transfer", ch |-> 3,
   f |-> [h |-> 6, did |-> IF first THEN k ELSE -1, tagn |-> IF first THEN 1 ELSE -1, tag |-> <<k % 250>>, fmt |-> IF first THEN 0 ELSE -1, settled |-> IF first THEN "t" ELSE "none", more |-> more, aborted |-> FALSE],
   msg |-> [m |-> m, len |-> len, off |-> off, n |-> n, shape |-> "full"]]
MixPrefix == Open \o << [e |-> "AAttachS", l |-> "L1", s |-> "s1", cfg |-> [snd |-> 1, rcv |-> 0, idc |-> 0]],
                        [e |-> "PFrame", perf |-> "attach", ch |-> 3, f |-> [name |-> "L1", h |-> 5, role |-> "r", snd |-> 1, rcv |-> 0, mms |-> 150]],
                        [e |-> "PFrame", perf |-> "flow", ch |-> 3, ech |-> 0, f |-> [nii |-> [seen |-> 0], iw |-> 1000, noi |-> 0, ow |-> 100, h |-> 5, dc |-> 0, lc |-> 50]],
                        [e |-> "AAttachR", l |-> "L2", s |-> "s1", cfg |-> [snd |-> 2, rcv |-> 0, credit |-> 2, auto_accept |-> FALSE]],
                        [e |-> "PFrame", perf |-> "attach", ch |-> 3, f |-> [name |-> "L2", h |-> 6, role |-> "s", snd |-> 2, rcv |-> 0, idc |-> 0]] >>
RECURSIVE MBody(_, _, _, _)
MBody(sc, i, k, m) == IF i > Len(sc) THEN <<>> ELSE LET e == sc[i] IN
  CASE e = "Recv" -> <<[e |-> "ARecv", l |-> "L2"]>> \o MBody(sc, i + 1, k, m)
    [] e = "RecvNow1" -> <<[e |-> "ARecv", l |-> "L2", nosettle |-> TRUE], [e |-> "Yield", n |-> 1, nosettle |-> TRUE], [e |-> "ACancel", l |-> "L2"]>> \o MBody(sc, i + 1, k, m)
    [] e = "RecvNow2" -> <<[e |-> "ARecv", l |-> "L2", nosettle |-> TRUE], [e |-> "Yield", n |-> 2, nosettle |-> TRUE], [e |-> "ACancel", l |-> "L2"]>> \o MBody(sc, i + 1, k, m)
    [] e = "T1" -> <<X(k, TRUE, FALSE, 500 + k, 30, 0, -1)>> \o MBody(sc, i + 1, k + 1, m)
    \* the send runs until every stage of the way out is occupied (nothing is read off the 200-byte transport pipe meanwhile)
    [] e = "BigNow" -> <<[e |-> "ASend", l |-> "L1", m |-> m, len |-> 1400, nosettle |-> TRUE], [e |-> "Yield", n |-> 3, nosettle |-> TRUE]>> \o MBody(sc, i + 1, k, m + 1)
    [] OTHER -> <<[e |-> "Yield", n |-> 5]>> \o MBody(sc, i + 1, k, m)
MSuffix == [i \in 1..(Depth + 1) |-> [e |-> "ARecv", l |-> "L2"]]
RECURSIVE RBody(_, _, _)
RBody(sc, i, k) == IF i > Len(sc) THEN <<>> ELSE LET e == sc[i] IN
  CASE e = "Recv" -> <<[e |-> "ARecv", l |-> "L2"]>> \o RBody(sc, i + 1, k)
    [] e = "Cancel" -> <<[e |-> "ACancel", l |-> "L2"]>> \o RBody(sc, i + 1, k)
    [] e = "T1" -> <<X(k, TRUE, FALSE, 500 + k, 30, 0, -1)>> \o RBody(sc, i + 1, k + 1)
    [] e = "T2a" -> <<X(k, TRUE, TRUE, 500 + k, 200, 0, 60)>> \o RBody(sc, i + 1, k)
    [] OTHER -> <<X(k, FALSE, FALSE, 500 + k, 200, 60, -1)>> \o RBody(sc, i + 1, k + 1)
Started == Len(SelectSeq(script, LAMBDA e : e \in {"T1", "T2b"}))        \* deliveries completed so far = index of the one in progress
RSuffix == (IF half THEN <<X(Started, FALSE, FALSE, 500 + Started, 200, 60, -1)>> ELSE <<>>) \o [i \in 1..(Depth + 1) |-> [e |-> "ARecv", l |-> "L2"]]
Grant(n) == [e |-> "PFrame", perf |-> "flow", ch |-> 3, ech |-> 0, nosettle |-> FALSE, f |-> [nii |-> [seen |-> 0], iw |-> 1000, noi |-> 0, ow |-> 100, h |-> 5, dc |-> [seen |-> 0], lc |-> n]]
RECURSIVE SBody(_, _, _, _)
SBody(sc, i, m, d) == IF i > Len(sc) THEN <<>> ELSE LET e == sc[i] IN
  CASE e = "Send" -> <<[e |-> "ASend", l |-> "L1", m |-> m, len |-> 20]>> \o SBody(sc, i + 1, m + 1, d)
    [] e = "SendL" -> <<[e |-> "ASend", l |-> "L1", m |-> m, len |-> 400]>> \o SBody(sc, i + 1, m + 1, d)
    [] e = "SendM" -> <<[e |-> "ASend", l |-> "L1", m |-> m, len |-> 1400]>> \o SBody(sc, i + 1, m + 1, d)
    [] e = "SendNow" -> <<[e |-> "ASend", l |-> "L1", m |-> m, len |-> 400, nosettle |-> TRUE], [e |-> "Yield", n |-> 30, nosettle |-> TRUE], [e |-> "ACancel", l |-> "L1"]>> \o SBody(sc, i + 1, m + 1, d)
    [] e = "SendNowBig" -> <<[e |-> "ASend", l |-> "L1", m |-> m, len |-> 1400, nosettle |-> TRUE], [e |-> "Yield", n |-> 30, nosettle |-> TRUE], [e |-> "ACancel", l |-> "L1"]>> \o SBody(sc, i + 1, m + 1, d)
    \* a send of three link-level frames dropped after one / two scheduler turns
    [] e = "SendNow1" -> <<[e |-> "ASend", l |-> "L1", m |-> m, len |-> 400, nosettle |-> TRUE], [e |-> "Yield", n |-> 1, nosettle |-> TRUE], [e |-> "ACancel", l |-> "L1"]>> \o SBody(sc, i + 1, m + 1, d)
    [] e = "SendNow2" -> <<[e |-> "ASend", l |-> "L1", m |-> m, len |-> 400, nosettle |-> TRUE], [e |-> "Yield", n |-> 2, nosettle |-> TRUE], [e |-> "ACancel", l |-> "L1"]>> \o SBody(sc, i + 1, m + 1, d)
    [] e = "Cancel" -> <<[e |-> "ACancel", l |-> "L1"]>> \o SBody(sc, i + 1, m, d)
    [] e = "Yield" -> <<[e |-> "Yield", n |-> 5]>> \o SBody(sc, i + 1, m, d)
    [] e = "Grant1" -> <<Grant(1)>> \o SBody(sc, i + 1, m, d)
    [] e = "Grant3" -> <<Grant(3)>> \o SBody(sc, i + 1, m, d)
    [] OTHER -> <<[e |-> "PFrame", perf |-> "disposition", ch |-> 3, ech |-> 0, f |-> [role |-> "r", first |-> [d |-> d], last |-> -1, settled |-> TRUE, state |-> [k |-> "accepted", cond |-> "", txn |-> <<>>]]]>> \o SBody(sc, i + 1, m, d + 1)
DispOne(d, ns) == [e |-> "PFrame", perf |-> "disposition", ch |-> 3, ech |-> 0, nosettle |-> ns,
                    f |-> [role |-> "r", first |-> [d |-> d], last |-> -1, settled |-> TRUE, state |-> [k |-> "accepted", cond |-> "", txn |-> <<>>]]]
Park(m) == [e |-> "ASendPark", l |-> "L1", m1 |-> m, len1 |-> 20, m |-> m + 1, len |-> 20, polls |-> 1, nosettle |-> TRUE]
RECURSIVE PBody(_, _, _, _)
PBody(sc, i, m, d) == IF i > Len(sc) THEN <<>> ELSE LET e == sc[i] IN
  CASE e = "SB" -> <<[e |-> "ASend", l |-> "L1", m |-> m, len |-> 20, batchable |-> TRUE]>> \o PBody(sc, i + 1, m + 1, d)
    [] e = "ParkF" -> <<Park(m), [Grant(4) EXCEPT !.nosettle = TRUE], [e |-> "Yield", n |-> 12, nosettle |-> TRUE], [e |-> "ACancel", l |-> "L1"]>> \o PBody(sc, i + 1, m + 2, d)
    [] e = "ParkD" -> <<Park(m), DispOne(d, TRUE), [e |-> "Yield", n |-> 12, nosettle |-> TRUE], [e |-> "ACancel", l |-> "L1"]>> \o PBody(sc, i + 1, m + 2, d + 1)
    \* a send of three link-level frames dropped between two of them: its delivery has started, its credit is spent
    \* (polled once: the first frame is handed over, the second finds the capacity-1 channel full; the future is then left alone and dropped)
    [] e = "ParkM" -> <<[e |-> "ASend", l |-> "L1", m |-> m, len |-> 400, polls |-> 1, nosettle |-> TRUE], [e |-> "Yield", n |-> 6, nosettle |-> TRUE], [e |-> "ACancel", l |-> "L1"]>> \o PBody(sc, i + 1, m + 1, d)
    [] e = "Disp" -> <<DispOne(d, FALSE)>> \o PBody(sc, i + 1, m, d + 1)
    [] OTHER -> <<[e |-> "Yield", n |-> 5]>> \o PBody(sc, i + 1, m, d)
PSuffix == << [e |-> "ASend", l |-> "L1", m |-> 90, len |-> 20, batchable |-> TRUE], [e |-> "ASend", l |-> "L1", m |-> 91, len |-> 400, batchable |-> TRUE],
              [e |-> "PFrame", perf |-> "disposition", ch |-> 3, ech |-> 0, f |-> [role |-> "r", first |-> [d |-> 0], last |-> [d |-> "last"], settled |-> TRUE, state |-> [k |-> "accepted", cond |-> "", txn |-> <<>>]]] >>
           \o [i \in 1..(Depth + 2) |-> [e |-> "AAwaitOutcome", nth |-> i - 1]]
WinFlow(w) == [e |-> "PFrame", perf |-> "flow", ch |-> 3, ech |-> 0, f |-> [nii |-> [seen |-> 0], iw |-> w, noi |-> 0, ow |-> 100]]
WinPrefix == << [e |-> "AOpen", cfg |-> [mfs |-> 512, buf |-> Buf, pipe |-> Pipe]], [e |-> "PHeader", kind |-> "amqp"],
                [e |-> "PFrame", perf |-> "open", ch |-> 0, f |-> [mfs |-> 512, chmax |-> 10]],
                [e |-> "ABegin", s |-> "s1", cfg |-> [noi |-> 1000, iw |-> 1000, ow |-> 100, buf |-> Buf]],
                [e |-> "PFrame", perf |-> "begin", ch |-> 3, f |-> [rch |-> [ref |-> "s1"], noi |-> 0, iw |-> 1, ow |-> 100]],
                [e |-> "AAttachS", l |-> "L1", s |-> "s1", cfg |-> [snd |-> 2, rcv |-> 0, idc |-> 0]],
                [e |-> "PFrame", perf |-> "attach", ch |-> 3, f |-> [name |-> "L1", h |-> 5, role |-> "r", snd |-> 2, rcv |-> 0, mms |-> 150]],
                [e |-> "PFrame", perf |-> "flow", ch |-> 3, ech |-> 0, f |-> [nii |-> [seen |-> 0], iw |-> 1, noi |-> 0, ow |-> 100, h |-> 5, dc |-> 0, lc |-> 50]],
                \* one delivery uses the window up and is settled
                [e |-> "ASend", l |-> "L1", m |-> 1, len |-> 20], DispOne(0, FALSE) >>
RECURSIVE WBody(_, _, _, _)
WBody(sc, i, m, d) == IF i > Len(sc) THEN <<>> ELSE LET e == sc[i] IN
  CASE e = "Send" -> <<[e |-> "ASend", l |-> "L1", m |-> m, len |-> 20]>> \o WBody(sc, i + 1, m + 1, d)
    [] e = "SendL" -> <<[e |-> "ASend", l |-> "L1", m |-> m, len |-> 400]>> \o WBody(sc, i + 1, m + 1, d)
    [] e = "Cancel" -> <<[e |-> "ACancel", l |-> "L1"]>> \o WBody(sc, i + 1, m, d)
    [] e = "WinOpen" -> <<WinFlow(20)>> \o WBody(sc, i + 1, m, d)
    [] e = "Win1" -> <<WinFlow(1)>> \o WBody(sc, i + 1, m, d)
    [] e = "Disp" -> <<DispOne(d, FALSE)>> \o WBody(sc, i + 1, m, d + 1)
    [] OTHER -> <<[e |-> "Yield", n |-> 5]>> \o WBody(sc, i + 1, m, d)
WSuffix == << [e |-> "ACancel", l |-> "L1"], WinFlow(50), [e |-> "ASend", l |-> "L1", m |-> 90, len |-> 400, settled |-> TRUE], [e |-> "ASend", l |-> "L1", m |-> 91, len |-> 20, settled |-> TRUE] >>
SSuffix == << [e |-> "ACancel", l |-> "L1"], Grant(20), [e |-> "ASend", l |-> "L1", m |-> 90, len |-> 400, settled |-> TRUE], [e |-> "ASend", l |-> "L1", m |-> 91, len |-> 20, settled |-> TRUE] >>
Done == Len(script) = Depth
Emit == Done => PrintT(<<"SCRIPT", ToJson([side |-> "client", id |-> <<Part, AutoAccept, Pipe, Buf>> \o script, final_ms |-> 5000,
                           ev |-> IF Part = "recv" THEN RecvPrefix \o RBody(script, 1, 0) \o RSuffix
                                  ELSE IF Part = "mix" THEN MixPrefix \o MBody(script, 1, 0, 1) \o MSuffix
                                  ELSE IF Part = "park" THEN SendPrefix \o <<Grant(3)>> \o PBody(script, 1, 1, 0) \o PSuffix
                                  ELSE IF Part = "win" THEN WinPrefix \o WBody(script, 1, 2, 1) \o WSuffix ELSE SendPrefix \o SBody(script, 1, 1, 0) \o SSuffix])>>)
=============================================================================
