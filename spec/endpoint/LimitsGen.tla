---------------------------- MODULE LimitsGen ----------------------------
(* Gen for C17.  Part "chan": for every pair of local / remote channel-max in ChMaxes the
   application begins sessions until two beyond the agreed limit, ends one, and begins again.
   Part "idle": for the configured idle time-outs every sequence up to Depth of clock advances
   (just below / at / above the time-outs), empty frames from the peer and traffic from the
   endpoint.  An on_close call is pending throughout so that a time-out is reported to it. *)
EXTENDS Integers, Sequences, TLC, Json
CONSTANTS Part, Depth, ChMaxes, LocalIdle, RemoteIdle

SN(n) == CASE n = 1 -> "s1" [] n = 2 -> "s2" [] n = 3 -> "s3" [] n = 4 -> "s4" [] n = 5 -> "s5" [] n = 6 -> "s6" [] n = 7 -> "s7" [] n = 8 -> "s8" [] n = 9 -> "s9" [] n = 10 -> "s10" [] n = 11 -> "s11" [] OTHER -> "s12"
\* AdvS: a short advance, so that two frames of the peer arrive closer together than any fraction of the time-out an implementation might coalesce
Steps == {"AdvA", "AdvB", "AdvC", "AdvD", "AdvS", "PEmpty", "Begin"}
VARIABLES z
Init == z = [k |-> "start"]
Next == /\ z.k = "start"
        /\ IF Part = "chan" THEN \E a \in ChMaxes, b \in ChMaxes : z' = [k |-> "chan", l |-> a, r |-> b]
           ELSE IF Part = "idleclose" THEN \E sq \in [1..Depth -> {"AdvA", "AdvC", "AdvD", "PEmpty"}] : z' = [k |-> "idleclose", sq |-> sq]
           ELSE IF Part = "idlelate" THEN \E sq \in [1..Depth -> {"AdvA", "AdvB", "PEmpty", "Begin"}] : z' = [k |-> "idlelate", sq |-> sq]
           ELSE \E sq \in [1..Depth -> Steps] : z' = [k |-> "idle", sq |-> sq]
Spec == Init /\ [][Next]_z

Open(lmax, rmax, lidle, ridle) == <<
  [e |-> "AOpen", cfg |-> [mfs |-> 4096, chmax |-> lmax, idle |-> lidle]], [e |-> "PHeader", kind |-> "amqp"],
  [e |-> "PFrame", perf |-> "open", ch |-> 0, f |-> [mfs |-> 4096, chmax |-> rmax, idle |-> IF ridle = 0 THEN -1 ELSE ridle]] >>
Beg(n) == << [e |-> "ABegin", s |-> SN(n), cfg |-> [noi |-> 1000]],
             [e |-> "PFrame", perf |-> "begin", ch |-> 10 + n, f |-> [rch |-> [ref |-> SN(n)], noi |-> 0, iw |-> 10, ow |-> 10]] >>
Min(a, b) == IF a < b THEN a ELSE b
RECURSIVE Begs(_, _)
Begs(from, to) == IF from > to THEN <<>> ELSE Beg(from) \o Begs(from + 1, to)
\* (with limits far above what a script can open only "not refused early" is exercised: 11 begins)
Chan(l, r) == LET n == Min(Min(l, r), 8) + 3 IN
  Open(l, r, 0, 0) \o Begs(1, n) \o << [e |-> "AEnd", s |-> SN(1)], [e |-> "PFrame", perf |-> "end", ch |-> 11, f |-> [err |-> ""]] >> \o Begs(n + 1, n + 2)
\* time-outs of 200 ms: advances just below, at, above, and far above
Adv(ms) == [e |-> "Advance", ms |-> ms, step |-> 10]
Conc(st, i) == CASE st = "AdvA" -> <<Adv(150)>> [] st = "AdvB" -> <<Adv(190)>> [] st = "AdvC" -> <<Adv(230)>> [] st = "AdvD" -> <<Adv(650)>> [] st = "AdvS" -> <<Adv(30)>>
                 [] st = "PEmpty" -> <<[e |-> "PEmpty", ch |-> 0]>> [] OTHER -> Beg(i)
RECURSIVE Body(_, _)
Body(sq, i) == IF i > Len(sq) THEN <<>> ELSE Conc(sq[i], i) \o Body(sq, i + 1)
Idle(sq) == Open(10, 10, LocalIdle, RemoteIdle) \o <<[e |-> "AOnClose"]>> \o Body(sq, 1) \o <<Adv(50)>>
\* the peer answers the open late (120 ms): the time-out it advertises counts from the endpoint's own last frame, its open
IdleLate(sq) == << [e |-> "AOpen", cfg |-> [mfs |-> 4096, chmax |-> 10, idle |-> LocalIdle]], [e |-> "PHeader", kind |-> "amqp"], Adv(120),
                   [e |-> "PFrame", perf |-> "open", ch |-> 0, f |-> [mfs |-> 4096, chmax |-> 10, idle |-> RemoteIdle]], [e |-> "AOnClose"] >> \o Body(sq, 1) \o <<Adv(250)>>
\* the application closes and the peer lets several of its idle periods pass before it answers: nothing more is sent, heartbeats included
IdleClose(sq) == Open(10, 10, LocalIdle, RemoteIdle) \o <<[e |-> "AClose", err |-> ""]>> \o Body(sq, 1) \o <<[e |-> "PFrame", perf |-> "close", ch |-> 0, f |-> [err |-> ""]]>>
Emit == z.k = "start" \/ PrintT(<<"SCRIPT", ToJson([side |-> "client", id |-> z, final_ms |-> 1000,
                                                     ev |-> IF z.k = "chan" THEN Chan(z.l, z.r) ELSE IF z.k = "idleclose" THEN IdleClose(z.sq) ELSE IF z.k = "idlelate" THEN IdleLate(z.sq) ELSE Idle(z.sq)])>>)
=============================================================================
