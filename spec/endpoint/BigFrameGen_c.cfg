SPECIFICATION Spec
CONSTANT Side = "client"
INVARIANT Emit
CHECK_DEADLOCK FALSE
