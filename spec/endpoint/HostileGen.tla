---------------------------- MODULE HostileGen ----------------------------
(* Gen for C15: one hostile event from the catalogue, injected in each endpoint state of a
   reference conversation (after open, after begin, after sender attach + credit, after receiver
   attach, in the middle of a multi-frame incoming delivery, after the local close), on the client
   and on the listener side, followed by a probe: an ordinary send and a clean close handshake.
   The oracle (the C15 clauses of Endpoint.tla) demands: no panic, quiescence, bounded CPU and allocation per
   step, and that every call the probe issues returns. *)
EXTENDS Integers, Sequences, TLC, Json
CONSTANTS Side

States == {"open", "begun", "sender", "receiver", "midxfer", "closing"}
Raw == {"size0", "size3", "size4", "size7", "sizeHuge", "sizeOverMax", "sizeShort", "sizeLong", "doff0", "doff1", "doff3", "doff255", "type2", "type255",
        "garbage", "nest1300", "saslBody", "truncPerf"}
Proto == {"xferUnattached", "xferBeyondCredit", "xferBeyondWindow", "dispHuge", "dispReversed", "dispUnknown", "flowUnattached", "dupAttach", "attachHandleInUse",
          "frameUnmappedCh", "beginAgain", "dupAttachAccepted", "endUnmapped", "openAgain", "xferToSender", "detachUnattached", "flowBadRole",
          \* channel numbers above the channel-max both opens agreed on (10): a session the peer starts there, and the answer to a begin of the endpoint
          "beginChHigh", "beginChMax", "beginReplyChHigh"}
VARIABLE z
Init == z = [k |-> "start"]
\* hostile open performatives (limits below what the protocol allows) take the place of the peer's open
OpenVar == {"openMfs0", "openMfs3", "openMfs4", "openMfs6", "openMfs7", "openMfs8", "openMfs100", "openMfs511", "openChmax0", "openIdle1"}
\* floods: hundreds of legal frames written back to back (echo requests, dispositions for unknown deliveries, session flows, empty frames) against
\* an endpoint whose internal channels hold a single frame ("tight": buffer_size 1 on connection and session): it must keep answering and stay usable
ResumeVar == {"unsOffHuge", "unsSecHuge", "unsOffEnd", "unsGhosts", "unsManyGhosts", "unsAccepted", "unsNull", "unsDeclared", "unsIncomplete", "unsReceivedOk"}
ResumeVarR == {"rUnsGhosts", "rUnsManyGhosts", "rUnsAccepted", "rUnsNull", "rUnsDeclared", "rUnsIncomplete", "rResumeUnknown", "rResumeAbort", "rResumeKnown"}
Floods == {"floodEcho", "floodEchoDisp", "floodEchoDisp1", "floodEchoDisp2", "floodSessFlow"}
Next == z.k = "start" /\ \/ \E st \in States, h \in Raw \cup Proto : z' = [k |-> "case", st |-> st, h |-> h]
                         \* (which task the runtime picks when several are ready is random: every flood is run a few times)
                         \/ \E h \in Floods, n \in 1..3 : z' = [k |-> "case", st |-> "tight", h |-> h, n |-> n]
                         \/ \E h \in OpenVar \cup Raw : z' = [k |-> "case", st |-> "header", h |-> h]
                         \* a sending link with an unsettled delivery has been detached without closing and is being resumed: the peer's attach carries an
                         \* unsettled map of its own making (positions beyond the message, unknown tags, many of them, states no receiver can be in)
                         \/ (Side = "client" /\ \E h \in ResumeVar : z' = [k |-> "case", st |-> "resuming", h |-> h])
                         \* the same for a receiving link that holds a delivery it has accepted but (rcv-settle-mode second) not yet seen settled: the sender's
                         \* attach carries the hostile map, or the sender "resumes" deliveries with transfers nobody asked for
                         \/ (Side = "client" /\ \E h \in ResumeVarR : z' = [k |-> "case", st |-> "resumingR", h |-> h])
Spec == Init /\ [][Next]_z

PF(perf, ch, f) == [e |-> "PFrame", perf |-> perf, ch |-> ch, f |-> f]
Flow0 == [nii |-> [seen |-> 0], iw |-> 100, noi |-> 0, ow |-> 100]
XferF(h, did) == [h |-> h, did |-> did, tagn |-> 1, tag |-> <<did % 250>>, fmt |-> 0, settled |-> "t", more |-> FALSE]
Msg(m) == [m |-> m, len |-> 20, shape |-> "data"]
Tight == z.k = "case" /\ z.st = "tight"
ClientOpen == << [e |-> "AOpen", cfg |-> IF Tight THEN [mfs |-> 4096, buf |-> 1] ELSE [mfs |-> 4096]], [e |-> "PHeader", kind |-> "amqp"], PF("open", 0, [mfs |-> 4096, chmax |-> 10]) >>
ListenerOpen == << [e |-> "AAccept", cfg |-> IF Tight THEN [mfs |-> 4096, buf |-> 1] ELSE [mfs |-> 4096]], [e |-> "PHeader", kind |-> "amqp"], PF("open", 0, [mfs |-> 4096, chmax |-> 10]) >>
Begin == IF Tight THEN (IF Side = "client" THEN << [e |-> "ABegin", s |-> "s1", cfg |-> [noi |-> 1000, iw |-> 3, ow |-> 100, buf |-> 1]], PF("begin", 3, [rch |-> [ref |-> "s1"], noi |-> 0, iw |-> 100, ow |-> 100]) >>
                       ELSE << [e |-> "AAcceptSession", s |-> "s1", cfg |-> [noi |-> 1000, iw |-> 3, ow |-> 100, buf |-> 1]], PF("begin", 3, [rch |-> -1, noi |-> 0, iw |-> 100, ow |-> 100]) >>) ELSE
         IF Side = "client" THEN << [e |-> "ABegin", s |-> "s1", cfg |-> [noi |-> 1000, iw |-> 3, ow |-> 100]], PF("begin", 3, [rch |-> [ref |-> "s1"], noi |-> 0, iw |-> 100, ow |-> 100]) >>
         ELSE << [e |-> "AAcceptSession", s |-> "s1", cfg |-> [noi |-> 1000, iw |-> 3, ow |-> 100]], PF("begin", 3, [rch |-> -1, noi |-> 0, iw |-> 100, ow |-> 100]) >>
Sender == IF Side = "client"
          THEN << [e |-> "AAttachS", l |-> "L1", s |-> "s1", cfg |-> [snd |-> 1, rcv |-> 0, idc |-> 0]], PF("attach", 3, [name |-> "L1", h |-> 5, role |-> "r", snd |-> 1, rcv |-> 0]),
                  [e |-> "PFrame", perf |-> "flow", ch |-> 3, ech |-> 0, f |-> [nii |-> [seen |-> 0], iw |-> 100, noi |-> 0, ow |-> 100, h |-> 5, dc |-> 0, lc |-> 50]] >>
          ELSE << [e |-> "AAcceptLink", l |-> "L1", s |-> "s1", cfg |-> [credit |-> 5]], PF("attach", 3, [name |-> "L1", h |-> 5, role |-> "r", snd |-> 1, rcv |-> 0]),
                  [e |-> "PFrame", perf |-> "flow", ch |-> 3, ech |-> 0, f |-> [nii |-> [seen |-> 0], iw |-> 100, noi |-> 0, ow |-> 100, h |-> 5, dc |-> 0, lc |-> 50]] >>
Receiver == IF Side = "client"
            THEN << [e |-> "AAttachR", l |-> "L2", s |-> "s1", cfg |-> [snd |-> 1, rcv |-> 0, credit |-> 2, auto_accept |-> TRUE]], PF("attach", 3, [name |-> "L2", h |-> 6, role |-> "s", snd |-> 1, rcv |-> 0, idc |-> 0]) >>
            ELSE << [e |-> "AAcceptLink", l |-> "L2", s |-> "s1", cfg |-> [credit |-> 2]], PF("attach", 3, [name |-> "L2", h |-> 6, role |-> "s", snd |-> 1, rcv |-> 0, idc |-> 0]) >>
MidXfer == << [e |-> "PFrame", perf |-> "transfer", ch |-> 3, f |-> [h |-> 6, did |-> 0, tagn |-> 1, tag |-> <<0>>, fmt |-> 0, settled |-> "t", more |-> TRUE], msg |-> [m |-> 50, len |-> 100, off |-> 0, n |-> 30, shape |-> "data"]] >>
\* a second sending link (unsettled deliveries), one delivery of 60 bytes nobody has settled, detached without closing, resume under way
Resuming == << [e |-> "AAttachS", l |-> "L4", s |-> "s1", cfg |-> [snd |-> 0, rcv |-> 0, idc |-> 0]], PF("attach", 3, [name |-> "L4", h |-> 8, role |-> "r", snd |-> 0, rcv |-> 0]),
               [e |-> "PFrame", perf |-> "flow", ch |-> 3, ech |-> 0, f |-> [nii |-> [seen |-> 0], iw |-> 100, noi |-> 0, ow |-> 100, h |-> 8, dc |-> 0, lc |-> 50]],
               [e |-> "ASend", l |-> "L4", m |-> 7, len |-> 60, batchable |-> TRUE],
               [e |-> "ADetach", l |-> "L4", closed |-> FALSE, keep |-> TRUE], PF("detach", 3, [h |-> 8, closed |-> FALSE, err |-> ""]),
               [e |-> "AResume", l |-> "L4"] >>
ResumingR == << [e |-> "AAttachR", l |-> "L6", s |-> "s1", cfg |-> [snd |-> 0, rcv |-> 1, credit |-> 5, auto_accept |-> FALSE]], PF("attach", 3, [name |-> "L6", h |-> 9, role |-> "s", snd |-> 0, rcv |-> 1, idc |-> 0]),
                [e |-> "PFrame", perf |-> "transfer", ch |-> 3, f |-> [h |-> 9, did |-> 0, tagn |-> 1, tag |-> <<0>>, fmt |-> 0, settled |-> "f", more |-> FALSE], msg |-> [m |-> 60, len |-> 40, shape |-> "data"]],
                [e |-> "ARecv", l |-> "L6"], [e |-> "ADispose", l |-> "L6", state |-> "accept"],
                [e |-> "ADetach", l |-> "L6", closed |-> FALSE, keep |-> TRUE], PF("detach", 3, [h |-> 9, closed |-> FALSE, err |-> ""]),
                [e |-> "AResume", l |-> "L6"] >>
UnsAttachR(uns, inc) == PF("attach", 3, [name |-> "L6", h |-> 9, role |-> "s", snd |-> 0, rcv |-> 1, idc |-> 1, uns |-> uns, incomplete |-> inc])
ResumeXfer(tag, aborted, len) == [e |-> "PFrame", perf |-> "transfer", ch |-> 3, f |-> [h |-> 9, did |-> 5, tagn |-> 1, tag |-> tag, fmt |-> 0, settled |-> "f", more |-> FALSE, resume |-> TRUE, aborted |-> aborted],
                                    msg |-> [m |-> 60, len |-> 40, off |-> 0, n |-> len, shape |-> "data"]]
UnsAttach(uns, inc) == PF("attach", 3, [name |-> "L4", h |-> 8, role |-> "r", snd |-> 0, rcv |-> 0, uns |-> uns, incomplete |-> inc])
RcvSt(sn, so) == [k |-> "received", cond |-> "", txn |-> <<>>, sn |-> sn, so |-> so]
St(k) == [k |-> k, cond |-> "", txn |-> <<>>, sn |-> 0, so |-> 0]
Prefix(st) == IF st = "header" THEN SubSeq(IF Side = "client" THEN ClientOpen ELSE ListenerOpen, 1, 2) ELSE
              (IF Side = "client" THEN ClientOpen ELSE ListenerOpen)
              \o (IF st = "open" THEN <<>> ELSE Begin)
              \o (IF st \in {"sender", "receiver", "midxfer", "closing", "tight", "resuming", "resumingR"} THEN Sender ELSE <<>>)
              \o (IF st \in {"receiver", "midxfer", "closing"} THEN Receiver ELSE <<>>)
              \o (IF st = "midxfer" THEN MidXfer ELSE <<>>)
              \o (IF st = "resuming" THEN Resuming ELSE <<>>)
              \o (IF st = "resumingR" THEN ResumingR ELSE <<>>)
              \o (IF st = "closing" THEN <<[e |-> "AClose", err |-> ""]>> ELSE <<>>)
HdrOv(perf, ch, f, hdr) == [e |-> "PFrame", perf |-> perf, ch |-> ch, f |-> f, hdr |-> hdr]
FlowS == [nii |-> 1000, iw |-> 100, noi |-> 0, ow |-> 100]
EchoFlow == [e |-> "PFrame", perf |-> "flow", ch |-> 3, ech |-> 0, nosettle |-> TRUE, f |-> [nii |-> [seen |-> 0], iw |-> 100, noi |-> 0, ow |-> 100, h |-> 5, dc |-> [seen |-> 0], lc |-> 50, echo |-> TRUE]]
SessEcho == [e |-> "PFrame", perf |-> "flow", ch |-> 3, ech |-> 0, nosettle |-> TRUE, f |-> [nii |-> [seen |-> 0], iw |-> 100, noi |-> 0, ow |-> 100, echo |-> TRUE]]
DispUnk == [e |-> "PFrame", perf |-> "disposition", ch |-> 3, nosettle |-> TRUE, f |-> [role |-> "r", first |-> 5000, last |-> 5003, settled |-> FALSE, state |-> [k |-> "released", cond |-> "", txn |-> <<>>]]]
RECURSIVE Rep(_, _)
Rep(n, seq) == IF n = 0 THEN <<>> ELSE seq \o Rep(n - 1, seq)
Hostile(h) ==
  CASE h = "floodEcho" -> Rep(400, <<EchoFlow>>)
    [] h = "floodEchoDisp" -> Rep(1200, <<EchoFlow, EchoFlow, EchoFlow, DispUnk>>)
    [] h = "floodEchoDisp1" -> Rep(1200, <<EchoFlow, DispUnk>>)
    [] h = "floodEchoDisp2" -> Rep(1200, <<EchoFlow, EchoFlow, DispUnk, DispUnk>>)
    [] h = "floodSessFlow" -> Rep(300, <<SessEcho, DispUnk>>)
    [] h = "size0" -> <<[e |-> "PRaw", tag |-> h, b |-> <<0,0,0,0, 2,0,0,0>>]>>
    [] h = "size3" -> <<[e |-> "PRaw", tag |-> h, b |-> <<0,0,0,3, 2,0,0,0>>]>>
    [] h = "size4" -> <<[e |-> "PRaw", tag |-> h, b |-> <<0,0,0,4>>]>>
    [] h = "size7" -> <<[e |-> "PRaw", tag |-> h, b |-> <<0,0,0,7, 2,0,0>>]>>
    [] h = "sizeHuge" -> <<[e |-> "PRaw", tag |-> h, b |-> <<255,255,255,255, 2,0,0,0>>]>>
    [] h = "sizeOverMax" -> <<[e |-> "PRaw", tag |-> h, gen |-> [kind |-> "big", n |-> 4200]]>>
    [] h = "sizeShort" -> <<HdrOv("flow", 3, FlowS, [size_delta |-> -3])>>
    [] h = "sizeLong" -> <<HdrOv("flow", 3, FlowS, [size_delta |-> 5]), PF("flow", 3, FlowS)>>
    [] h = "doff0" -> <<HdrOv("flow", 3, FlowS, [doff |-> 0])>>
    [] h = "doff1" -> <<HdrOv("flow", 3, FlowS, [doff |-> 1])>>
    [] h = "doff3" -> <<HdrOv("flow", 3, FlowS, [doff |-> 3])>>
    [] h = "doff255" -> <<HdrOv("flow", 3, FlowS, [doff |-> 255])>>
    [] h = "type2" -> <<HdrOv("flow", 3, FlowS, [ftype |-> 2])>>
    [] h = "type255" -> <<HdrOv("flow", 3, FlowS, [ftype |-> 255])>>
    [] h = "garbage" -> <<[e |-> "PRaw", tag |-> h, b |-> <<0,0,0,14, 2,0,0,3, 222,173,190,239,0,83>>]>>
    [] h = "nest1300" -> <<[e |-> "PRaw", tag |-> h, gen |-> [kind |-> "nest", depth |-> 1300, ch |-> 3]]>>
    [] h = "saslBody" -> <<[e |-> "PRaw", tag |-> h, b |-> <<0,0,0,12, 2,0,0,3, 0,83,68,69>>]>>
    [] h = "truncPerf" -> <<[e |-> "PRaw", tag |-> h, b |-> <<0,0,0,13, 2,0,0,3, 0,83,19,192,20>>]>>
    [] h = "openMfs0" -> <<PF("open", 0, [mfs |-> 0, chmax |-> 10])>>
    [] h = "openMfs3" -> <<PF("open", 0, [mfs |-> 3, chmax |-> 10])>>
    [] h = "openMfs4" -> <<PF("open", 0, [mfs |-> 4, chmax |-> 10])>>
    [] h = "openMfs6" -> <<PF("open", 0, [mfs |-> 6, chmax |-> 10])>>
    [] h = "openMfs7" -> <<PF("open", 0, [mfs |-> 7, chmax |-> 10])>>
    [] h = "openMfs8" -> <<PF("open", 0, [mfs |-> 8, chmax |-> 10])>>
    [] h = "openMfs100" -> <<PF("open", 0, [mfs |-> 100, chmax |-> 10])>>
    [] h = "openMfs511" -> <<PF("open", 0, [mfs |-> 511, chmax |-> 10])>>
    [] h = "openChmax0" -> <<PF("open", 0, [mfs |-> 4096, chmax |-> 0])>>
    [] h = "openIdle1" -> <<PF("open", 0, [mfs |-> 4096, chmax |-> 10, idle |-> 1])>>
    [] h = "xferUnattached" -> <<[e |-> "PFrame", perf |-> "transfer", ch |-> 3, f |-> XferF(77, 40), msg |-> Msg(60)]>>
    [] h = "xferBeyondCredit" -> <<[e |-> "PFrame", perf |-> "transfer", ch |-> 3, f |-> XferF(6, 40), msg |-> Msg(60)], [e |-> "PFrame", perf |-> "transfer", ch |-> 3, f |-> XferF(6, 41), msg |-> Msg(61)],
                                  [e |-> "PFrame", perf |-> "transfer", ch |-> 3, f |-> XferF(6, 42), msg |-> Msg(62)], [e |-> "ARecv", l |-> "L2"], [e |-> "ARecv", l |-> "L2"], [e |-> "ARecv", l |-> "L2"]>>
    [] h = "xferBeyondWindow" -> <<[e |-> "PFrame", perf |-> "transfer", ch |-> 3, f |-> XferF(6, 40), msg |-> Msg(60)], [e |-> "PFrame", perf |-> "transfer", ch |-> 3, f |-> XferF(6, 41), msg |-> Msg(61)],
                                  [e |-> "PFrame", perf |-> "transfer", ch |-> 3, f |-> XferF(6, 42), msg |-> Msg(62)], [e |-> "PFrame", perf |-> "transfer", ch |-> 3, f |-> XferF(6, 43), msg |-> Msg(63)],
                                  [e |-> "PFrame", perf |-> "transfer", ch |-> 3, f |-> XferF(6, 44), msg |-> Msg(64)]>>
    [] h = "dispHuge" -> <<HdrOv("disposition", 3, [role |-> "r", first |-> 0, last |-> 1073741000, settled |-> TRUE, state |-> [k |-> "accepted", cond |-> "", txn |-> <<>>]], [none |-> 0])>>
    [] h = "dispReversed" -> <<PF("disposition", 3, [role |-> "r", first |-> 1010, last |-> 1009, settled |-> TRUE, state |-> [k |-> "accepted", cond |-> "", txn |-> <<>>]])>>
    [] h = "dispUnknown" -> <<PF("disposition", 3, [role |-> "r", first |-> 5000, last |-> 5003, settled |-> FALSE, state |-> [k |-> "released", cond |-> "", txn |-> <<>>]])>>
    [] h = "flowUnattached" -> <<PF("flow", 3, [nii |-> 1000, iw |-> 100, noi |-> 0, ow |-> 100, h |-> 99, dc |-> 0, lc |-> 5])>>
    [] h = "dupAttach" -> <<PF("attach", 3, [name |-> "L1", h |-> 5, role |-> "r", snd |-> 1, rcv |-> 0])>>
    [] h = "attachHandleInUse" -> <<PF("attach", 3, [name |-> "other", h |-> 5, role |-> "s", snd |-> 1, rcv |-> 0, idc |-> 0])>>
    [] h = "dupAttachAccepted" -> IF Side = "listener" THEN <<PF("attach", 3, [name |-> "other", h |-> 5, role |-> "s", snd |-> 1, rcv |-> 0, idc |-> 0]), [e |-> "AAcceptLink", l |-> "L9", s |-> "s1", cfg |-> [credit |-> 5]]>>
                                  ELSE <<PF("attach", 3, [name |-> "other", h |-> 5, role |-> "s", snd |-> 1, rcv |-> 0, idc |-> 0])>>
    [] h = "frameUnmappedCh" -> <<PF("flow", 9, FlowS)>>
    [] h = "beginAgain" -> <<PF("begin", 3, [rch |-> -1, noi |-> 0, iw |-> 100, ow |-> 100])>>
    [] h = "beginChHigh" -> <<PF("begin", 300, [rch |-> -1, noi |-> 0, iw |-> 100, ow |-> 100])>>
    [] h = "beginChMax" -> <<PF("begin", 65535, [rch |-> -1, noi |-> 0, iw |-> 100, ow |-> 100])>>
    [] h = "beginReplyChHigh" -> <<[e |-> "ABegin", s |-> "s9", cfg |-> [noi |-> 1000, iw |-> 3, ow |-> 100]], PF("begin", 40000, [rch |-> [ref |-> "s9"], noi |-> 0, iw |-> 100, ow |-> 100])>>
    [] h = "endUnmapped" -> <<PF("end", 8, [err |-> ""])>>
    [] h = "openAgain" -> <<PF("open", 0, [mfs |-> 4096, chmax |-> 10])>>
    [] h = "xferToSender" -> <<[e |-> "PFrame", perf |-> "transfer", ch |-> 3, f |-> XferF(5, 40), msg |-> Msg(60)]>>
    [] h = "detachUnattached" -> <<PF("detach", 3, [h |-> 88, closed |-> TRUE, err |-> ""])>>
    [] h = "unsOffHuge" -> <<UnsAttach(<<[tag |-> [d |-> 0], st |-> RcvSt(0, 1000000)]>>, FALSE)>>
    [] h = "unsSecHuge" -> <<UnsAttach(<<[tag |-> [d |-> 0], st |-> RcvSt(2000000000, 0)]>>, FALSE)>>
    [] h = "unsOffEnd" -> <<UnsAttach(<<[tag |-> [d |-> 0], st |-> RcvSt(2, 70)]>>, FALSE)>>
    [] h = "unsReceivedOk" -> <<UnsAttach(<<[tag |-> [d |-> 0], st |-> RcvSt(0, 3)]>>, FALSE)>>
    [] h = "unsGhosts" -> <<UnsAttach(<<[tag |-> <<9, 9>>, st |-> St("accepted")], [tag |-> <<9, 8>>, st |-> RcvSt(1, 1)], [tag |-> <<>>, st |-> St("released")]>>, FALSE)>>
    [] h = "unsManyGhosts" -> <<UnsAttach([i \in 1..300 |-> [tag |-> <<7, i % 256, i \div 256>>, st |-> RcvSt(0, 0)]], FALSE)>>
    [] h = "unsAccepted" -> <<UnsAttach(<<[tag |-> [d |-> 0], st |-> St("accepted")]>>, FALSE)>>
    [] h = "unsNull" -> <<UnsAttach(<<[tag |-> [d |-> 0], st |-> St("none")]>>, FALSE)>>
    [] h = "unsDeclared" -> <<UnsAttach(<<[tag |-> [d |-> 0], st |-> [k |-> "declared", cond |-> "", txn |-> <<1, 2>>, sn |-> 0, so |-> 0]]>>, FALSE)>>
    [] h = "unsIncomplete" -> <<UnsAttach(<<>>, TRUE)>>
    [] h = "rUnsGhosts" -> <<UnsAttachR(<<[tag |-> <<9, 9>>, st |-> St("accepted")], [tag |-> <<9, 8>>, st |-> RcvSt(1, 1)], [tag |-> <<>>, st |-> St("released")]>>, FALSE)>>
    [] h = "rUnsManyGhosts" -> <<UnsAttachR([i \in 1..300 |-> [tag |-> <<7, i % 256, i \div 256>>, st |-> RcvSt(0, 0)]], FALSE)>>
    [] h = "rUnsAccepted" -> <<UnsAttachR(<<[tag |-> <<0>>, st |-> St("accepted")]>>, FALSE)>>
    [] h = "rUnsNull" -> <<UnsAttachR(<<[tag |-> <<0>>, st |-> St("none")]>>, FALSE)>>
    [] h = "rUnsDeclared" -> <<UnsAttachR(<<[tag |-> <<0>>, st |-> [k |-> "declared", cond |-> "", txn |-> <<1, 2>>, sn |-> 0, so |-> 0]]>>, FALSE)>>
    [] h = "rUnsIncomplete" -> <<UnsAttachR(<<>>, TRUE)>>
    [] h = "rResumeUnknown" -> <<UnsAttachR(<<[tag |-> <<0>>, st |-> St("none")]>>, FALSE), ResumeXfer(<<4, 4>>, FALSE, -1)>>
    [] h = "rResumeAbort" -> <<UnsAttachR(<<[tag |-> <<0>>, st |-> St("none")]>>, FALSE), ResumeXfer(<<0>>, TRUE, 0)>>
    [] h = "rResumeKnown" -> <<UnsAttachR(<<[tag |-> <<0>>, st |-> St("none")]>>, FALSE), ResumeXfer(<<0>>, FALSE, -1)>>
    [] h = "flowBadRole" -> <<PF("flow", 3, [nii |-> 1000, iw |-> 100, noi |-> 0, ow |-> 100, h |-> 6, dc |-> 0, lc |-> 5, drain |-> TRUE])>>
\* the probe: ordinary use afterwards; every call must return
Probe(st) == (IF st \in {"sender", "receiver", "midxfer", "tight", "resuming", "resumingR"} THEN <<[e |-> "ASend", l |-> "L1", m |-> 1, len |-> 20, settled |-> TRUE]>> ELSE <<>>)
             \o (IF st = "resumingR" THEN <<[e |-> "ARecv", l |-> "L6"]>> ELSE <<>>)     \* (the call that takes a resumed delivery in, if there is one)
             \o (IF st = "header" THEN <<[e |-> "ABegin", s |-> "s1", cfg |-> [noi |-> 1000, iw |-> 3, ow |-> 100]]>> ELSE <<>>)
             \o (IF st = "closing" THEN <<>> ELSE <<[e |-> "AClose", err |-> ""]>>) \o <<PF("close", 0, [err |-> ""]), [e |-> "PEof"]>>
Emit == z.k = "start" \/ PrintT(<<"SCRIPT", ToJson([side |-> Side, id |-> <<Side, z.st, z.h>> \o (IF "n" \in DOMAIN z THEN <<z.n>> ELSE <<>>), final_ms |-> 60000, ev |-> Prefix(z.st) \o Hostile(z.h) \o Probe(z.st)])>>)
=============================================================================
