SPECIFICATION Spec
CONSTANT Depth = 4
CONSTANT Credit = 0
CONSTANT AutoAccept = FALSE
CONSTANT DcShift = "4294966294"
CONSTANT Side = "client"
INVARIANT Emit
CHECK_DEADLOCK FALSE
