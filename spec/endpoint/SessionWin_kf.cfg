SPECIFICATION Spec
CONSTANT M = 8
CONSTANT MaxWin = 2
CONSTANT NFrames = 3
CONSTANT Starts = {0, 6}
CONSTANT SplitBelowSession = TRUE
INVARIANT C07_WindowSafety
INVARIANT C07_Fifo
INVARIANT C07_NoLossNoDup
INVARIANT C07_Accounting
PROPERTY C07_DrainSimple
CHECK_DEADLOCK FALSE
