SPECIFICATION Spec
CONSTANT NDel = 2
CONSTANT FramesPer = 2
CONSTANT BufferInLink = FALSE
CONSTANT ConsumeWithEnqueue = TRUE
INVARIANT C16_RecvExact
CHECK_DEADLOCK FALSE
