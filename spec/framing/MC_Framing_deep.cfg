SPECIFICATION Spec
CONSTANT MaxLo = 14
CONSTANT MaxHi = 22
INVARIANT C06_WithinMax
INVARIANT C06_Slices
INVARIANT C06_More
INVARIANT C06_Progress
CHECK_DEADLOCK FALSE
