SPECIFICATION Spec
CONSTANT W = 2
CONSTANT Sizes = {2, 3, 4, 6}
CONSTANT MaxFrames = 4
INVARIANT C06_DecodePrefix
INVARIANT C06_NeverAhead
PROPERTY C06_DecodeAll
CHECK_DEADLOCK FALSE
