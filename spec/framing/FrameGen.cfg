SPECIFICATION Spec
CONSTANT Deep = FALSE
INVARIANT Emit
INVARIANT EmitStream
CHECK_DEADLOCK FALSE
