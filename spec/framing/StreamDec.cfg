SPECIFICATION Spec
CONSTANT W = 2
CONSTANT Sizes = {2, 3, 5}
CONSTANT MaxFrames = 3
INVARIANT C06_DecodePrefix
INVARIANT C06_NeverAhead
PROPERTY C06_DecodeAll
CHECK_DEADLOCK FALSE
