---------------------------- MODULE MC_Framing ----------------------------
(* Exhaustive arithmetic check of the splitting rule against the reference clauses, and Gen of
   the concrete cases the real transport is run on. *)
EXTENDS Framing, TLC, Json
CONSTANTS MaxLo, MaxHi     \* abstract max-frame-size range (the arithmetic does not depend on the scale)

VARIABLE z
Init == z = [k |-> "start"]
\* performative lengths: pW <= pF (setting more may add bytes), pL <= pC <= pF
Params == { [max |-> m, pW |-> pw, pF |-> pf, pC |-> pc, pL |-> pl, L |-> l, om |-> om] :
              m \in MaxLo..MaxHi, pw \in 3..5, pf \in 3..6, pc \in 2..5, pl \in 2..5, l \in 0..(3 * MaxHi + 2), om \in BOOLEAN }
\* (precondition of the rule: header + largest performative leave room for payload -- in the code max >= 512 and a transfer performative is far smaller)
Legal(q) == q.pW <= q.pF /\ q.pC <= q.pF /\ q.pL <= q.pC /\ (q.om => (q.pW = q.pF /\ q.pL = q.pC)) /\ 8 + q.pF < q.max
Next == z.k = "start" /\ \E q \in Params : Legal(q) /\ z' = [k |-> "case"] @@ q
Spec == Init /\ [][Next]_z

Fs == Split(z.pW, z.pF, z.pC, z.pL, z.L, z.max, z.om)
C06_WithinMax == z.k = "case" => WithinMax(Fs, z.max)
C06_Slices == z.k = "case" => Slices(Fs, z.L)
C06_More == z.k = "case" => MoreFlags(Fs, z.om)
C06_Progress == z.k = "case" => Progress(Fs)
=============================================================================
