---------------------------- MODULE FramingTrace ----------------------------
(* Validate for C06: frames the real Transport wrote (enc records) and decoded (dec records)
   are judged by the reference clauses of Framing.tla; performative bytes are decoded by the
   reference decoder of AmqpCodec.tla and compared with the abstract performative of the case. *)
EXTENDS Framing, FrameData, IOUtils
Rec == ndJsonDeserialize(IOEnv.TRACE)
VARIABLES l, nfail
tvars == <<l, nfail>>
Check(name, cond, r) == IF cond THEN 0 ELSE IF PrintT(<<"FAIL", name, l, r.k>>) THEN 1 ELSE 1

IsTransfer(v) == v.d.x[8] = 20
FieldsOf(v) == Norm(v).x.x                       \* canonical field tuple of a composite
PerfOf(f) == LET d == Dec(f.pb) IN IF d.ok /\ d.n = Len(f.pb) THEN d.v ELSE Null
SetMore(fs, m) == [fs EXCEPT ![6] = B(m)]
\* a continuation frame may omit or repeat these fields of the first frame
Optional == {2, 3, 4, 5, 7}
ContOK(first, cont, more) ==
  /\ cont[1] = first[1] /\ cont[6] = B(more)
  /\ \A i \in Optional : cont[i] = Null \/ cont[i] = first[i]
  /\ \A i \in {8, 9, 10, 11} : cont[i] = first[i] \/ cont[i] = Null \/ cont[i] = B(FALSE)

AsModel(frames) == [i \in DOMAIN frames |-> [p |-> Len(frames[i].pb), off |-> frames[i].off, len |-> frames[i].len,
                                               more |-> LET v == PerfOf(frames[i]) IN v.t = "described" /\ v.d.t = "ulong" /\ IsTransfer(v) /\ FieldsOf(v)[6] = B(TRUE)]]
JudgeEnc(r) ==
  LET n == Len(r.frames) exp == FieldsOf(r.perf) IN
    Check("C06_Complete", r.err = "" /\ r.trail = 0 /\ n >= 1, r)
  + Check("C06_WithinMax", \A i \in 1..n : r.frames[i].size <= r.max, r)
  + Check("C06_Header", \A i \in 1..n : r.frames[i].doff = 2 /\ r.frames[i].ftype = 0 /\ r.frames[i].ch = r.ch, r)
  + Check("C06_PerfRoundTrip",
          n >= 1 /\ \A i \in 1..n : PerfOf(r.frames[i]).t = "described" /\
             (IF ~IsTransfer(r.perf) THEN n = 1 /\ Norm(PerfOf(r.frames[1])) = Norm(r.perf)
              ELSE IF i = 1 THEN FieldsOf(PerfOf(r.frames[1])) = SetMore(exp, n > 1 \/ r.more)
              ELSE ContOK(exp, FieldsOf(PerfOf(r.frames[i])), i < n \/ r.more)), r)
  + Check("C06_Slices", n >= 1 /\ Slices(AsModel(r.frames), r.L) /\ \A i \in 1..n : r.frames[i].pat, r)
  + Check("C06_More", n >= 1 /\ (IsTransfer(r.perf) => MoreFlags(AsModel(r.frames), r.more)), r)
  + Check("C06_NoWaste", n >= 1 /\ (IsTransfer(r.perf) => Progress(AsModel(r.frames))), r)

JudgeDec(r) ==
    Check("C06_Decode", r.same, r)
  + Check("C06_DecodeExact", r.mode # "whole" \/
          (Len(r.frames) = Len(StreamFrames) /\ \A i \in DOMAIN StreamFrames :
              /\ "ch" \in DOMAIN r.frames[i] /\ r.frames[i].ch = StreamFrames[i].ch
              /\ r.frames[i].len = StreamFrames[i].pl /\ r.frames[i].pat
              /\ IF StreamFrames[i].perf.t = "null" THEN r.frames[i].pb = <<>>
                 ELSE LET d == Dec(r.frames[i].pb) IN d.ok /\ Norm(d.v) = Norm(StreamFrames[i].perf)), r)

TInit == l = 1 /\ nfail = 0
TNext == l <= Len(Rec) /\ l' = l + 1 /\ nfail' = nfail + (IF Rec[l].k = "enc" THEN JudgeEnc(Rec[l]) ELSE JudgeDec(Rec[l]))
TSpec == TInit /\ [][TNext]_tvars
Accepted == IF TLCGet("stats").diameter - 1 = Len(Rec) THEN PrintT(<<"VALIDATED", Len(Rec)>>)
            ELSE Print(<<"UNMATCHED", TLCGet("stats").diameter>>, FALSE)
=============================================================================
