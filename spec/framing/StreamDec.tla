---------------------------- MODULE StreamDec ----------------------------
(* The length-delimited frame reader as a state machine over arbitrary read partitions.
   A stream is the concatenation of frames, each starting with a W-byte size field that counts
   the whole frame.  Bytes arrive in chunks of any size; the reader emits a frame as soon as it
   is complete.  Property: the emitted frame sequence is the original one whatever the
   partition (checked by TLC over all partitions of all streams of up to three frames). *)
EXTENDS Integers, Sequences, FiniteSets
CONSTANTS W, Sizes, MaxFrames

Streams == UNION { [1..n -> Sizes] : n \in 1..MaxFrames }
RECURSIVE Total(_)
Total(s) == IF s = <<>> THEN 0 ELSE Head(s) + Total(Tail(s))

VARIABLES frames,     \* the stream: sequence of frame sizes
          arrived,    \* bytes delivered to the reader so far
          consumed,   \* bytes the reader has turned into frames
          emitted     \* frames (sizes) emitted
vars == <<frames, arrived, consumed, emitted>>

\* size field of the frame that starts at byte offset `consumed`
RECURSIVE FrameAt(_, _)
FrameAt(s, off) == IF off = 0 THEN Head(s) ELSE FrameAt(Tail(s), off - Head(s))

Init == frames \in Streams /\ arrived = 0 /\ consumed = 0 /\ emitted = <<>>
Arrive == \E k \in 1..(Total(frames) - arrived) : arrived' = arrived + k /\ UNCHANGED <<frames, consumed, emitted>>
\* the reader needs the W size bytes first, then the whole frame
Emit == /\ consumed < Total(frames) /\ arrived - consumed >= W
        /\ LET sz == FrameAt(frames, consumed) IN
           /\ arrived - consumed >= sz
           /\ emitted' = Append(emitted, sz) /\ consumed' = consumed + sz
        /\ UNCHANGED <<frames, arrived>>
Next == Arrive \/ Emit
Spec == Init /\ [][Next]_vars /\ WF_vars(Emit) /\ WF_vars(Arrive)

IsPrefix(a, b) == Len(a) <= Len(b) /\ SubSeq(b, 1, Len(a)) = a
C06_DecodePrefix == IsPrefix(emitted, frames)
C06_NeverAhead == consumed <= arrived
C06_DecodeAll == <>(emitted = frames)
=============================================================================
