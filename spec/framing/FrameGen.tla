---------------------------- MODULE FrameGen ----------------------------
(* Gen for C06: concrete cases for the real transport.
   enc: a performative (abstract composite, given as its narrow encoding), a channel, the peer's
        max-frame-size and a payload length given relative to the body room B of that
        configuration ([k, d] means k*B + d bytes, resolved by the harness once the real
        performative length is known).
   dec: a stream of frames and a partition of its bytes into reads: every single cut, every
        uniform chunk size, and small sets of cuts placed around frame and header boundaries. *)
EXTENDS FrameData

VARIABLE z
Init == z = [k |-> "start"]
Next == /\ z.k = "start"
        /\ \/ \E c \in PerfCodes, ch \in Channels, mx \in {512, 4096} : \E fs \in Cases(c) :
                z' = [k |-> "enc", ch |-> ch, max |-> mx, perf |-> Desc(c, L(fs)), bytes |-> Enc(Desc(c, L(Elide(fs))), "N"), pl |-> <<0, 0>>, more |-> FALSE]
           \/ \E more \in BOOLEAN, ch \in {0, 65535}, mx \in Maxes, pl \in PayLens : \E fs \in Transfers(more) :
                z' = [k |-> "enc", ch |-> ch, max |-> mx, perf |-> Desc(20, L(fs)), bytes |-> Enc(Desc(20, L(fs)), "N"), pl |-> pl, more |-> more]
           \/ z' = [k |-> "dec", mode |-> "whole", cuts |-> <<>>]
           \/ z' = [k |-> "dec", mode |-> "single", cuts |-> <<>>]           \* expanded by the harness: every offset
           \/ \E n \in 1..16 : z' = [k |-> "dec", mode |-> "uniform", cuts |-> <<<<0, n>>>>]
           \/ \E s \in CutSets : z' = [k |-> "dec", mode |-> "rel", cuts |-> SetToSeq(s)]
Spec == Init /\ [][Next]_z

Stream == [i \in DOMAIN StreamFrames |-> [ch |-> StreamFrames[i].ch, pl |-> StreamFrames[i].pl,
                                           bytes |-> IF StreamFrames[i].perf.t = "null" THEN <<>> ELSE Enc(StreamFrames[i].perf, "N")]]
Emit == z.k = "start" \/ PrintT(<<"CASE", ToJson(z)>>)
EmitStream == z.k # "start" \/ PrintT(<<"STREAM", ToJson(Stream)>>)
=============================================================================
