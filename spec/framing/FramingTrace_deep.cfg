SPECIFICATION TSpec
CONSTANT Deep = TRUE
POSTCONDITION Accepted
CHECK_DEADLOCK FALSE
