---------------------------- MODULE FrameData ----------------------------
(* Case data shared by FrameGen (Gen) and FramingTrace (Validate). *)
EXTENDS Composite, Json, FiniteSets, SequencesExt
CONSTANT Deep

Channels == {0, 1, 65535}
Maxes == IF Deep THEN {512, 513, 600, 1024, 4096, 65536} ELSE {512, 513, 4096}
PerfCodes == {16, 17, 18, 19, 21, 22, 23, 24}
\* transfer field patterns: handle, delivery-id, delivery-tag, message-format, settled, more, rcv-settle-mode, state, resume, aborted, batchable
Tag(n) == Bin([i \in 1..n |-> i])
Transfers(more) == { <<UI(0), UI(1), Tag(1), UI(0), B(FALSE), B(more)>>,
                     <<UI(7), UI(70000), Tag(32), UI(0), B(TRUE), B(more), UB(1), Desc(36, L(<<>>)), B(FALSE), B(FALSE), B(TRUE)>>,
                     <<UI(0), UI(1), Tag(0), UI(0), Null, B(more)>>,
                     <<UI(300), Null, Null, Null, Null, B(more)>> }
PayLens == {<<0, 0>>, <<0, 1>>} \cup { <<k, d>> : k \in 1..(IF Deep THEN 4 ELSE 3), d \in (IF Deep THEN -3..3 ELSE {-1, 0, 1}) }

\* ---- decode direction ----
StreamFrames == << [ch |-> 0, perf |-> Desc(17, L(<<Null, UI(1), UI(2), UI(3)>>)), pl |-> 0],
                   [ch |-> 3, perf |-> Desc(20, L(<<UI(0), UI(1), Tag(2), UI(0), B(FALSE), B(TRUE)>>)), pl |-> 600],
                   [ch |-> 65535, perf |-> Desc(20, L(<<UI(0), Null, Null, Null, Null, B(FALSE)>>)), pl |-> 7],
                   [ch |-> 0, perf |-> Null, pl |-> 0],                                                            \* empty (heartbeat) frame
                   [ch |-> 1, perf |-> Desc(24, L(<<ErrV(2)>>)), pl |-> 0] >>
RelPoints == { <<f, o>> : f \in 1..Len(StreamFrames), o \in {-1, 0, 1, 3, 4, 5, 7, 8, 9, 12} }
Pairs == { {a, b} : a \in RelPoints, b \in RelPoints }
Triples == { {a, b, c} : a \in RelPoints, b \in RelPoints, c \in { p \in RelPoints : p[2] \in {0, 4, 8} } }
CutSets == { s \in Pairs : Cardinality(s) = 2 } \cup (IF Deep THEN { s \in Triples : Cardinality(s) = 3 } ELSE {})

=============================================================================
