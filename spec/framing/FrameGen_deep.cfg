SPECIFICATION Spec
CONSTANT Deep = TRUE
INVARIANT Emit
INVARIANT EmitStream
CHECK_DEADLOCK FALSE
