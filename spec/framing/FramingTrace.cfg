SPECIFICATION TSpec
CONSTANT Deep = FALSE
POSTCONDITION Accepted
CHECK_DEADLOCK FALSE
