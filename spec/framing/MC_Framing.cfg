SPECIFICATION Spec
CONSTANT MaxLo = 15
CONSTANT MaxHi = 18
INVARIANT C06_WithinMax
INVARIANT C06_Slices
INVARIANT C06_More
INVARIANT C06_Progress
CHECK_DEADLOCK FALSE
