---------------------------- MODULE Framing ----------------------------
(* AMQP 1.0 framing (2.3) as far as C06 needs it.

   Reference clauses (used both by the model check and by FramingTrace on frames the real
   transport wrote): a frame is 8 header bytes + performative + payload chunk, its size field
   counts all of it and never exceeds the peer's max-frame-size; the frames produced for one
   transfer carry consecutive payload slices starting at 0 that add up to the payload, and
   `more` is set on all but the last (which keeps the caller's own `more`).

   Split(..) is the splitting rule of the design (fill every frame to the limit, continuation
   performative without the first-frame-only fields); TLC checks that it satisfies the
   reference clauses for every payload length and every combination of performative lengths. *)
EXTENDS Integers, Sequences

Hdr == 8
\* a frame of one transfer: [p |-> performative length, off |-> payload offset, len |-> chunk length, more |-> BOOLEAN]
FrameSize(f) == Hdr + f.p + f.len

WithinMax(fs, max) == \A i \in DOMAIN fs : FrameSize(fs[i]) <= max
RECURSIVE Contig(_, _, _)
Contig(fs, i, off) == IF i > Len(fs) THEN TRUE ELSE fs[i].off = off /\ Contig(fs, i + 1, off + fs[i].len)
Slices(fs, total) == /\ Len(fs) >= 1 /\ Contig(fs, 1, 0)
                     /\ fs[Len(fs)].off + fs[Len(fs)].len = total
MoreFlags(fs, origMore) == /\ \A i \in 1..(Len(fs) - 1) : fs[i].more
                           /\ fs[Len(fs)].more = origMore
\* no frame is wasted: every frame but the last carries at least one payload byte
Progress(fs) == \A i \in 1..(Len(fs) - 1) : fs[i].len > 0

\* The design's splitting rule.  pW: performative as given (caller's more), pF: same with more=true,
\* pC: continuation (first-frame-only fields dropped, more=true), pL: continuation with the caller's more.
RECURSIVE Mid(_, _, _, _, _, _)
Mid(pC, pL, off, rest, B, origMore) ==
  IF pC + rest > B
  THEN <<[p |-> pC, off |-> off, len |-> B - pC, more |-> TRUE]>> \o Mid(pC, pL, off + (B - pC), rest - (B - pC), B, origMore)
  ELSE <<[p |-> pL, off |-> off, len |-> rest, more |-> origMore]>>
Split(pW, pF, pC, pL, L, max, origMore) ==
  LET B == max - Hdr IN
  IF pW + L <= B THEN <<[p |-> pW, off |-> 0, len |-> L, more |-> origMore]>>
  ELSE <<[p |-> pF, off |-> 0, len |-> B - pF, more |-> TRUE]>> \o Mid(pC, pL, B - pF, L - (B - pF), B, origMore)
=============================================================================
