"""C07: session flow control."""
from props import endpoint


def check(pid, tier, replay):
    names = ["da", "db", "dc", "dd", "de", "la", "le"] if tier == "thorough" else ["a", "b", "c", "e", "la", "le"]
    gens = [("endpoint/SessGen", "endpoint/SessGen_%s.cfg" % n) for n in names] + endpoint.mix_gens(pid, tier)
    endpoint.run(pid, tier, replay, ("C07_",), [("endpoint/SessionWin", "endpoint/SessionWin.cfg"), ("ind/FlowInd", "apalache")], gens,
                 "after a fixed handshake every sequence up to the depth bound over {send 1 frame, send 3 frames, peer flow with window 0..3 / lagging / unset "
                 "next-incoming-id, incoming 1- and 2-frame transfers}, for id spaces starting at 0, 2^31 and just below 2^32, then a flow that reopens the window; the same against a listener-side session (accepted session and links); "
                 "distinct = distinct scripts" + endpoint.MIX_RULE)
