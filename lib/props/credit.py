"""C08: sender link credit (accounting + wake-up race)."""
import vlib
from props import endpoint


def check(pid, tier, replay):
    names = ["da", "db", "dh", "h0", "lb", "lp", "m"] if tier == "thorough" else ["a", "b", "h", "h0", "lb", "lp", "m"]
    # (the parked-send scripts of CancelGen end without a generous grant: what a cancelled send does to the credit shows in the sends that follow)
    gens = [("endpoint/CreditGen", "endpoint/CreditGen_%s.cfg" % n) for n in names] + [("endpoint/CancelGen", "endpoint/CancelGen_%s.cfg" % ("dpk" if tier == "thorough" else "pk"))]
    models = [("endpoint/Credit", "endpoint/Credit.cfg"), ("endpoint/CreditWake", "endpoint/CreditWake.cfg"), ("ind/FlowInd", "apalache")]
    if not replay:
        # the dangerous order must be refuted by TLC, otherwise the race model says nothing
        out = vlib.tlc("endpoint/CreditWake", cfg="endpoint/CreditWake_lost.cfg", wd=vlib.workdir("ep-C08-neg"), workers=2, timeout=600)
        if vlib.tlc_violation(out) != "C08_Wakes":
            raise vlib.ToolError("CreditWake.tla no longer refutes the check-then-create order (vacuous race model)")
    endpoint.run(pid, tier, replay, ("C08_",), models, gens + endpoint.mix_gens(pid, tier),
                 "after a fixed handshake every sequence up to the depth bound over {send 1 frame, send 3 frames, grant 0/1/2 exact, grant lagging, grant with unset "
                 "delivery-count, drain 1/2, echo}, delivery-counts starting at 1000 and just below 2^32, closed by a generous grant; plus the same with the sending task "
                 "parked at the schedule point credit.after_failed_check while the first grant is applied; the depth-3 scripts also against a sender link accepted by a listener and with a peer max-message-size of 200 (the 3-frame send becomes six link-level transfers for one credit); distinct = distinct scripts" + endpoint.MIX_RULE)
