"""C12: connection lifecycle."""
from props import endpoint


def check(pid, tier, replay):
    deep = tier == "thorough"
    gens = [("endpoint/ConnGen", "endpoint/ConnGen_client%s.cfg" % ("_deep" if deep else "")),
            ("endpoint/ConnGen", "endpoint/ConnGen_listener%s.cfg" % ("_deep" if deep else "")),
            # frames still queued inside the endpoint when the peer's close is read
            ("endpoint/FailGen", "endpoint/FailGen_client_burst.cfg"),
            # the peer lets its own idle periods pass before it answers the endpoint's close
            ("endpoint/LimitsGen", "endpoint/LimitsGen_cl.cfg")]
    endpoint.run(pid, tier, replay, ("C12_",), [("endpoint/ConnLife", None)], gens,
                 "every sequence of application / peer events up to the depth bound over the 16-event alphabet of ConnGen.tla, client and listener side; "
                 "plus the FailGen scripts that hand a burst of some thirty link-level transfer frames to the endpoint, let 1-5 scheduler turns pass and then deliver the peer's close, and the LimitsGen scripts in which the peer (idle time-out 200 ms) answers the endpoint's close only after up to 1.3 s; distinct = distinct scripts")
