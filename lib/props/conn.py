"""C12: connection lifecycle."""
from props import endpoint


def check(pid, tier, replay):
    deep = tier == "thorough"
    gens = [("endpoint/ConnGen", "endpoint/ConnGen_client%s.cfg" % ("_deep" if deep else "")),
            ("endpoint/ConnGen", "endpoint/ConnGen_listener%s.cfg" % ("_deep" if deep else ""))]
    endpoint.run(pid, tier, replay, ("C12_",), [("endpoint/ConnLife", None)], gens,
                 "every sequence of application / peer events up to the depth bound over the 16-event alphabet of ConnGen.tla, client and listener side; "
                 "distinct = distinct scripts")
