"""C13 (session / link lifecycles) and C11 (identifiers, routing)."""
from props import endpoint, receiver

RULE = ("macro events (local call + peer answer, or peer first + application touch) over two sessions and four links: attach, duplicate name, refused attach, detach / close / drop, "
        "peer detach with and without error, sends queued right before detach / drop / end, end with and without error, peer end; every enabled sequence up to the depth bound, "
        "peer handles small and sparse (70000+); the same on the listener side (sessions and links the peer starts and the application accepts); distinct = distinct scripts")


def gens(tier):
    return [("endpoint/LifeGen", "endpoint/LifeGen_%s.cfg" % n) for n in (["b", "da", "lb", "lda", "x"] if tier == "thorough" else ["a", "b", "la", "lb", "x"])]


def check_c13(pid, tier, replay):
    # (C12_NoSpontaneousError: ending a session or dropping a handle never tears the connection down behind the application's back)
    endpoint.run(pid, tier, replay, ("C13_", "C12_NoSpontaneousError"), [("endpoint/LinkLife", None)], gens(tier) + endpoint.mix_gens(pid, tier), RULE + endpoint.MIX_RULE)


def check_c11(pid, tier, replay):
    from props import session
    g = gens(tier) + receiver.gens(tier)[:1] + [("endpoint/SessGen", "endpoint/SessGen_e.cfg"), ("endpoint/SettleGen", "endpoint/SettleGen_sw.cfg")] + endpoint.mix_gens(pid, tier)
    # routing of incoming dispositions to the link they belong to shows as the send resolving, with its own outcome
    endpoint.run(pid, tier, replay, ("C11_", "C02_OwnOutcome", "C02_Resolves_Q", "C12_NoSpontaneousError"), [("endpoint/Ids", None)], g,
                 RULE + "; plus the RecvGen (routing of incoming deliveries), link-split SessGen scripts and the SettleGen disposition scripts with the peer's handles for the two links "
                        "being the endpoint's handles swapped")
