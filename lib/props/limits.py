"""C17: channel-max and idle time-outs."""
from props import endpoint


def check(pid, tier, replay):
    names = ["dchan", "dia", "dib", "dic"] if tier == "thorough" else ["chan", "ia", "ib", "ic"]
    gens = [("endpoint/LimitsGen", "endpoint/LimitsGen_%s.cfg" % n) for n in names + ["il"]]
    endpoint.run(pid, tier, replay, ("C17_",), [("endpoint/Limits", None)], gens,
                 "channel-max: every pair of local / remote values from the configured set, sessions begun up to two beyond the agreed limit, one ended, two more begun; "
                 "idle time-outs (200 ms, local / remote / both): every sequence up to the depth bound of clock advances of 30 / 150 / 190 / 230 / 650 ms (10 ms steps), peer empty frames "
                 "and endpoint traffic, with an on_close call pending; the same with a peer that answers the open 120 ms late; distinct = distinct scripts")
