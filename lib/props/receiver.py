"""C09 (receiver credit) and C10 (reassembly): RecvGen scripts."""
from props import endpoint

RULE = ("after a handshake every sequence up to the depth bound over {1-, 2-, 3-frame deliveries with omitted / repeated continuation fields and an empty middle frame, "
        "aborted delivery, contradictory continuation, recv, accept, accept_all, set_credit, drain}; configurations Auto(1), Auto(2)+auto-accept with the sender's "
        "delivery-count next to 2^32, Manual, listener-accepted link; distinct = distinct scripts")


def gens(tier):
    names = ["da", "db", "dc", "dd", "de"] if tier == "thorough" else ["a", "b", "c", "d"]
    return [("endpoint/RecvGen", "endpoint/RecvGen_%s.cfg" % n) for n in names]


def check_c09(pid, tier, replay):
    g = gens(tier) + [("endpoint/StreamGen", "endpoint/StreamGen%s.cfg" % ("_deep" if tier == "thorough" else ""))] + endpoint.mix_gens(pid, tier)
    endpoint.run(pid, tier, replay, ("C09_",), [("endpoint/Credit", "endpoint/Credit.cfg"), ("ind/FlowInd", "apalache")], g, RULE +
                 "; plus streams to Auto(n) receivers disposing in batches of b (accept_all / single accepts / auto-accept) for every n, b of StreamGen.tla" + endpoint.MIX_RULE)


def check_c10(pid, tier, replay):
    import vlib
    from props import txn
    verdict = vlib.Verdict(pid, tier)
    ev = endpoint.run(pid, tier, replay, ("C10_",), [("endpoint/Reasm", None)], gens(tier) + [("endpoint/FragGen", "endpoint/FragGen%s.cfg" % ("_deep" if tier == "thorough" else ""))] + endpoint.mix_gens(pid, tier), RULE +
                      "; plus every split offset of an encoded five-section message into 2 frames and a grid of 3-frame splits (FragGen.tla)" + endpoint.MIX_RULE, verdict=verdict, finish=False)
    if not replay:
        # deliveries that travel through a transaction on a listener are reassembled by the transactional session first: the posts of the TxnGen scripts
        # (one frame, two frames with bare or with repeated continuation fields, aborted, interleaved with a discharge) must come out whole, in order,
        # and a plain delivery that follows a post is a delivery of its own
        ev2 = endpoint.run(pid, tier, None, ("C18_CommitDelivers", "C18_Order", "C18_SpuriousRefusal", "C18_Isolation"), [], [("txn/TxnGen", "txn/TxnGen_%s.cfg" % ("da" if tier == "thorough" else "a"))], "",
                           trace_spec="txn/TxnTrace", keep=lambda r: r["ev"] in txn.KEEP, verdict=verdict, finish=False)
        for k in ("states", "transitions", "traces_validated_against_impl", "evaluations", "distinct_nontrivial"):
            ev["coverage"][k] += ev2["coverage"][k]
        ev["coverage"]["rule"] += "; plus the resource-side transaction scripts of TxnGen.tla (posts of one and two frames through a transactional listener session, judged by TxnTrace.tla for whole and ordered delivery)"
        ev["coverage"]["clauses_owned"] += ["C18_CommitDelivers", "C18_Order", "C18_SpuriousRefusal", "C18_Isolation"]
    verdict.finish(ev)
