"""C09 (receiver credit) and C10 (reassembly): RecvGen scripts."""
from props import endpoint

RULE = ("after a handshake every sequence up to the depth bound over {1-, 2-, 3-frame deliveries with omitted / repeated continuation fields and an empty middle frame, "
        "aborted delivery, contradictory continuation, recv, accept, accept_all, set_credit, drain}; configurations Auto(1), Auto(2)+auto-accept with the sender's "
        "delivery-count next to 2^32, Manual, listener-accepted link; distinct = distinct scripts")


def gens(tier):
    names = ["da", "db", "dc", "dd", "de"] if tier == "thorough" else ["a", "b", "c", "d"]
    return [("endpoint/RecvGen", "endpoint/RecvGen_%s.cfg" % n) for n in names]


def check_c09(pid, tier, replay):
    g = gens(tier) + [("endpoint/StreamGen", "endpoint/StreamGen%s.cfg" % ("_deep" if tier == "thorough" else ""))] + endpoint.mix_gens(pid, tier)
    endpoint.run(pid, tier, replay, ("C09_",), [("endpoint/Credit", "endpoint/Credit.cfg"), ("ind/FlowInd", "apalache")], g, RULE +
                 "; plus streams to Auto(n) receivers disposing in batches of b (accept_all / single accepts / auto-accept) for every n, b of StreamGen.tla" + endpoint.MIX_RULE)


def check_c10(pid, tier, replay):
    endpoint.run(pid, tier, replay, ("C10_",), [("endpoint/Reasm", None)], gens(tier) + [("endpoint/FragGen", "endpoint/FragGen%s.cfg" % ("_deep" if tier == "thorough" else ""))] + endpoint.mix_gens(pid, tier), RULE +
                 "; plus every split offset of an encoded five-section message into 2 frames and a grid of 3-frame splits (FragGen.tla)" + endpoint.MIX_RULE)
