"""C03 / C05 / C20: MC_Codec.tla (Gen + oracle self-check) -> vh codec (Exec) -> CodecTrace.tla (Validate)."""
import json
import os

import vlib

CLAUSES = {"C03": ("C03_",), "C05": ("C05_",), "C20": ("C20_",)}


def shape(v, depth=0):
    """Skeleton of an abstract value: the class a finding key names."""
    t = v["t"]
    if t in ("list", "map", "array"):
        inner = []
        for x in v["x"]:
            s = shape(x, depth + 1)
            if not inner or inner[-1] != s:
                inner.append(s)
        star = "*" if t == "array" and len(v["x"]) >= 3 else ""
        return t + star + "(" + ",".join(inner) + ")"
    if t == "described":
        return "described(" + shape(v["d"], depth + 1) + "," + shape(v["x"], depth + 1) + ")"
    if t in ("string", "symbol", "binary"):
        n = len(v["x"])
        nonascii = t == "string" and any(b >= 128 for b in v["x"])
        return t + ("0" if n == 0 else "S" if n < 256 else "L") + ("u" if nonascii else "")
    return t


def pipeline(tier, replay_rows=None):
    """Returns (mc_out, rows, fails) where fails = list of (clause, row)."""
    wd = vlib.workdir("codec-" + tier)
    vlib.build_harness()
    if replay_rows is None:
        cfg = "codec/MC_Codec.cfg" if tier == "quick" else "codec/MC_Codec_deep.cfg"
        mc = vlib.tlc("codec/MC_Codec", cfg=cfg, wd=wd, workers=8, timeout=3000)
        v = vlib.tlc_violation(mc)
        if v:
            raise vlib.ToolError("the codec oracle is inconsistent with itself: %s (fix the specification)" % v)
        cases = vlib.printed(mc, "CASE")
        if len(cases) < 100:
            raise vlib.ToolError("Gen produced only %d cases" % len(cases))
    else:
        mc = ""
        cases = [json.dumps(r) for r in replay_rows]
    vlib.write_ndjson(os.path.join(wd, "cases.ndjson"), cases)
    res = os.path.join(wd, "res.ndjson")
    vlib.run_vh(["codec", os.path.join(wd, "cases.ndjson"), res])
    rows = vlib.read_ndjson(res)
    out = vlib.tlc("codec/CodecTrace", wd=wd, workers=1, env={"TRACE": res}, deque=True, xmx="6g", timeout=3000)
    if "VALIDATED" not in out:
        raise vlib.ToolError("trace validation did not consume every record")
    fails = []
    for f in vlib.printed_tuples(out, "FAIL"):
        clause, line = f[0], int(f[1])
        fails.append((clause, rows[line - 1]))
    # field-position projection: the decoded struct's named fields against the schema order of the specification
    sch = vlib.printed(mc, "SCHEMA") if mc else []
    if sch:
        schema = {v["name"]: v["f"] for v in json.loads(sch[0]).values()}
        for r in rows:
            if r["ty"] in schema and r.get("dbg"):
                bad = projection_mismatch(schema[r["ty"]], r["v"], r["dbg"])
                if bad:
                    r2 = dict(r)
                    r2["projection"] = bad
                    fails.append(("C05_FieldProjection", r2))
    return mc, cases, rows, fails


def split_fields(dbg):
    """'Name { a: X, b: Y }' -> {'a': 'X', 'b': 'Y'} (top level only)."""
    i = dbg.find("{")
    if i < 0:
        return {}
    body = dbg[i + 1:dbg.rfind("}")]
    out, depth, cur, instr, esc = {}, 0, "", False, False
    parts = []
    for ch in body:
        if instr:
            cur += ch
            if esc:
                esc = False
            elif ch == "\\":
                esc = True
            elif ch == '"':
                instr = False
            continue
        if ch == '"':
            instr = True
        if ch in "([{":
            depth += 1
        if ch in ")]}":
            depth -= 1
        if ch == "," and depth == 0:
            parts.append(cur)
            cur = ""
        else:
            cur += ch
    if cur.strip():
        parts.append(cur)
    for p in parts:
        if ":" in p:
            k, v = p.split(":", 1)
            out[k.strip()] = v.strip()
    return out


def projection_mismatch(fields, v, dbg):
    """Names of schema fields whose value in the decoded struct does not show the abstract value at that list position."""
    import re as _re
    got = split_fields(dbg)
    items = v["x"]["x"] if v.get("t") == "described" and v["x"].get("t") == "list" else None
    if items is None or not got:
        return []
    bad = []
    for i, fd in enumerate(fields):
        name = fd["n"].replace("-", "_")
        if name not in got:
            continue
        text = got[name]
        fv = items[i] if i < len(items) else {"t": "null"}
        t = fv["t"]
        if t == "null":
            if not fd["hasdef"] and not fd["mult"] and text != "None":
                bad.append(fd["n"])
        elif t in ("uint", "ushort", "ubyte", "ulong", "timestamp"):
            n = int.from_bytes(bytes(fv["x"]), "big")
            if not _re.search(r"(?<![0-9])%d(?![0-9])" % n, text) and not (t == "ubyte" and fd["n"].endswith("settle-mode")) and fd["n"] not in ("code", "durable"):
                bad.append(fd["n"])
        elif t == "bool":
            if ("true" if fv["b"] else "false") not in text.lower() and fd["n"] != "role":
                bad.append(fd["n"])
        elif t in ("string", "symbol"):
            sx = bytes(fv["x"]).decode("utf8", "replace")
            # restricted symbol types are rendered as enum variants, not as quoted text: only quoted renderings are compared
            if '"' in text and sx not in text and fd["n"] not in ("condition", "expiry-policy", "distribution-mode", "mechanism"):
                bad.append(fd["n"])
        elif text == "None":
            bad.append(fd["n"])
    return bad


def check(pid, tier, replay):
    replay_rows = None
    if replay:
        d = json.load(open(replay))["detail"]
        replay_rows = [d["case"]]
    mc, cases, rows, fails = pipeline(tier, replay_rows)
    verdict = vlib.Verdict(pid, tier)
    by_case = {}
    for c in cases:
        cj = json.loads(c)
        by_case[json.dumps(cj["v"], sort_keys=True)] = cj
    nclause = 0
    for clause, r in fails:
        if not clause.startswith(CLAUSES[pid]):
            continue
        nclause += 1
        key = "%s:%s:%s" % (clause, r["ty"], shape(r["v"]))
        facts = {k: r[k] for k in r if k not in ("v",)}
        verdict.fail(key, {"clause": clause, "type": r["ty"], "facts": facts, "case": by_case.get(json.dumps(r["v"], sort_keys=True))})
    gen, distinct = vlib.tlc_stats(mc) if mc else (len(cases), len(cases))
    kinds = {}
    for r in rows:
        kinds[r["ty"].split("/")[0]] = kinds.get(r["ty"].split("/")[0], 0) + 1
    nenc = sum(len(r["dec"]) for r in rows)
    sample = [json.loads(cases[i]) for i in (0, len(cases) // 2, len(cases) - 1)]
    for s in sample:
        s["encs"] = s["encs"][:2]
    ev = {
        "tier": tier, "level": "model_checking",
        "coverage": {
            "states": max(distinct, 1), "transitions": max(gen, 1),
            "traces_validated_against_impl": len(rows),
            "samples": sample,
            "evaluations": nenc + len(rows),
            "distinct_nontrivial": len(set(cases)),
            "rule": "one TLC state per abstract value / typed composite field pattern / message section layout from MC_Codec.tla; "
                    "each is emitted with every spec-valid encoding variant (4 width modes x descriptor form x trailing-null form); "
                    "distinct = distinct JSON cases; evaluations = spec encodings decoded by the implementation + records judged by CodecTrace.tla",
            "records_by_type": kinds,
            "clause_failures_total": nclause,
            "exhaustive": True,
        },
        "assumptions": ["abstract->Value builder and Debug-equality in the harness are trusted transcription",
                        "value space is the boundary-class palette of MC_Codec.tla, not all bit patterns"],
    }
    verdict.finish(ev)
