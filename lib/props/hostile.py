"""C15: a misbehaving peer cannot crash, wedge or spin an endpoint."""
from props import endpoint


def check(pid, tier, replay):
    gens = [("endpoint/HostileGen", "endpoint/HostileGen_client.cfg"), ("endpoint/HostileGen", "endpoint/HostileGen_listener.cfg")]
    endpoint.run(pid, tier, replay, ("C15_",), [("endpoint/ConnLife", None)], gens,
                 "catalogue of 18 malformed frames (size field 0 / 3 / 4 / 7 / 2^32-1 / over max / too short / too long, doff 0 / 1 / 3 / 255, type 2 / 255, garbage, 1300-deep nesting, "
                 "SASL body, truncated performative) and 16 protocol violations x 6 endpoint states x {client, listener}, each followed by a probe (send, close handshake, EOF); "
                 "distinct = distinct scripts")
