"""C14: failures propagate."""
import vlib
from props import endpoint


def check(pid, tier, replay):
    gens = [("endpoint/FailGen", "endpoint/FailGen_client.cfg"), ("endpoint/FailGen", "endpoint/FailGen_listener.cfg")]
    if not replay:
        wd = vlib.workdir("ep-C14-neg")
        if vlib.tlc_violation(vlib.tlc("endpoint/StopReason", cfg="endpoint/StopReason_bad.cfg", wd=wd, workers=2, timeout=300)) != "C14_ReasonVisible":
            raise vlib.ToolError("StopReason.tla no longer refutes close-before-reason (vacuous model)")
        if vlib.tlc_violation(vlib.tlc("endpoint/StopReason", cfg="endpoint/StopReason_kf.cfg", wd=wd, workers=2, timeout=300)) != "C14_Completes":
            raise vlib.ToolError("StopReason.tla no longer reproduces the open finding (outcome wait on a one-shot the application keeps alive)")
    endpoint.run(pid, tier, replay, ("C14_", "C13_PeerError"), [("endpoint/StopReason", "endpoint/StopReason.cfg")], gens,
                 "reference conversation (open, begin, attach sender, attach receiver, two batchable sends) cut after each of its 0..6 steps by each of 11 failures (EOF, EOF without "
                 "reading, reset, partial frame + EOF, close +-error, end +-error, detach of sender +-error, detach of receiver with error) with the step's own call, a send, a recv, a local close / end / detach or "
                 "nothing pending; then every handle is used again and dropped; client and listener; distinct = distinct scripts")
