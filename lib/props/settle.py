"""C02: settlement."""
from props import endpoint, receiver


def check(pid, tier, replay):
    names = ["da", "db", "dc", "lb"] if tier == "thorough" else ["a", "b", "lb"]
    gens = [("endpoint/SettleGen", "endpoint/SettleGen_%s.cfg" % n) for n in names] + receiver.gens(tier)[:2] + [("endpoint/SettleRaceGen", "endpoint/SettleRaceGen.cfg"), ("endpoint/StreamGen", "endpoint/StreamGen.cfg")] + endpoint.mix_gens(pid, tier)
    endpoint.run(pid, tier, replay, ("C02_",), [("endpoint/Settle", None), ("endpoint/SettleRace", "endpoint/SettleRace.cfg")], gens,
                 "two sending links on one session (attached by a client, and accepted by a listener); every sequence up to the depth bound over {batchable send on either link, pre-settled send, dispositions: single id, "
                 "ranges over several deliveries and both links, settled / unsettled terminal states, non-terminal received, await of the k-th outcome}, rcv-settle-mode first and "
                 "second; the schedule of SettleRace.tla replayed through the schedule point send.after_enqueue; receiver side: the RecvGen scripts (dispositions the EUT emits for accept / accept_all / auto-accept); distinct = distinct scripts" + endpoint.MIX_RULE,
                 negatives=[("endpoint/SettleRace", "endpoint/SettleRace_code.cfg", "C02_NothingLost")])
