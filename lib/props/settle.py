"""C02: settlement."""
import vlib
from props import endpoint, receiver, resume


def check(pid, tier, replay):
    names = ["da", "db", "dc", "lb", "x"] if tier == "thorough" else ["a", "b", "lb", "x"]
    gens = [("endpoint/SettleGen", "endpoint/SettleGen_%s.cfg" % n) for n in names] + receiver.gens(tier)[:2] + [("endpoint/SettleRaceGen", "endpoint/SettleRaceGen.cfg"), ("endpoint/StreamGen", "endpoint/StreamGen.cfg"), ("endpoint/ResumeSettleGen", "endpoint/ResumeSettleGen.cfg")] + endpoint.mix_gens(pid, tier)
    verdict = vlib.Verdict(pid, tier)
    # what a send resolves with when the link is resumed: the resumption table against the real decision function
    rinfo = resume.stage(verdict, replay)
    ev = endpoint.run(pid, tier, replay, ("C02_",), [("endpoint/Settle", None), ("endpoint/SettleRace", "endpoint/SettleRace.cfg")], gens,
                 "two sending links on one session (attached by a client, and accepted by a listener); every sequence up to the depth bound over {batchable send on either link, pre-settled send, dispositions: single id, "
                 "ranges over several deliveries and both links, settled / unsettled terminal states, non-terminal received, await of the k-th outcome}, rcv-settle-mode first and "
                 "second; the schedule of SettleRace.tla replayed through the schedule point send.after_enqueue; receiver side: the RecvGen scripts (dispositions the EUT emits for accept / accept_all / auto-accept); distinct = distinct scripts" + endpoint.MIX_RULE,
                 negatives=[("endpoint/SettleRace", "endpoint/SettleRace_code.cfg", "C02_NothingLost")], verdict=verdict, finish=False)
    ev["coverage"]["resumption_table"] = rinfo
    ev["coverage"]["states"] += rinfo.get("states", 0)
    ev["coverage"]["transitions"] += rinfo.get("transitions", 0)
    ev["coverage"]["rule"] += "; plus 16 resumption conversations (a sender with one unsettled delivery is detached without closing and resumed; the receiver's attach states that delivery as absent / null / received / each terminal outcome) whose awaited outcome must be the receiver's; plus every cell (local state x receiver's entry, 132 cells) of the link-resumption table of ResumeTable.tla put to the real resume_delivery through the hook verif::resume_decision"
    verdict.finish(ev)
