"""C16: cancelling a pending send or recv."""
from props import endpoint


def check(pid, tier, replay):
    names = ["dra", "drb", "dsa", "dsb", "sr", "mx", "dpk", "dwn"] if tier == "thorough" else ["ra", "rb", "sa", "sb", "sr", "mx", "pk", "wn"]
    gens = [("endpoint/CancelGen", "endpoint/CancelGen_%s.cfg" % n) for n in names] + endpoint.mix_gens(pid, tier)
    endpoint.run(pid, tier, replay, ("C16_", "C02_OwnOutcome", "C02_Resolves_Q", "C10_Exact", "C10_NotBefore", "C10_NoSpuriousError", "C08_Wake", "C07_Fifo", "C11_ContinuationId"), [("endpoint/Cancel", None)], gens,
                 "recv side: every sequence up to the depth bound over {recv, cancel the pending recv, 1-frame delivery, first / second frame of a 2-frame delivery}, auto-accept on and off, "
                 "closed by enough recv calls to take everything; send side: every sequence over {unsettled send of 1 frame / 3 link-level frames / 4 transport frames, send cancelled "
                 "after 30 scheduler turns, cancel, yield, grant 1 / 3 credits, settle the oldest delivery} with channel capacities 1 (and 256, where a send is never suspended between its frames) and a transport pipe of 4 MiB or 200 bytes, sends dropped after 1 / 2 / 30 scheduler turns, closed "
                 "by a generous grant and two further sends; window part: the peer's session window holds one frame, every sequence over {send of 1 / 3 link-level frames, cancel the pending send, reopen the window to 20 / 1, settle, yield}; parked part: every sequence over {batchable send, a send frozen after its first poll behind a full channel while a grant / a settlement of the oldest "
                 "delivery is processed and then dropped, settle the oldest, yield}, closed by two sends that live on the credit granted meanwhile, one settling disposition for everything and the outcomes of all batchable sends; distinct = distinct scripts" + endpoint.MIX_RULE)
