"""C06: MC_Framing.tla + StreamDec.tla (model checks) ; FrameGen.tla -> vh frame -> FramingTrace.tla."""
import json
import os

import vlib


SASL_KEEP = {"Init", "ApiCall", "ApiRet", "PHeader", "PSasl", "PFrame", "PRaw", "EHeader", "ESasl", "EFrame", "EEof", "PEof", "End", "Spin", "Mark"}


def handshake_stage(pid, tier, replay, verdict):
    """A live listener behind a SASL layer: the successful exchanges of SaslGen.tla, played once frame by frame and once with everything the
    peer has to say (SASL header, init, AMQP header, open) written in one piece.  Judged by SaslTrace.tla (C06_SplitIndependent)."""
    from props import endpoint
    gens = [("sasl/SaslGen", "sasl/SaslGen_lp.cfg"), ("sasl/SaslGen", "sasl/SaslGen_la.cfg")]
    return endpoint.run(pid, tier, replay, ("C06_",), [], gens, "", trace_spec="sasl/SaslTrace", keep=lambda r: r["ev"] in SASL_KEEP,
                        verdict=verdict, finish=False)


def check(pid, tier, replay):
    if replay and "script" in json.load(open(replay)).get("detail", {}):
        verdict = vlib.Verdict(pid, tier)
        verdict.finish(handshake_stage(pid, tier, replay, verdict))
        return
    wd = vlib.workdir("framing-" + tier)
    vlib.build_harness()
    deep = tier == "thorough"
    states = trans = 0
    verdict = vlib.Verdict(pid, tier)
    if not replay:
        # 1. the design's splitting rule against the reference clauses, all payload lengths / performative lengths
        out = vlib.tlc("framing/MC_Framing", cfg="framing/MC_Framing_deep.cfg" if deep else None, wd=wd, workers=8, timeout=3000)
        v = vlib.tlc_violation(out)
        if v:
            verdict.fail("model:MC_Framing:" + v, {"tlc": out[-3000:]})
        g, d = vlib.tlc_stats(out)
        states += d
        trans += g
        # 2. the stream reader over all partitions
        out = vlib.tlc("framing/StreamDec", cfg="framing/StreamDec_deep.cfg" if deep else None, wd=wd, workers=4, timeout=3000)
        v = vlib.tlc_violation(out)
        if v:
            verdict.fail("model:StreamDec:" + v, {"tlc": out[-3000:]})
        g, d = vlib.tlc_stats(out)
        states += d
        trans += g
    # 3. Gen -> Exec -> Validate
    gen = vlib.tlc("framing/FrameGen", cfg="framing/FrameGen_deep.cfg" if deep else None, wd=wd, workers=4, timeout=3000)
    cases = vlib.printed(gen, "CASE")
    stream = vlib.printed(gen, "STREAM")[0]
    if replay:
        cases = [json.dumps(json.load(open(replay))["detail"]["case"])]
    elif len(cases) < 500:
        raise vlib.ToolError("Gen produced only %d cases" % len(cases))
    cp, sp, rp = (os.path.join(wd, n) for n in ("cases.ndjson", "stream.json", "res.ndjson"))
    vlib.write_ndjson(cp, cases)
    open(sp, "w").write(stream)
    vlib.run_vh(["frame", cp, sp, rp])
    rows = vlib.read_ndjson(rp)
    out = vlib.tlc("framing/FramingTrace", cfg="framing/FramingTrace_deep.cfg" if deep else None, wd=wd, workers=1, env={"TRACE": rp}, deque=True, timeout=3000)
    if "VALIDATED" not in out:
        raise vlib.ToolError("trace validation did not consume every record")
    for f in vlib.printed_tuples(out, "FAIL"):
        clause, line = f[0], int(f[1])
        r = rows[line - 1]
        c = json.loads(cases[line - 1])
        if r["k"] == "enc":
            key = "%s:enc:code%d:max%d:pl%s:more%s" % (clause, c["perf"]["d"]["x"][7], r["max"], r["pl"], r["more"])
        else:
            key = "%s:dec:%s" % (clause, r["mode"])
        verdict.fail(key, {"clause": clause, "record": r, "case": c})
    nparts = sum(r.get("nparts", 0) for r in rows)
    nframes = sum(len(r.get("frames", [])) for r in rows if r["k"] == "enc")
    multi = sum(1 for r in rows if r["k"] == "enc" and len(r["frames"]) > 1)
    ev = {
        "tier": tier, "level": "model_checking",
        "coverage": {
            "states": max(states, 1), "transitions": max(trans, 1), "traces_validated_against_impl": len(rows),
            "samples": [json.loads(cases[i]) for i in (0, len(cases) // 3, len(cases) - 1)],
            "evaluations": len(rows) + nparts, "distinct_nontrivial": len(set(cases)),
            "rule": "enc: performative field patterns x channel x max-frame-size x payload length k*B+d relative to the body room; dec: every single cut, "
                    "uniform chunks 1..16 and pairs (thorough: triples) of cuts around frame / header boundaries of a five-frame stream; distinct = distinct cases",
            "frames_written_by_impl": nframes, "multi_frame_transfers": multi, "stream_partitions_replayed": nparts, "exhaustive": True,
        },
        "assumptions": ["frame header parser, performative extent and payload pattern matcher of the harness are trusted",
                        "the performative given to the sink is obtained by decoding the spec's encoding (decoder correctness is C05)"],
    }
    if not replay:
        ev2 = handshake_stage(pid, tier, None, verdict)
        c, c2 = ev["coverage"], ev2["coverage"]
        c["states"] += c2["states"]
        c["transitions"] += c2["transitions"]
        c["traces_validated_against_impl"] += c2["traces_validated_against_impl"]
        c["evaluations"] += c2["evaluations"]
        c["handshake_scripts"] = c2["traces_validated_against_impl"]
        c["rule"] += "; plus the successful SASL exchanges of SaslGen.tla against a live listener, frame by frame and with the whole client side written in one piece"
        # 5. incoming frames above the size the peer itself advertised but within what the endpoint advertised, against a live endpoint
        from props import endpoint
        ev3 = endpoint.run(pid, tier, None, ("C06_", "C10_Exact", "C10_NoSpuriousError", "C12_NoSpontaneousError"), [],
                           [("endpoint/BigFrameGen", "endpoint/BigFrameGen_c.cfg"), ("endpoint/BigFrameGen", "endpoint/BigFrameGen_l.cfg")], "", verdict=verdict, finish=False)
        c["traces_validated_against_impl"] += ev3["coverage"]["traces_validated_against_impl"]
        c["evaluations"] += ev3["coverage"]["evaluations"]
        c["rule"] += "; plus single-frame deliveries of 300 .. 3000 bytes from a peer that advertised max-frame-size 512 to an endpoint that advertised 4096 (client and listener)"
    verdict.finish(ev)
