"""C04: MC_Decode.tla (Gen) -> vh decode in a restartable child (Exec + monitors) -> DecodeTrace.tla (Validate)."""
import json
import os
import subprocess

import vlib

EP = ["value", "value_rd", "perf", "perf_rd", "sasl", "msg", "msg_rd", "dstate", "error", "source", "lazy", "framedec", "saslcodec", "framehdr", "lazy_rd"]


ZW = {0x40, 0x41, 0x42, 0x43, 0x44, 0x45}


def classify(r):
    """Class names used only to match known findings (never to decide a verdict)."""
    st = set(r["st"])
    if len(st) == 1 and list(st)[0] not in ("ok", "err", "panic"):
        return list(st)[0]
    b = r["b"]
    if len(b) >= 4 and b[0] == 0xE0 and b[3] in ZW and b[2] >= 3:
        return "zw-array"
    if len(b) >= 10 and b[0] == 0xF0 and b[9] in ZW and int.from_bytes(bytes(b[5:9]), "big") >= 3:
        return "zw-array"
    return None


def exec_cases(wd, cases_path, ncases):
    """Run the decoders in child processes; a child that dies (stack overflow, refused allocation)
    is attributed to the case it was working on and the run resumes after it."""
    out = os.path.join(wd, "res.ndjson")
    open(out, "w").close()
    done = 0
    aborts = 0
    cpu_deaths = 0
    cases = open(cases_path).read().splitlines()
    while done < ncases:
        p = subprocess.run([vlib.VH, "decode", cases_path, out, str(done)], stdout=subprocess.PIPE, stderr=subprocess.PIPE, text=True, timeout=3000)
        n = sum(1 for _ in open(out))
        if p.returncode == 0:
            if n != ncases:
                raise vlib.ToolError("decode wrote %d of %d records" % (n, ncases))
            break
        if p.returncode == 2 and "tool error" in p.stderr:
            raise vlib.ToolError(p.stderr[-500:])
        # the child died on case index n: run that input through every entry point in a child of its own, so that the record names
        # the decoders that die (and keeps the verdicts of those that do not)
        c = json.loads(cases[n])
        fam = c["k"] == "family"
        rec = None
        st, idem, whys = [], [], []
        for i in range(len(EP)):
            one = os.path.join(wd, "one.ndjson")
            open(one, "w").close()
            try:
                q = subprocess.run([vlib.VH, "decode", cases_path, one, str(n), str(i)], stdout=subprocess.PIPE, stderr=subprocess.PIPE, text=True, timeout=600)
                rc, err = q.returncode, q.stderr
            except subprocess.TimeoutExpired:
                raise vlib.ToolError("isolated decode of case %d entry point %s did not end" % (n, EP[i]))
            if rc == 0:
                r1 = vlib.read_ndjson(one)[0]
                st.append(r1["st"][i]); idem.append(r1["idem"][i])
                if i == 0:
                    rec = r1
            else:
                if rc == 2 and "tool error" in err:
                    raise vlib.ToolError(err[-500:])
                why = "alloc-refused" if "VH-ALLOC-REFUSED" in err else "cpu-exceeded" if "VH-CPU-EXCEEDED" in err else "stack-overflow" if "overflowed its stack" in err else "abort-%d" % rc
                st.append(why); idem.append("na"); whys.append(why)
        if not whys:
            # every entry point survives on its own: the death depends on what ran before it in the same process
            whys = ["abort-in-sequence"]
            st = ["abort-in-sequence"] * len(EP)
        base = rec or {"k": c["k"], "src": c["src"], "b": [] if fam else c["b"], "n": 0 if fam else len(c["b"]), "arg": c["b"][0] if fam else 0, "v": {"t": "null"}, "peak_kb": 0}
        rec = dict(base, st=st, idem=idem, cpu_ms=30000 if "cpu-exceeded" in whys else 0, panic=",".join(sorted(set(whys))))
        with open(out, "a") as f:
            f.write(json.dumps(rec) + "\n")
        done = n + 1
        aborts += 1
        cpu_deaths += 1 if "cpu-exceeded" in whys else 0
        if aborts > 200:
            raise vlib.ToolError("more than 200 child aborts")
        if cpu_deaths >= 3:
            # every further hang costs its full CPU budget once per entry point: three are enough to report, the rest of the inputs is left out
            print("decode: three inputs exceeded the CPU budget; %d of %d inputs were run" % (done, ncases), flush=True)
            break
    return out


def check(pid, tier, replay):
    wd = vlib.workdir("decode-" + tier)
    vlib.build_harness()
    if replay:
        cases = [json.dumps(json.load(open(replay))["detail"]["case"])]
        mc = ""
    else:
        mc = vlib.tlc("codec/MC_Decode", cfg="codec/MC_Decode.cfg" if tier == "quick" else "codec/MC_Decode_deep.cfg", wd=wd, workers=8, timeout=3000, xmx="16g")
        cases = vlib.printed(mc, "CASE")
        if len(cases) < 1000:
            raise vlib.ToolError("Gen produced only %d inputs" % len(cases))
    cp = os.path.join(wd, "cases.ndjson")
    vlib.write_ndjson(cp, cases)
    res = exec_cases(wd, cp, len(cases))
    rows = vlib.read_ndjson(res)
    cases = cases[:len(rows)]
    # validate in shards so that one TLC run stays small
    verdict = vlib.Verdict(pid, tier)
    shard = 20000
    nfail = 0
    for s in range(0, len(rows), shard):
        sp = os.path.join(wd, "shard.ndjson")
        vlib.write_ndjson(sp, rows[s:s + shard])
        out = vlib.tlc("codec/DecodeTrace", wd=wd, workers=1, env={"TRACE": sp}, deque=True, xmx="8g", timeout=3000)
        if "VALIDATED" not in out:
            raise vlib.ToolError("trace validation did not consume every record")
        for f in vlib.printed_tuples(out, "FAIL"):
            clause, line = f[0], int(f[1])
            r = rows[s + line - 1]
            bad = [classify(r)] if classify(r) else sorted(set("%s=%s" % (EP[i], x) for i, x in enumerate(r["st"]) if x not in ("ok", "err")) |
                         set("%s~%s" % (EP[i], x) for i, x in enumerate(r["idem"]) if x not in ("ok", "na")))
            key = "%s:%s:%s:%s" % (clause, r["src"], r["arg"], ",".join(bad))
            nfail += 1
            verdict.fail(key, {"clause": clause, "record": r, "case": json.loads(cases[s + line - 1])})
    gen, distinct = vlib.tlc_stats(mc) if mc else (len(cases), len(cases))
    accepted = sum(1 for r in rows if r["st"][0] == "ok")
    ev = {
        "tier": tier, "level": "model_checking",
        "coverage": {
            "states": max(distinct, 1), "transitions": max(gen, 1), "traces_validated_against_impl": len(rows),
            "samples": [json.loads(cases[i]) for i in (1, len(cases) // 3, len(cases) - 1)],
            "evaluations": len(rows) * len(EP), "distinct_nontrivial": len(set(cases)),
            "rule": "inputs = all byte strings up to MaxShort over the 46-symbol alphabet of MC_Decode.tla + every truncation / single-byte corruption of "
                    "the seed encodings (narrow and wide) + message corruptions + parametric nesting / huge-length families; each input goes through 13 "
                    "decoder entry points; distinct = distinct inputs",
            "inputs_accepted_by_impl": accepted, "entry_points": EP, "clause_failures_total": nfail, "exhaustive": True,
        },
        "assumptions": ["panic / abort / allocation / CPU monitors of the harness are trusted", "debug-assertions and overflow checks are on in the harness profile",
                        "stack budget 2 MiB (tokio worker thread default)"],
    }
    verdict.finish(ev)
