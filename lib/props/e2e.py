"""C01: end-to-end delivery between a real client and a real listener."""
import json
import os
import re

import vlib


def check(pid, tier, replay):
    wd = vlib.workdir("e2e-%s" % tier)
    vlib.build_harness()
    verdict = vlib.Verdict(pid, tier)
    states = trans = 0
    cases = []
    if replay:
        cases = [json.dumps(json.load(open(replay))["detail"]["case"])]
    else:
        for cfg in ["e2e/E2E.cfg", "e2e/E2E_b.cfg"]:
            out = vlib.tlc("e2e/E2E", cfg=cfg, wd=wd, workers=8, timeout=3000, extra=["-coverage", "1"])
            v = vlib.tlc_violation(out)
            if v:
                verdict.fail("model:E2E:%s" % v, {"tlc": out[-4000:]})
            g, d = vlib.tlc_stats(out)
            states += d
            trans += g
        out = vlib.tlc("e2e/E2E", cfg="e2e/E2E_bad.cfg", wd=wd, workers=4, timeout=600)
        if vlib.tlc_violation(out) != "C01_Prefix":
            raise vlib.ToolError("E2E.tla no longer refutes current-before-buffered (vacuous model)")
        out = vlib.tlc("e2e/E2EGen", cfg="e2e/E2EGen%s.cfg" % ("_deep" if tier == "thorough" else ""), wd=wd, workers=4, timeout=3000)
        cases = vlib.printed(out, "CASE")
        if not cases:
            raise vlib.ToolError("E2EGen produced no cases")
    cp, tp = os.path.join(wd, "cases.ndjson"), os.path.join(wd, "trace.ndjson")
    vlib.write_ndjson(cp, cases)
    open(tp, "w").close()
    vlib.run_vh(["e2e", cp, tp], timeout=6000)
    rows = vlib.read_ndjson(tp)
    out = vlib.tlc("e2e/E2ETrace", wd=wd, workers=1, env={"TRACE": tp}, deque=True, xmx="16g", timeout=3000)
    if "VALIDATED" not in out:
        raise vlib.ToolError("trace validation did not consume every line")
    delivered = sum(1 for t in vlib.printed_tuples(out, "STAT") if t[0] == "delivered")
    seen = set()
    for f in sorted(set(tuple(x) for x in vlib.printed_tuples(out, "FAIL")), key=lambda x: int(x[1])):
        clause, line, detail = f[0], int(f[1]), (f[2] if len(f) > 2 else "")
        r = rows[line - 1]
        key = "%s:%s" % (clause, detail) if detail else clause
        if detail in ("RecvErr", "SetupErr"):
            # name the error and the corner of the configuration space: a known finding must not cover other ways of losing a message
            case = json.loads(cases[r["sc"]])
            m = re.match(r"[A-Za-z]+", r.get("err", "") or "")
            key = "%s:%s:credit=%s:dir=%s" % (key, m.group(0) if m else "unknown", case.get("credit"), case.get("dir"))
        if (r["sc"], key) in seen:
            continue
        seen.add((r["sc"], key))
        verdict.fail(key, {"clause": clause, "detail": detail, "trace_line": line, "case": json.loads(cases[r["sc"]]), "trace": [x for x in rows if x["sc"] == r["sc"]][:300]})
    if not replay and delivered == 0 and not seen:
        raise vlib.ToolError("vacuous run: no case delivered everything")
    ev = {
        "tier": tier, "level": "model_checking",
        "coverage": {"states": max(states, 1), "transitions": max(trans, 1), "traces_validated_against_impl": len(cases), "evaluations": len(rows),
                     "distinct_nontrivial": len(set(cases)), "samples": [json.loads(cases[i]) for i in sorted(set([0, len(cases) // 2, len(cases) - 1]))][:3],
                     "cases_fully_delivered": delivered, "trace_events": len(rows), "exhaustive": True,
                     "rule": "every configuration that differs from the base in at most 2 (thorough: 3) of 18 parameters, all palette values: max-frame-size of either side 512..64Ki, "
                             "incoming / outgoing windows 1..5000, credit Manual / Auto(1,2,10,200), snd / rcv settle modes, channel capacities 1 / 2 / 256, transport pipe 64 B..64 KiB, "
                             "byte-stream chunk patterns (1 byte, 3+7, 500+1+12, whole), direction client->listener and listener->client, sequential and pipelined sends, auto-accept, "
                             "one to three concurrent links on one or two sessions, four message sequences (all section combinations, 0 B..20 KB, 25 small, sizes around the frame boundary); thorough adds the multi-threaded runtime"},
        "assumptions": ["single-threaded lock-step runs sample the schedule space through chunk patterns and capacities; the multi-threaded runs (thorough) add real preemption but are not exhaustive",
                        "the receiving application accepts every delivery"],
    }
    verdict.finish(ev)
