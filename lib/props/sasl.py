"""C19: SASL -- no connection without successful authentication; SCRAM is mutual."""
from props import endpoint

KEEP = {"Init", "ApiCall", "ApiRet", "PHeader", "PSasl", "PFrame", "PRaw", "EHeader", "ESasl", "EFrame", "EEof", "PEof", "End", "Spin", "Mark"}


def check(pid, tier, replay):
    d = "d" if tier == "thorough" else ""
    names = ["lp", "la", "ls", "cs", "cp", "ca"]
    gens = [("sasl/SaslGen", "sasl/SaslGen_%s%s.cfg" % (d, n)) for n in names]
    if tier == "thorough":
        gens += [("sasl/SaslGen", "sasl/SaslGen_%s.cfg" % n) for n in ["ls1", "ls5", "cs1"]]
    models = [("sasl/Sasl", "sasl/Sasl_%s.cfg" % n) for n in ["lp", "ls", "cs", "lpk", "lsk", "csk", "cpk"]]
    negatives = [("sasl/Sasl", "sasl/Sasl_reach_l.cfg", "NeverAmqp"), ("sasl/Sasl", "sasl/Sasl_reach_c.cfg", "NeverAmqp")]
    endpoint.run(pid, tier, replay, ("C19_",), models, gens,
                 "every frame sequence of the adversary of Sasl.tla up to the length bound (4 frames towards a listener, 5 towards a client, one probe frame after the ideal machine "
                 "has decided), for a listener configured with PLAIN / ANONYMOUS / SCRAM-SHA-256 (thorough: also SHA-1, SHA-512) and a client with the same profiles; credentials equal to, "
                 "prefix of, extension of, differing in case from the configured ones, empty, with embedded NUL, with trailing fields; SCRAM messages with each attribute altered, dropped, "
                 "reordered; every outcome code with every kind of additional-data; distinct = distinct scripts",
                 trace_spec="sasl/SaslTrace", keep=lambda r: r["ev"] in KEEP, require_stats=("authenticated", "refused"), negatives=negatives)
