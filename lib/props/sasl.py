"""C19: SASL -- no connection without successful authentication; SCRAM is mutual."""
import os

import vlib
from props import endpoint

KEEP = {"Init", "ApiCall", "ApiRet", "PHeader", "PSasl", "PFrame", "PRaw", "EHeader", "ESasl", "EFrame", "EEof", "PEof", "End", "Spin", "Mark"}


def replay_stage(verdict, replay):
    """C19_NoReplay: Replay.tla (fresh server nonce per exchange; refuted for a nonce drawn once per listener) and `vh replay` against the real acceptor."""
    info = {"rows": 0}
    if replay:
        return info
    wd = vlib.workdir("replay-" + verdict.tier)
    vlib.build_harness()
    out = vlib.tlc("sasl/Replay", wd=wd, workers=2)
    if vlib.tlc_violation(out):
        verdict.fail("model:Replay:%s" % vlib.tlc_violation(out), {"tlc": out[-2000:]})
    if vlib.tlc_violation(vlib.tlc("sasl/Replay", cfg="sasl/Replay_bad.cfg", wd=wd, workers=2)) != "C19_NoReplay":
        raise vlib.ToolError("Replay.tla no longer refutes a server nonce drawn once per listener (vacuous model)")
    rp = os.path.join(wd, "replay.ndjson")
    vlib.run_vh(["replay", rp], timeout=600)
    rows = vlib.read_ndjson(rp)
    out = vlib.tlc("sasl/ReplayTrace", wd=wd, workers=1, env={"TRACE": rp}, deque=True)
    if "VALIDATED" not in out:
        raise vlib.ToolError("ReplayTrace did not consume every record")
    stats = [t for t in vlib.printed_tuples(out, "STAT")]
    fails = vlib.printed_tuples(out, "FAIL")
    for f in fails:
        verdict.fail("%s:%s" % (f[0], f[2]), {"clause": f[0], "record": rows[int(f[1]) - 1]})
    # vacuity: every honest login must have succeeded and the PLAIN control must have opened (a replay that cannot open anything shows nothing)
    if not fails and (sum(1 for t in stats if t[0] == "login") < len(rows) or not any(t[0] == "control" for t in stats)):
        raise vlib.ToolError("vacuous replay run: an honest login failed or the PLAIN control did not open")
    info["rows"] = len(rows)
    info["states"], info["transitions"] = vlib.tlc_stats(out)[1], vlib.tlc_stats(out)[0]
    return info


def check(pid, tier, replay):
    d = "d" if tier == "thorough" else ""
    names = ["lp", "la", "ls", "cs", "cp", "ca"]
    gens = [("sasl/SaslGen", "sasl/SaslGen_%s%s.cfg" % (d, n)) for n in names]
    if tier == "thorough":
        gens += [("sasl/SaslGen", "sasl/SaslGen_%s.cfg" % n) for n in ["ls1", "ls5", "cs1"]]
    models = [("sasl/Sasl", "sasl/Sasl_%s.cfg" % n) for n in ["lp", "ls", "cs", "lpk", "lsk", "csk", "cpk"]]
    negatives = [("sasl/Sasl", "sasl/Sasl_reach_l.cfg", "NeverAmqp"), ("sasl/Sasl", "sasl/Sasl_reach_c.cfg", "NeverAmqp")]
    verdict = vlib.Verdict(pid, tier)
    rinfo = replay_stage(verdict, replay)
    ev = endpoint.run(pid, tier, replay, ("C19_",), models, gens,
                 "every frame sequence of the adversary of Sasl.tla up to the length bound (4 frames towards a listener, 5 towards a client, one probe frame after the ideal machine "
                 "has decided), for a listener configured with PLAIN / ANONYMOUS / SCRAM-SHA-256 (thorough: also SHA-1, SHA-512) and a client with the same profiles; credentials equal to, "
                 "prefix of, extension of, differing in case from the configured ones, empty, with embedded NUL, with trailing fields; SCRAM messages with each attribute altered, dropped, "
                 "reordered; every outcome code with every kind of additional-data; distinct = distinct scripts",
                 trace_spec="sasl/SaslTrace", keep=lambda r: r["ev"] in KEEP, require_stats=("authenticated", "refused"), negatives=negatives, verdict=verdict, finish=False)
    ev["coverage"]["replay"] = rinfo
    ev["coverage"]["rule"] += "; plus, per SCRAM variant and for PLAIN as the control, an honest login at a listener whose client bytes are recorded and written to a second connection of the same listener (C19_NoReplay)"
    verdict.finish(ev)
