"""Link resumption on the sending side (AMQP 1.0 2.6.13): Resume.tla (TLC: the table is sound in a world that breaks at any moment) ->
every cell of ResumeTable.tla put to the real `resume_delivery` through the cfg hook verif::resume_decision -> ResumeTrace.tla.
A stage of the C02 check: the cells in which the receiver reports a terminal outcome decide what the pending send resolves with."""
import os

import vlib


def stage(verdict, replay):
    """Returns a dict for the evidence file.  Failures of C02_ResumeOutcome go to the verdict; X_ResumeDecision is an observation."""
    wd = vlib.workdir("resume-" + verdict.tier)
    vlib.build_harness()
    info = {"cells": 0, "observations": []}
    if replay:
        return info
    out = vlib.tlc("resume/Resume", wd=wd, workers=4, extra=["-coverage", "1"])
    v = vlib.tlc_violation(out)
    if v:
        verdict.fail("model:Resume:%s" % v, {"tlc": out[-3000:]})
    info["states"], info["transitions"] = vlib.tlc_stats(out)[1], vlib.tlc_stats(out)[0]
    neg = vlib.tlc("resume/Resume", cfg="resume/Resume_bad.cfg", wd=wd, workers=2)
    if vlib.tlc_violation(neg) != "R_ResumePoint":
        raise vlib.ToolError("Resume.tla no longer refutes a sender that resumes what it has discarded (vacuous model)")
    cells = vlib.printed(vlib.tlc("resume/ResumeGen", wd=wd, workers=2), "CELL")
    if len(cells) < 100:
        raise vlib.ToolError("ResumeGen produced only %d cells" % len(cells))
    cp, rp = os.path.join(wd, "cells.ndjson"), os.path.join(wd, "res.ndjson")
    vlib.write_ndjson(cp, cells)
    vlib.run_vh(["resume", cp, rp])
    rows = vlib.read_ndjson(rp)
    out = vlib.tlc("resume/ResumeTrace", wd=wd, workers=1, env={"TRACE": rp}, deque=True)
    if "VALIDATED" not in out:
        raise vlib.ToolError("ResumeTrace did not consume every record")
    for f in vlib.printed_tuples(out, "FAIL"):
        clause, line = f[0], int(f[1])
        r = rows[line - 1]
        key = "%s:%s/%s:%s" % (clause, r["l"]["k"], r["r"]["k"], r["d"])
        if clause.startswith("C02_"):
            verdict.fail(key, {"clause": clause, "record": r})
        else:
            info["observations"].append(key)
            print("OBSERVATION (not a listed property): %s" % key)
    info["cells"] = len(rows)
    return info
