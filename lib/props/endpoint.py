"""Shared Gen -> Exec -> Validate pipeline for the endpoint properties (C02, C07-C13, C17 ...).
Each property supplies: MC models to check, Gen configurations producing scripts, clause prefixes it owns."""
import json
import os
import subprocess

import vlib


def exec_scripts(wd, scripts):
    """Run scripts through `vh ep` in restartable children. Returns (rows, spins) where spins is a list of script indexes
    at which the endpoint kept a task runnable (the lock-step settle never returned)."""
    sp = os.path.join(wd, "scripts.ndjson")
    out = os.path.join(wd, "trace.ndjson")
    vlib.write_ndjson(sp, scripts)
    open(out, "w").close()
    done = 0
    spins = []
    while done < len(scripts):
        p = subprocess.run([vlib.VH, "ep", sp, out, str(done)], stdout=subprocess.PIPE, stderr=subprocess.PIPE, text=True, timeout=3000)
        if p.returncode == 0:
            break
        if p.returncode == 3 and "VH-SPIN" in p.stderr:
            k = int(p.stderr.split("VH-SPIN script=")[1].split()[0])
            spins.append(k)
            with open(out, "a") as f:
                f.write(json.dumps({"ev": "Init", "side": "client", "sc": k, "i": 0, "t": 0}) + "\n")
                f.write(json.dumps({"ev": "Spin", "sc": k, "i": 0, "t": 0}) + "\n")
            done = k + 1
            if len(spins) > 50:
                raise vlib.ToolError("more than 50 scripts spin")
            continue
        vlib.log(p.stderr[-2000:])
        raise vlib.ToolError("vh ep exited %d" % p.returncode)
    return vlib.read_ndjson(out), spins


def run(pid, tier, replay, prefixes, models, gens, level_rule, keyfn=None, extra_scripts=None):
    """models: list of (module, cfg) checked with TLC (violation => failure 'model:...').
    gens: list of (module, cfg) whose SCRIPT lines are executed."""
    wd = vlib.workdir("ep-%s-%s" % (pid, tier))
    vlib.build_harness()
    verdict = vlib.Verdict(pid, tier)
    states = trans = 0
    if not replay:
        for mod, cfg in models:
            out = vlib.tlc(mod, cfg=cfg, wd=wd, workers=8, timeout=3000, extra=["-coverage", "1"])
            v = vlib.tlc_violation(out)
            if v:
                verdict.fail("model:%s:%s" % (os.path.basename(mod), v), {"tlc": out[-4000:]})
            g, d = vlib.tlc_stats(out)
            states += d
            trans += g
    scripts = []
    if replay:
        scripts = [json.dumps(json.load(open(replay))["detail"]["script"])]
    else:
        for mod, cfg in gens:
            out = vlib.tlc(mod, cfg=cfg, wd=wd, workers=4, timeout=3000)
            got = vlib.printed(out, "SCRIPT")
            if not got:
                raise vlib.ToolError("%s produced no scripts" % mod)
            scripts += got
            g, d = vlib.tlc_stats(out)
            states += d
            trans += g
        if extra_scripts:
            scripts += [json.dumps(x) for x in extra_scripts]
    rows, spins = exec_scripts(wd, scripts)
    tp = os.path.join(wd, "trace.ndjson")
    out = vlib.tlc("endpoint/EndpointTrace", wd=wd, workers=1, env={"TRACE": tp}, deque=True, xmx="16g", timeout=3000)
    if "VALIDATED" not in out:
        raise vlib.ToolError("trace validation did not consume every line")
    fails = sorted(set(tuple(x) for x in vlib.printed_tuples(out, "FAIL")), key=lambda x: int(x[1]))
    per_script = {}
    for clause, line, detail in [(f[0], int(f[1]), f[2] if len(f) > 2 else "") for f in fails]:
        if not clause.startswith(tuple(prefixes)):
            continue
        r = rows[line - 1]
        sc = r["sc"]
        key = (keyfn or default_key)(clause, detail, r, rows, line)
        per_script.setdefault((sc, key), (clause, line, detail))
    for (sc, key), (clause, line, detail) in per_script.items():
        script = json.loads(scripts[sc])
        trace = [x for x in rows if x["sc"] == sc]
        verdict.fail(key, {"clause": clause, "detail": detail, "trace_line": line, "script": script, "trace": trace[:400]})
    nq = sum(1 for r in rows if r["ev"] == "Quiesce")
    ev = {
        "tier": tier, "level": "model_checking",
        "coverage": {
            "states": max(states, 1), "transitions": max(trans, 1), "traces_validated_against_impl": len(scripts),
            "samples": [json.loads(scripts[i]) for i in sorted(set([0, len(scripts) // 2, len(scripts) - 1]))][:3],
            "evaluations": len(rows), "distinct_nontrivial": len(set(scripts)),
            "rule": level_rule, "trace_events": len(rows), "quiescence_points": nq, "scripts_spinning": len(spins),
            "clauses_owned": list(prefixes), "exhaustive": True,
        },
        "assumptions": ["lock-step execution on a paused clock samples the schedule space (script order, capacities), it does not enumerate task interleavings",
                        "frame parsing / payload identification in the harness is trusted transcription"],
    }
    verdict.finish(ev)


def default_key(clause, detail, r, rows, line):
    return "%s:%s" % (clause, detail) if detail else clause
