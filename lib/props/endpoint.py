"""Shared Gen -> Exec -> Validate pipeline for the endpoint properties (C02, C07-C13, C17 ...).
Each property supplies: MC models to check, Gen configurations producing scripts, clause prefixes it owns."""
import json
import os
import subprocess

import vlib


def exec_scripts(wd, scripts):
    """Run scripts through `vh ep` in restartable children. Returns (rows, spins) where spins is a list of script indexes
    at which the endpoint kept a task runnable (the lock-step settle never returned)."""
    sp = os.path.join(wd, "scripts.ndjson")
    out = os.path.join(wd, "trace.ndjson")
    vlib.write_ndjson(sp, scripts)
    open(out, "w").close()
    done = 0
    spins = []
    BATCH = 3000     # scripts per child process (each script's runtime keeps a few descriptors until the process ends)
    while done < len(scripts):
        p = subprocess.run([vlib.VH, "ep", sp, out, str(done), str(BATCH)], stdout=subprocess.PIPE, stderr=subprocess.PIPE, text=True, timeout=3000)
        if p.returncode == 0:
            done += BATCH
            continue
        if p.returncode == 3 and "VH-SPIN" in p.stderr:
            k = int(p.stderr.split("VH-SPIN script=")[1].split()[0])
            spins.append(k)
            with open(out, "a") as f:
                f.write(json.dumps({"ev": "Init", "side": "client", "sc": k, "i": 0, "t": 0}) + "\n")
                f.write(json.dumps({"ev": "Spin", "sc": k, "i": 0, "t": 0}) + "\n")
            done = k + 1
            if len(spins) > 50:
                raise vlib.ToolError("more than 50 scripts spin")
            continue
        vlib.log(p.stderr[-2000:])
        raise vlib.ToolError("vh ep exited %d" % p.returncode)
    return vlib.read_ndjson(out), spins


def run(pid, tier, replay, prefixes, models, gens, level_rule, keyfn=None, extra_scripts=None, trace_spec="endpoint/EndpointTrace", keep=None, require_stats=(), negatives=(),
        verdict=None, finish=True):
    """models: list of (module, cfg) checked with TLC (violation => failure 'model:...').
    gens: list of (module, cfg) whose SCRIPT lines are executed."""
    wd = vlib.workdir("ep-%s-%s" % (pid, tier))
    vlib.build_harness()
    # (a check that has stages of its own passes its verdict and finishes it itself)
    verdict = verdict or vlib.Verdict(pid, tier)
    states = trans = 0
    inductive_done = []
    if not replay:
        for mod, cfg in models:
            if cfg == "apalache":
                # an inductive invariant discharged by Apalache: unbounded counters, any number of steps
                bad = vlib.inductive(mod, wd, negatives=("CInitWindowAsIs", "CInitCreditAsIs"))
                if bad:
                    verdict.fail("model:%s:%s" % (os.path.basename(mod), bad), {"apalache": "obligation '%s' of the inductive argument failed" % bad})
                inductive_done.append(os.path.basename(mod))
                continue
            out = vlib.tlc(mod, cfg=cfg, wd=wd, workers=8, timeout=3000, extra=["-coverage", "1"])
            v = vlib.tlc_violation(out)
            if v:
                verdict.fail("model:%s:%s" % (os.path.basename(mod), v), {"tlc": out[-4000:]})
            g, d = vlib.tlc_stats(out)
            states += d
            trans += g
        # negative controls: configurations whose invariant must be violated (the model is not vacuous)
        for mod, cfg, inv in negatives:
            out = vlib.tlc(mod, cfg=cfg, wd=wd, workers=4, timeout=3000)
            if inv not in (vlib.tlc_violation(out) or ""):
                raise vlib.ToolError("negative control %s did not violate %s" % (cfg, inv))
    scripts = []
    if replay:
        scripts = [json.dumps(json.load(open(replay))["detail"]["script"])]
    else:
        for g in gens:
            mod, cfg = g[0], g[1]
            # a third element selects TLC's simulation mode: long random behaviours of a state-aware generator instead of exhaustive enumeration
            sim = g[2] if len(g) > 2 else None
            if sim:
                out = vlib.tlc(mod, cfg=cfg, wd=wd, workers=1, timeout=3000, simulate=sim["num"], depth=sim["depth"], seed_=sim.get("seed"))
            else:
                out = vlib.tlc(mod, cfg=cfg, wd=wd, workers=4, timeout=3000)
            got = vlib.printed(out, "SCRIPT")
            if not got:
                raise vlib.ToolError("%s produced no scripts" % mod)
            scripts += got
            g, d = vlib.tlc_stats(out)
            states += d
            trans += g
        if extra_scripts:
            scripts += [json.dumps(x) for x in extra_scripts]
    rows, spins = exec_scripts(wd, scripts)
    tp = os.path.join(wd, "trace.ndjson")
    if keep:
        rows = [r for r in rows if keep(r)]
        tp = os.path.join(wd, "trace.kept.ndjson")
        vlib.write_ndjson(tp, [json.dumps(r) for r in rows])
    # long traces are validated in chunks cut at script boundaries (every script starts with an Init row)
    CH = 300000
    cuts = [0]
    for i, r in enumerate(rows):
        if r["ev"] == "Init" and i - cuts[-1] >= CH:
            cuts.append(i)
    cuts.append(len(rows))
    stats = {}
    fails = []
    for a, b in zip(cuts, cuts[1:]):
        if a == b:
            continue
        cp = tp
        if len(cuts) > 2:
            cp = os.path.join(wd, "trace.chunk.ndjson")
            vlib.write_ndjson(cp, [json.dumps(r) for r in rows[a:b]])
        out = vlib.tlc(trace_spec, wd=wd, workers=1, env={"TRACE": cp}, deque=True, xmx="16g", timeout=3000)
        if "VALIDATED" not in out:
            raise vlib.ToolError("trace validation did not consume every line")
        for t in vlib.printed_tuples(out, "STAT"):
            stats[t[0]] = stats.get(t[0], 0) + 1
        for f in vlib.printed_tuples(out, "FAIL"):
            f[1] = str(int(f[1]) + a)
            fails.append(tuple(f))
    fails = sorted(set(fails), key=lambda x: int(x[1]))
    per_script = {}
    for clause, line, detail in [(f[0], int(f[1]), f[2] if len(f) > 2 else "") for f in fails]:
        if not clause.startswith(tuple(prefixes)):
            continue
        r = rows[line - 1]
        sc = r["sc"]
        key = (keyfn or default_key)(clause, detail, r, rows, line)
        per_script.setdefault((sc, key), (clause, line, detail))
    # rows of one script are contiguous: index them once
    first_row = {}
    for i, r in enumerate(rows):
        first_row.setdefault(r["sc"], i)
    reported = set()
    for (sc, key), (clause, line, detail) in per_script.items():
        # with very many failing scripts one replay per failing key is kept; the others fail the same way
        if key in reported and len(per_script) > 200:
            continue
        reported.add(key)
        script = json.loads(scripts[sc])
        a = first_row.get(sc, 0)
        trace = []
        for x in rows[a:a + 2000]:
            if x["sc"] != sc:
                break
            trace.append(x)
        verdict.fail(key, {"clause": clause, "detail": detail, "trace_line": line, "row_in_script": line - a, "script": script, "trace": trace[:400]})
    # vacuity is a tool error, but never hides a violation that was found
    if not replay and not per_script:
        for name in require_stats:
            if not stats.get(name):
                raise vlib.ToolError("vacuous run: no trace step counted as '%s'" % name)
    nq = sum(1 for r in rows if r["ev"] == "Quiesce")
    ev = {
        "tier": tier, "level": "model_checking",
        "coverage": {
            "states": max(states, 1), "transitions": max(trans, 1), "traces_validated_against_impl": len(scripts),
            "samples": [json.loads(scripts[i]) for i in sorted(set([0, len(scripts) // 2, len(scripts) - 1]))][:3],
            "evaluations": len(rows), "distinct_nontrivial": len(set(scripts)),
            "rule": level_rule, "trace_events": len(rows), "quiescence_points": nq, "scripts_spinning": len(spins),
            "clauses_owned": list(prefixes), "exhaustive": True, "stats": stats,
            "inductive_invariants_discharged_by_apalache": inductive_done,
        },
        "assumptions": ["lock-step execution on a paused clock samples the schedule space (script order, capacities), it does not enumerate task interleavings",
                        "frame parsing / payload identification in the harness is trusted transcription"],
    }
    if not finish:
        return ev
    verdict.finish(ev)


MIX_RULE = ("; plus long mixed histories sampled by TLC's simulation mode from MixGen.tla (a sane peer and application on two sending links and one receiving link of one session: "
            "sends of 1-8 frames, session flows with windows 0-50, link flows with grants / drain / echo / unset delivery-count that also move the session window, dispositions over ranges, "
            "incoming deliveries of 1-3 frames incl. aborted ones kept within the credit the endpoint issued, recv / single and batch disposals / set_credit / drain, "
            "settling dispositions of the sender, cancelled calls, close and re-attach; settle modes, windows, credit policy, id spaces next to 2^32, channel capacities and "
            "max-message-size drawn per script), client and listener side")


def mix_gens(pid, tier):
    """Two MixGen configurations (client / listener) in simulation mode; the seed differs per property so that the checks sample different histories."""
    base = vlib.seed() * 1000 + int(pid[1:])
    n = 1500 if tier == "thorough" else 120
    return [("endpoint/MixGen", "endpoint/MixGen_c.cfg", {"num": n, "depth": 63, "seed": base}),
            ("endpoint/MixGen", "endpoint/MixGen_l.cfg", {"num": n, "depth": 63, "seed": base + 500})]


def default_key(clause, detail, r, rows, line):
    return "%s:%s" % (clause, detail) if detail else clause
