"""C18: transactions on the listener side are atomic and isolated until discharge; the controller side puts the right ids on the wire."""
from props import endpoint

KEEP = {"Init", "ApiCall", "ApiRet", "PFrame", "EFrame", "EEof", "PEof", "PReset", "End", "Spin"}


def check(pid, tier, replay):
    names = ["da", "db", "dc"] if tier == "thorough" else ["a", "b", "c"]
    gens = [("txn/TxnGen", "txn/TxnGen_%s.cfg" % n) for n in names]
    gens += [("txn/TxnCtlGen", "txn/TxnCtlGen_%s.cfg" % ("d" if tier == "thorough" else "a"))]
    models = [("txn/Txn", "txn/Txn.cfg"), ("txn/Txn", "txn/Txn_seq.cfg")]
    negatives = [("txn/Txn", "txn/Txn_race.cfg", "NoLatePost")]
    endpoint.run(pid, tier, replay, ("C18_",), models, gens,
                 "resource side: every sequence up to the depth bound over {declare, post under the 1st / 2nd transaction (1 frame, 2 frames, second link), plain post, post under an "
                 "undeclared id, commit / rollback of either (repeated, after the control link went away), discharge of an undeclared id, control-link detach / re-attach, recv, a delivery sent by the resource and retired by the controller under a transaction or plainly, peer end, "
                 "discharge and post written back to back} with 0-2 transactions declared beforehand; controller side: every sequence over {declare two transactions, post, commit / "
                 "rollback answered with accepted or rejected, drop}; distinct = distinct scripts",
                 trace_spec="txn/TxnTrace", keep=lambda r: r["ev"] in KEEP, require_stats=("received", "declared", "discharge-refused", "post-refused", "retired"), negatives=negatives)
