"""Shared machinery for /verif/bin/vcheck: TLC runner, harness builder, evidence writer,
known-findings matcher.  Exit codes: 0 held, 1 violation (with a VIOLATION line), 2 tool error."""
import hashlib
import json
import os
import re
import shutil
import subprocess
import sys
import time

ROOT = os.path.dirname(os.path.dirname(os.path.abspath(__file__)))
SPEC = os.path.join(ROOT, "spec")
# Normal operation checks /repo. For evaluating seeded changes without touching /repo, VERIF_REPO names another checkout
# (a scratch worktree with the change applied); harness copy, work files, evidence and replays then live under VERIF_SCRATCH.
REPO = os.environ.get("VERIF_REPO", "/repo")
ALT = REPO != "/repo"
OUTROOT = os.environ.get("VERIF_SCRATCH", "/tmp/verif-alt") if ALT else ROOT
WORK = os.path.join(OUTROOT, "work")
HARNESS = os.path.join(OUTROOT, "harness") if ALT else os.path.join(ROOT, "harness")
VH = os.path.join(HARNESS, "target", "debug", "vh")
JAR = "/opt/veriftools/tla/tla2tools.jar:/opt/veriftools/tla/CommunityModules-deps.jar"
NCPU = os.cpu_count() or 4


class ToolError(Exception):
    pass


def log(*a):
    print(*a, file=sys.stderr, flush=True)


def seed():
    try:
        return int(os.environ.get("VERIF_SEED", "1"))
    except ValueError:
        return 1


def workdir(name):
    d = os.path.join(WORK, name)
    shutil.rmtree(d, ignore_errors=True)
    os.makedirs(d, exist_ok=True)
    return d


def build_harness():
    """Rebuild the harness (path dependencies on /repo's working tree, hooks cfg on)."""
    env = dict(os.environ, CARGO_NET_OFFLINE="true")
    if ALT:
        src = os.path.join(ROOT, "harness")
        os.makedirs(HARNESS, exist_ok=True)
        subprocess.run(["rsync", "-a", "--delete", "--exclude", "target", src + "/", HARNESS + "/"], check=True)
        ct = os.path.join(HARNESS, "Cargo.toml")
        open(ct, "w").write(open(os.path.join(src, "Cargo.toml")).read().replace('path = "/repo/', 'path = "%s/' % REPO))
    lock = os.path.join(HARNESS, "Cargo.lock")
    if not os.path.exists(lock):
        shutil.copy(os.path.join(REPO, "Cargo.lock"), lock)
    t = time.time()
    p = subprocess.run(["cargo", "build", "--offline", "--quiet"], cwd=HARNESS, env=env,
                       stdout=subprocess.PIPE, stderr=subprocess.STDOUT, text=True)
    if p.returncode != 0:
        log(p.stdout[-6000:])
        raise ToolError("harness build failed (the tree under /repo does not compile with the harness)")
    log("harness built in %.1fs" % (time.time() - t))
    return VH


def run_vh(args, timeout=1800, env=None, check=True, stdin=None):
    e = dict(os.environ)
    if env:
        e.update(env)
    p = subprocess.run([VH] + [str(a) for a in args], env=e, stdout=subprocess.PIPE, stderr=subprocess.PIPE,
                       text=True, timeout=timeout, input=stdin)
    if check and p.returncode != 0:
        log(p.stderr[-4000:])
        raise ToolError("vh %s exited %d" % (args[0], p.returncode))
    return p


def tlc(module, cfg=None, wd=None, workers=None, env=None, simulate=None, depth=None, timeout=1800,
        xmx="8g", deque=False, extra=None, seed_=None):
    """Run TLC on spec/<module>.tla.  Returns stdout.  Raises ToolError on parse / semantic / runtime errors."""
    mpath = module if os.path.isabs(module) else os.path.join(SPEC, module)
    if not mpath.endswith(".tla"):
        mpath += ".tla"
    cfg = cfg or mpath[:-4] + ".cfg"
    if not os.path.isabs(cfg):
        cfg = os.path.join(SPEC, cfg)
    wd = wd or workdir("tlc-" + os.path.basename(mpath)[:-4])
    os.makedirs(wd, exist_ok=True)
    md = os.path.join(wd, "md-%d" % int(time.time() * 1000))
    jopts = "-Xss1g"
    if deque:
        jopts += " -Dtlc2.tool.queue.IStateQueue=StateDeque"
    e = dict(os.environ, JAVA_TOOL_OPTIONS=jopts)
    if env:
        e.update({k: str(v) for k, v in env.items()})
    # every spec directory is on the library path so modules can EXTEND across areas
    libs = os.pathsep.join(os.path.join(SPEC, d) for d in sorted(os.listdir(SPEC)) if os.path.isdir(os.path.join(SPEC, d)))
    cmd = ["java", "-XX:+UseParallelGC", "-Xmx" + xmx, "-DTLA-Library=" + libs, "-cp", JAR, "tlc2.TLC",
           "-workers", str(workers or max(2, NCPU // 2)), "-metadir", md, "-cleanup", "-noGenerateSpecTE",
           "-config", cfg]
    if simulate:
        cmd += ["-simulate", "num=%d" % simulate]
        if depth:
            cmd += ["-depth", str(depth)]
        cmd += ["-seed", str(seed_ if seed_ is not None else seed())]
    if extra:
        cmd += extra
    cmd.append(mpath)
    t = time.time()
    try:
        p = subprocess.run(cmd, cwd=wd, env=e, stdout=subprocess.PIPE, stderr=subprocess.STDOUT, text=True, timeout=timeout)
    except subprocess.TimeoutExpired:
        raise ToolError("TLC timed out after %ds on %s" % (timeout, module))
    finally:
        shutil.rmtree(md, ignore_errors=True)
    out = p.stdout
    with open(os.path.join(wd, os.path.basename(mpath)[:-4] + ".out"), "w") as f:
        f.write(out)
    log("TLC %s: %.1fs rc=%d" % (os.path.basename(mpath), time.time() - t, p.returncode))
    # TLC exit codes: 0 ok, 10 assumption, 11 deadlock, 12 safety violation, 13 liveness violation; the rest are errors
    if p.returncode not in (0, 11, 12, 13):
        i = max(out.find("Semantic errors"), out.find("***Parse Error***"))
        log(out[i:i + 1500] if i >= 0 else out[-1500:])
        raise ToolError("TLC failed on %s (exit %d)" % (module, p.returncode))
    return out


def apalache(module, cinit, init, inv, length, wd, timeout=900):
    """Run apalache-mc check on spec/<module>.tla.  Returns "ok" or "violation"; anything else is a tool error."""
    mpath = os.path.join(SPEC, module + ".tla")
    out_dir = os.path.join(wd, "apalache-out")
    cmd = ["apalache-mc", "check", "--cinit=" + cinit, "--init=" + init, "--inv=" + inv, "--length=%d" % length, "--out-dir=" + out_dir, "--run-dir=" + os.path.join(wd, "apalache-run"), mpath]
    t = time.time()
    try:
        p = subprocess.run(cmd, cwd=wd, stdout=subprocess.PIPE, stderr=subprocess.STDOUT, text=True, timeout=timeout)
    except subprocess.TimeoutExpired:
        raise ToolError("Apalache timed out after %ds on %s (%s, %s)" % (timeout, module, init, inv))
    finally:
        shutil.rmtree(out_dir, ignore_errors=True)
    log("Apalache %s %s/%s/%s length %d: %.1fs rc=%d" % (os.path.basename(mpath), cinit, init, inv, length, time.time() - t, p.returncode))
    if "EXITCODE: OK" in p.stdout and p.returncode == 0:
        return "ok"
    if p.returncode == 12 and "violated" in p.stdout:
        return "violation"
    log(p.stdout[-2000:])
    raise ToolError("Apalache failed on %s (exit %d)" % (module, p.returncode))


def inductive(module, wd, negatives=()):
    """The three obligations of an inductive-invariant argument (Init => IndInv, IndInv /\\ Next => IndInv', IndInv => Safety) plus negative
    controls: constant initialisers for which the inductive step must fail.  Returns None or the name of the obligation that failed."""
    steps = [("base", "Init", "IndInv", 0), ("step", "IndInit", "IndInv", 1), ("safety", "IndInit", "Safety", 0)]
    for name, init, inv, n in steps:
        if apalache(module, "CInitCode", init, inv, n, wd) != "ok":
            return name
    for c in negatives:
        if apalache(module, c, "IndInit", "IndInv", 1, wd) != "violation":
            raise ToolError("negative control %s of %s is not refuted (the inductive argument is vacuous)" % (c, module))
    return None


def tlc_stats(out):
    """(generated, distinct) from a model-checking run; for -simulate the number of states checked."""
    ms = re.findall(r"^(\d+) states generated, (\d+) distinct states found", out, re.M)
    if ms:
        return int(ms[-1][0]), int(ms[-1][1])
    m = re.search(r"The number of states generated: (\d+)", out)
    if m:
        return int(m.group(1)), int(m.group(1))
    return 0, 0


def tlc_violation(out):
    """Name of a violated invariant / property reported by TLC itself, or None."""
    m = re.search(r"Error: Invariant (\S+) is violated", out)
    if m:
        return m.group(1)
    m = re.search(r"Error: Action property (\S+) is violated", out)
    if m:
        return m.group(1)
    m = re.search(r"Error: Temporal property (\S+) was violated", out)
    if m:
        return m.group(1)
    if "Error: Temporal properties were violated" in out:
        return "temporal"
    if "Error: Deadlock reached" in out:
        return "deadlock"
    return None


def printed(out, tag):
    """JSON payloads printed by the spec as  <<"TAG", "json">>  (PrintT of ToJson)."""
    res = []
    pre = '<<"%s", "' % tag
    for line in out.splitlines():
        if line.startswith(pre) and line.endswith('">>'):
            s = line[len(pre):-3]
            res.append(s.replace('\\"', '"').replace("\\\\", "\\"))
    return res


def printed_tuples(out, tag):
    """Tuples printed as <<"TAG", a, b, ...>> with simple atoms; returns lists of strings."""
    res = []
    pre = '<<"%s", ' % tag
    for line in out.splitlines():
        if line.startswith(pre) and line.endswith(">>"):
            body = line[len(pre):-2]
            res.append([x.strip().strip('"') for x in body.split(", ")])
    return res


def coverage_zero_actions(out):
    """Actions reported by -coverage 1 as never taken: list of names."""
    zero = []
    for m in re.finditer(r"<(\w+) line \d+, col \d+ to line \d+, col \d+ of module (\w+)>: (\d+):(\d+)", out):
        if int(m.group(4)) == 0 and int(m.group(3)) == 0:
            zero.append(m.group(1))
    return zero


# --------------------------------------------------------------------------- findings
def load_findings():
    with open(os.path.join(ROOT, "known_findings.json")) as f:
        return json.load(f)["findings"]


class Verdict:
    """Collects failures of one check run and turns them into the interface lines / exit code."""

    def __init__(self, pid, tier):
        self.pid = pid
        self.tier = tier
        self.t0 = time.time()
        self.failures = []     # (key, detail-dict)
        self.known_hit = {}    # finding key -> count
        self.findings = [f for f in load_findings() if f["property"] == pid and f["status"] == "open"]

    def fail(self, key, detail):
        """key: 'clause:shape' string identifying the failing input class."""
        for f in self.findings:
            if re.fullmatch(f["key"], key):
                self.known_hit[f["key"]] = self.known_hit.get(f["key"], 0) + 1
                return
        self.failures.append((key, detail))

    def finish(self, evidence):
        for f in self.findings:
            if f["key"] in self.known_hit:
                print("KNOWN-FINDING: property=%s %s [%s, %d cases]" % (self.pid, f["what"], f["key"], self.known_hit[f["key"]]))
        evidence["violations"] = len(self.failures)
        evidence["wall_s"] = round(time.time() - self.t0, 2)
        evidence.setdefault("coverage", {})["known_findings_hit"] = self.known_hit
        write_evidence(self.pid, evidence)
        if self.failures:
            os.makedirs(os.path.join(OUTROOT, "replays"), exist_ok=True)
            shown = {}
            for key, detail in self.failures:
                if key in shown:
                    shown[key] += 1
                    continue
                shown[key] = 1
                h = hashlib.sha1((key + json.dumps(detail, sort_keys=True, default=str)).encode()).hexdigest()[:10]
                path = os.path.join(OUTROOT, "replays", "%s-%s.json" % (self.pid, h))
                with open(path, "w") as fp:
                    json.dump({"property": self.pid, "key": key, "detail": detail}, fp, indent=1, default=str)
                print("VIOLATION property=%s replay=%s" % (self.pid, path))
                print("  key=%s" % key)
            sys.exit(1)
        sys.exit(0)


def write_evidence(pid, ev):
    os.makedirs(os.path.join(OUTROOT, "evidence"), exist_ok=True)
    ev = dict(ev)
    ev["property_id"] = pid
    ev.setdefault("seed", seed())
    with open(os.path.join(OUTROOT, "evidence", pid + ".json"), "w") as f:
        json.dump(ev, f, indent=1, default=str)


def write_ndjson(path, rows):
    with open(path, "w") as f:
        for r in rows:
            f.write(r if isinstance(r, str) else json.dumps(r))
            f.write("\n")


def read_ndjson(path):
    with open(path) as f:
        return [json.loads(x) for x in f if x.strip()]
