#!/usr/bin/env python3
"""Regenerates the seeded-change table of DESIGN.md (between the SEEDTABLE markers) from seeded/*/meta.json."""
import glob
import json
import os
import re

ROOT = os.path.dirname(os.path.dirname(os.path.abspath(__file__)))
rows = ["| seed | property | change (one line) | confirmed (applies / demo / suite) | caught by the quick check |", "|---|---|---|---|---|"]
for d in sorted(glob.glob(os.path.join(ROOT, "seeded", "*"))):
    mp = os.path.join(d, "meta.json")
    if not os.path.exists(mp):
        continue
    m = json.load(open(mp))
    c = m.get("confirmed", {})
    conf = "%s / %s / %s" % ("yes" if c.get("patch_applies") else "NO", "yes" if c.get("demo_fails_with_patch") and c.get("demo_passes_without_patch") else "NO",
                               "0 regressions" if c.get("baseline_regressions_with_patch") == 0 else "%s regressions" % c.get("baseline_regressions_with_patch"))
    summ = re.sub(r"\s+", " ", m.get("summary", "") or m.get("what", ""))[:150].replace("|", "/")
    vk = m.get("violation_keys", [])
    vk = [vk] if isinstance(vk, str) else vk
    keys = ", ".join(sorted(set(k.split(":")[0].split(" ")[0] for k in vk)))
    if not c:
        conf = "own change (reverts a repair), not from a sub-agent"
    # "superseded": the change no longer manifests / applies because a later repair of the repository changed the code it lives in
    oc = m.get("other_check") or {}
    if not m.get("detected_by_check") and oc.get("detected"):
        ok = ", ".join(sorted(set(k.split(":")[0] for k in oc.get("violation_keys", []))))
        m["superseded"] = None
        rows.append("| %s | %s | %s | %s | %s |" % (os.path.basename(d), m.get("property", ""), summ, conf, "by the %s check (its trigger lies outside what %s quantifies over): %s" % (oc["property"], m.get("property"), ok)))
        continue
    caught = ("yes: " + keys) if m.get("detected_by_check") else ("no longer applicable: " + m["superseded"]) if m.get("superseded") else "**no**"
    rows.append("| %s | %s | %s | %s | %s |" % (os.path.basename(d), m.get("property", ""), summ, conf, caught))
p = os.path.join(ROOT, "DESIGN.md")
s = open(p).read()
table = "<!-- SEEDTABLE-BEGIN -->\n" + "\n".join(rows) + "\n<!-- SEEDTABLE-END -->"
if "SEEDTABLE-BEGIN" in s:
    s = re.sub(r"<!-- SEEDTABLE-BEGIN -->.*?<!-- SEEDTABLE-END -->", lambda _: table, s, flags=re.S)
else:
    s = s.replace("SEEDTABLE", table, 1)
open(p, "w").write(s)
print(len(rows) - 2, "seeds")
