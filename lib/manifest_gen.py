#!/usr/bin/env python3
"""Regenerates /verif/MANIFEST.json from the table below (run by hand after editing)."""
import json
import os
import subprocess

ROOT = os.path.dirname(os.path.dirname(os.path.abspath(__file__)))
ALL = ["C%02d" % i for i in range(1, 21)]

CHECKS = {
    "C03": dict(technique="TLA+ value/encoding enumeration (TLC) + conformance replay into the codec + TLC trace validation with a reference decoder",
                design="4/C03",
                text="TLC enumerates the abstract value space of MC_Codec.tla (boundary classes of every AMQP type, nested compounds, every composite "
                     "field-presence pattern, message section layouts), checks the reference decoder against the reference encoders for all of it, and "
                     "emits each case; the real to_vec/from_slice run on every case and CodecTrace.tla judges the implementation's bytes with the reference "
                     "decoder and demands the round trip. Exhaustive over the palette, not over all bit patterns.",
                note="trusted: abstract->Value builder and Debug equality in the harness; TLC; palettes chosen in the spec"),
    "C05": dict(technique="TLA+ reference decoder/encoder family checked by TLC; spec-generated encoding variants replayed into the decoder; encoder output validated by TLC",
                design="4/C05",
                text="Encoder half: Dec(to_vec(x)) must be defined, consume everything and normalise to the abstract value (judged in TLC by a decoder written "
                     "from the AMQP specification). Decoder half: every spec-valid variant produced by Enc(v, mode) x descriptor form x trailing-null form must "
                     "decode to the same value. The oracle itself is model-checked (Dec o Enc = id for all modes) in the same run.",
                note="trusted: reference Dec/Enc in AmqpCodec.tla (cross-checked against each other by TLC), harness transcription"),
    "C04": dict(technique="TLA+-generated untrusted inputs (exhaustive short strings, all single-byte corruptions and truncations of seed encodings, nesting / huge-length families) run through 15 decoder entry points (incl. lazy values through the slice and the stream reader, and the input behind AMQP and SASL frame headers with data offsets 0, 1, 3, 64, 255) under panic / abort / allocation / CPU monitors; validity and meaning decided by the TLA+ reference decoder in TLC",
                design="4/C04",
                text="TLC enumerates the inputs of MC_Decode.tla; the harness decodes each through every public entry point in a restartable child with a 2 MiB "
                     "stack, a counting allocator and thread-CPU timing; DecodeTrace.tla (TLC) recomputes the reference verdict from the logged bytes and evaluates "
                     "C04_Total / C04_Alloc / C04_Cpu / C04_Idempotent / C04_AcceptsValid per record. Exhaustive for the generated space. An input on which the child dies (stack overflow, refused allocation) or exceeds "
                     "5 s of CPU (a watchdog ends the child) is run again through every entry point in a child of its own, so the record names the decoders that die: twelve nesting families (list, map, array, described with ulong / symbol / list values, mixed, message body) "
                     "at depths 8 .. 30 000; the open finding covers only the Value-building entry points from depth 1 000.",
                note="trusted: the monitors (catch_unwind + child exit status, counting allocator, CLOCK_THREAD_CPUTIME); bounds 2 KiB per input byte + 512 KiB and 2 s CPU are the weaker reading of 'out of proportion'"),
    "C06": dict(technique="TLC model check of the frame-splitting rule and of the stream reader over all partitions (Framing.tla, StreamDec.tla); TLC-generated frames / partitions replayed through the real Transport; written and decoded frames validated in TLC (FramingTrace.tla)",
                design="4/C06",
                text="MC: the splitting rule satisfies size <= max, contiguous slices, more flags and progress for every payload length 0..3*max+2 and every "
                     "combination of first / continuation / last performative lengths; the stream reader emits the original frames under every partition "
                     "(liveness under fairness). Conformance: ~1200 performative x channel x max-frame-size x payload-length cases are sent through "
                     "Transport's Sink and ~1400 partitions of a five-frame stream through its Stream; FramingTrace.tla decodes each performative with the "
                     "reference decoder and evaluates the same clauses on what the code wrote / read. Endpoint-level stage: single-frame deliveries of 300 .. 3000 bytes from a peer that advertised max-frame-size 512 to a live endpoint that advertised 4096 (the size in an open limits what its sender receives, not what it sends): they are decoded and handed over (C10_Exact, C10_NoSpuriousError, C12_NoSpontaneousError).",
                note="trusted: harness frame-header parser, performative extent finder and payload pattern; Transport is driven through its public bind / set_*_max_frame_size API"),
    "C07": dict(technique="inductive invariant of the unbounded counter model FlowInd.tla discharged by Apalache (base, step, safety; two refuted variants as negative controls); TLC model check of session flow control in serial arithmetic modulo 8 (SessionWin.tla, safety + leads-to) incl. the negative check of the code's deviation; TLC-enumerated send / flow / incoming-transfer scripts (SessGen.tla) executed lock-step against the real client for id spaces at 0, 2^31 and just below 2^32; traces validated by the TLA+ observer; plus long mixed histories sampled by TLC's simulation mode from a state-aware generator (MixGen.tla), executed and validated the same way",
                design="4/C07",
                text="MC: window safety w.r.t. the last processed flow, FIFO, no loss / duplication, accounting and drain (held frames leave once the window is known "
                     "open) for every interleaving of submit / emit / peer flow (any window 0..2, any reached next-incoming-id) and ids wrapping mod M. "
                     "Conformance: every script of depth 3 (thorough 4) over a 10-event alphabet x 3 (4) id spaces; the observer evaluates C07_WindowSafety, "
                     "C07_Fifo, C07_Accounting_Out/In per frame and C07_Drain at every quiescence point, in the strict (per-frame) reading and against the named "
                     "deviation model of the open finding. FlowInd.tla: the same rules over unbounded integers (any window, credit, number of frames) with an inductive invariant checked by Apalache. "
                     "Listener scripts include a flow that names a link the application has not accepted yet and reopens the window (FlowPend).",
                note="trusted: lock-step quiescence (a transfer that is not on the wire at Quiesce is held back); payload-to-message matching in the harness"),
    "C08": dict(technique="inductive invariant of the unbounded counter model FlowInd.tla discharged by Apalache (base, step, safety; two refuted variants as negative controls); TLC model checks: link-credit accounting in serial arithmetic (Credit.tla) and the implementation-shaped wait/notify race (CreditWake.tla, positive and negative variant); TLC-enumerated grant / drain / echo / send scripts (CreditGen.tla) executed lock-step, including scripts that park the sender at the cfg schedule point credit.after_failed_check while the grant is applied; traces validated by the TLA+ observer; plus long mixed histories sampled by TLC's simulation mode from a state-aware generator (MixGen.tla), executed and validated the same way",
                design="4/C08",
                text="MC: deliveries started never exceed the limit of the last processed flow, drain is answered, for all flow histories with wrapping counts; the wait for "
                     "credit always wakes when the future is created before the check and TLC refutes the check-then-create order (the run fails as a tool error if that "
                     "refutation disappears). Conformance: depth-3 (thorough 4) scripts over a 10-event alphabet for delivery-counts at 1000 and next to 2^32, plus hook scripts "
                     "replaying the dangerous interleaving against the real Consumer/Producer; C08_WithinCredit, C08_OnePerDelivery per frame, C08_Drain_Q / C08_Echo_Q / "
                     "C08_Wake at every quiescence point. Client scripts include detach-without-closing + resume with the receiver's grant written right behind its attach (DetResume).",
                note="trusted: the schedule-point facade (fe2o3-amqp/src/verif.rs, add-only, cfg-guarded); lock-step quiescence"),
    "C09": dict(technique="inductive invariant of the unbounded counter model FlowInd.tla discharged by Apalache (base, step, safety; two refuted variants as negative controls); TLC model check of link-credit arithmetic (Credit.tla); TLC-enumerated transfer / recv / dispose / set_credit / drain scripts (RecvGen.tla) against real client- and listener-attached receivers; traces validated by the TLA+ observer; plus long mixed histories sampled by TLC's simulation mode from a state-aware generator (MixGen.tla), executed and validated the same way",
                design="4/C09",
                text="Conformance: depth-3 (thorough 4) scripts over a 10-event alphabet for Auto(1), Auto(2)+auto-accept with the sender's delivery-count next to 2^32, Manual and a "
                     "listener-accepted link. Clauses: C09_FlowCount (reported delivery-count between deliveries handed over and deliveries arrived, from the sender's stated "
                     "count), C09_FlowCredit (set_credit(n) is announced as n), C09_FlowCreditAuto, C09_Enforced (deliveries handed to the application never outnumber the largest "
                     "limit announced), C09_Replenished_Q (Auto: with nothing held or queued the sender has credit left at every quiescence point), C09_TopUpUsable (credit is re-issued with the drain flag set only when the application asked for a drain).",
                note="weaker readings chosen where the text is ambiguous (see DESIGN.md 7): arrivals are counted when the link endpoint takes them in; enforcement is by count"),
    "C10": dict(technique="TLC model check of reassembly with omitted / repeated / contradictory continuation fields, aborts and a second interleaved link (Reasm.tla); TLC-generated fragmentations (RecvGen.tla, FragGen.tla: every 2-frame split offset, grid of 3-frame splits) replayed against the real receiver; traces validated by the TLA+ observer; plus long mixed histories sampled by TLC's simulation mode from a state-aware generator (MixGen.tla), executed and validated the same way",
                design="4/C10",
                text="MC: a delivery is produced exactly when its last frame arrives and equals the concatenation; abort produces nothing; a contradiction puts the link in error. "
                     "Conformance: C10_Exact (message identity, full byte equality of the re-encoded message, slices contiguous and complete), C10_NotBefore, C10_Abort, "
                     "C10_Contradiction, C11_Routing on every recv result. Second stage: the resource-side transaction scripts (TxnGen.tla: posts of one frame, of two frames with bare or with repeated continuation fields, "
                     "aborted, interleaved over two links, followed by plain deliveries) through a transactional listener session, judged by TxnTrace.tla for whole and ordered delivery (C18_CommitDelivers, C18_Order, C18_SpuriousRefusal, C18_Isolation).",
                note="trusted: message identification by message-id + full re-encoding comparison in the harness"),
    "C01": dict(technique="TLC model check of the delivery pipeline between Sender::send and Receiver::recv as six interleaved processes over bounded FIFOs with window and credit (E2E.tla: prefix safety, liveness under weak fairness, negative control for the buffered-before-current rule); TLC-generated covering configurations (E2EGen.tla) executed by a real client and a real listener talking through a byte tap that re-chunks both directions; recorded submit / recv / outcome order validated in TLC (E2ETrace.tla)",
                design="4/C01",
                text="MC: for 3-4 messages of 1-3 frames, windows 1-2, Auto(1-2), FIFO capacities 1-2, what recv has returned is always a prefix of what was submitted and eventually everything "
                     "arrives; TLC refutes the variant that lets the current transfer overtake buffered ones. Conformance: every configuration differing from the base in at most 2 (thorough 3) of "
                     "19 parameters incl. 1-3 concurrent links on 1-2 sessions, a link max-message-size and manual credit re-granted over queued deliveries (784 runs in the quick tier): C01_Order, C01_Once, C01_NotBeforeSent, C01_Routing, C01_Intact (byte-for-byte re-encoding incl. all sections) on every recv per link, C01_Delivers (nothing "
                     "stalls or is lost) and C01_Outcome (every send reports accepted exactly once) at the end.",
                note="schedules are sampled (chunk patterns, capacities, randomised select, multi-threaded runs in thorough), not enumerated; the capacity of the in-memory transport is not varied (DESIGN.md)"),
    "C02": dict(technique="TLC model check of sender-side settlement under arbitrary disposition histories (Settle.tla, safety + echo liveness); TLC-enumerated disposition / batchable-send / await scripts over two links (SettleGen.tla) and receiver-side disposal scripts (RecvGen.tla) executed lock-step; traces validated by the TLA+ observer; the link-resumption decision table (ResumeTable.tla, model-checked in Resume.tla) replayed cell by cell into the real resume_delivery through a cfg hook and compared by TLC (ResumeTrace.tla); plus long mixed histories sampled by TLC's simulation mode from a state-aware generator (MixGen.tla), executed and validated the same way",
                design="4/C02",
                text="MC: every send resolves at most once, with the first terminal state reported for its own delivery-id (pre-settled: accepted at once); settled deliveries leave the "
                     "unsettled map; in mode second every terminal unsettled disposition is eventually echoed. Conformance: C02_OwnOutcome on every send / await result, "
                     "C02_Echo_Q at quiescence, C02_NoEchoForUnknown / C02_EchoSettles on the EUT's sender-role dispositions, C02_RangeExact / C02_OwnState on its receiver-role "
                     "dispositions (ranges cover exactly deliveries the application disposed that way; unsettled in mode second). The settle modes in use are those stated by their owner (snd by the sender, rcv by the receiver), "
                     "also when the receiver answers a different rcv-settle-mode than was proposed. Resumption: Resume.tla (a link that breaks at any moment and is resumed once) shows the AMQP 2.6.13 table reports the receiver's outcome and never "
                     "retransmits after it; all 132 cells (local state x receiver's entry) are put to the real decision function: C02_ResumeOutcome.",
                note="the 'neither side retains the delivery' clause is checked on the model only (no accessor for the unsettled maps is used yet)"),
    "C11": dict(technique="TLC model check of handle allocation / release and serial delivery-ids (Ids.tla); lifecycle, link-split and receive scripts (LifeGen, SessGen, RecvGen) executed lock-step; traces validated by the TLA+ observer; plus long mixed histories sampled by TLC's simulation mode from a state-aware generator (MixGen.tla), executed and validated the same way",
                design="4/C11",
                text="MC: smallest-free allocation with release at the endpoint's own detach keeps handles unique, names attached once, frames only on held handles, delivery-ids "
                     "serially increasing across wrap-around and continuation ids equal to the delivery's. Conformance: C11_ChannelUnique, C11_HandleUnique, C11_NameOnce, "
                     "C11_DeliveryIdIncreasing, C11_ContinuationId on every EUT frame, C11_Routing on every recv result, with sparse peer handles (70000+) and re-attach after detach.",
                note="peer-chosen channel / handle numbers come from the script constants, not from an exhaustive range"),
    "C13": dict(technique="TLC model check of the session / link handshake state machines against an arbitrary peer and application (LinkLife.tla, safety + end-reply liveness); TLC-enumerated lifecycle macro-event scripts (LifeGen.tla) executed lock-step; traces validated by the TLA+ observer; plus long mixed histories sampled by TLC's simulation mode from a state-aware generator (MixGen.tla), executed and validated the same way",
                design="4/C13",
                text="MC: one end at most and nothing after it, detaches never outnumber attaches, attach only when detached, peer end ~> end. Conformance: C13_EndAtMostOnce, "
                     "C13_NothingAfterEnd, C13_NothingAfterDetach, C13_DetachAtMostOncePerAttach, C13_DetachInKind per frame; C13_EndReply_Q, C13_DetachReply_Q at quiescence; "
                     "C13_TeardownWaits, C13_PeerError on teardown / data-path results; C13_Flush when a detach / end overtakes queued sends; C13_ClosingInKind_Q (a non-closing detach met by the peer's closing one: re-attach, then a closing detach). "
                     "Scripts include a handle dropped and another link attached in the same scheduler turn (DropReatt1).",
                note="client side only so far; listener-side lifecycles are exercised through the C12 and RecvGen scripts"),
    "C12": dict(technique="TLC model check of the 2.4.6 connection state machine (ConnLife.tla, safety + leads-to under fairness); TLC-enumerated event scripts (ConnGen.tla) executed lock-step against the real client and listener; recorded traces validated by the TLA+ observer (Endpoint.tla / EndpointTrace.tla)",
                design="4/C12",
                text="MC: header first, one open before anything else, at most one close, nothing after it, no action on frames outside OPENED, peer close ~> close "
                     "hold for every interleaving of the modelled endpoint with an arbitrary peer and application (pipelined states and DISCARDING included). "
                     "Conformance: all event sequences up to depth 4 (thorough 5) over a 16-event alphabet, ~10 400 scripts per run, client and listener, are run against "
                     "the real engines on a paused clock; every frame / call / quiescence point is judged by the observer's C12_* clauses.",
                note="trusted: harness frame parser and lock-step quiescence detection; error *classes* compared, not exact variants"),
    "C14": dict(technique="TLC model check of the stop-reason publication order and of pending waits (StopReason.tla: positive, refuted wrong order, reproduced open finding); TLC-enumerated cut point x failure kind x pending call scripts (FailGen.tla) executed lock-step on client and listener; traces validated by the TLA+ observer",
                design="4/C14",
                text="MC: with 'reason, then close' every waiter that observes the closure finds the reason and every channel-blocked operation returns; TLC refutes 'close, then reason' and "
                     "shows that a wait on a one-shot the application keeps alive never returns (the open finding). Conformance: 382 scripts; C14_Completes (no call pending on a stopped "
                     "scope after 1 h of virtual time), C14_DataPathErr, C14_Level (error names connection vs session), C14_PeerCondition, C14_ConnHandle, C14_TasksEnd (alive tasks = "
                     "pending calls after all handles are dropped). Faults include the refusal of a pending sender attach (attach without target + closing detach with an error).",
                note="cut points are frame / step boundaries plus one partial frame, not every byte offset; error scopes are recognised from the error's Debug rendering"),
    "C15": dict(technique="TLC-enumerated catalogue x state x side scripts (HostileGen.tla) executed lock-step under panic / spin / CPU / allocation monitors; traces validated by the TLA+ observer, whose legality classification of peer frames decides what must be answered by a shutdown",
                design="4/C15",
                text="35 hostile events (malformed frame headers and bodies, protocol violations) x 6 endpoint states x client / listener, plus 5 floods of 400 - 4 800 legal frames against single-slot internal channels (each three times) = 482 scripts, each followed by a probe. Clauses: "
                     "C15_NoPanic (panic hook count, per quiescence point), C15_Quiesces (a settle that never returns = spin, watchdog), C15_Cpu (<= 2 s thread CPU per step), C15_Alloc "
                     "(<= 64 MiB peak growth per step), C15_IllegalHandled (a frame the observer classifies as illegal is answered by a close / end / detach carrying an error or by "
                     "tearing the transport down), C15_NoHang (no probe call is left pending at the end). Further state `resuming`: a sender with an unsettled delivery is being resumed and the peer's attach carries a hostile unsettled map "
                     "(positions beyond the message, unknown tags, 300 of them, states no receiver can be in, the incomplete flag); state `resumingR`: the same for a receiving link that holds an accepted, not yet settled delivery, plus resuming transfers nobody asked for (unknown tag, aborted, a second copy); begins on channels above the agreed channel-max.",
                note="model check: the connection state machine (ConnLife.tla) shows that closing on an illegal frame is compatible with C12; 'other connections unaffected' is not exercised yet"),
    "C16": dict(technique="TLC model check of recv / send as program-counter machines with a Cancel action at every await (Cancel.tla, incl. the refuted buffer-in-future variant); TLC-enumerated cancellation scripts (CancelGen.tla) executed lock-step with capacity-1 channels and a tiny transport pipe so that sends suspend at internal awaits; traces validated by the TLA+ observer; plus long mixed histories sampled by TLC's simulation mode from a state-aware generator (MixGen.tla), executed and validated the same way",
                design="4/C16",
                text="MC: with the reassembly buffer owned by the link, completed recvs return exactly the deliveries sent whatever is cancelled; enqueued transfers are unique and ordered. "
                     "Conformance: recv side depth 4 (thorough 5-6) over {recv, cancel, 1-frame, 2-frame halves}, send side depth 3 (4) over 10 events incl. sends cancelled after 30 scheduler "
                     "turns: C10_Exact / C10_NotBefore on every recv result, C16_NoLoss and C16_NeverPartial at the end, C16_LaterIntact / C07_Fifo / C11_ContinuationId per frame, "
                     "C08_Wake (not starved of credit) at quiescence. Parked part: a send frozen after its first poll behind a full link-to-session channel (poll-limited future) while a grant or a settlement of an older delivery is processed, then dropped; "
                     "a multi-frame send dropped between its frames; the sends that follow live on the credit granted meanwhile; the outcomes of all earlier batchable sends are awaited (C02_OwnOutcome / C02_Resolves_Q: a cancelled send corrupts no other delivery).",
                note="cancellation points are those a script can reach between scheduler turns, not every poll of the future"),
    "C18": dict(technique="TLC model check of the resource-side transaction pipeline at the implementation's grain (Txn.tla: wire -> session engine -> coordinator task -> session control queue; isolation, atomicity, discharge-once; the wire-order variant as oracle and the deferred variant refuted for late posts as a negative control); TLC-enumerated controller behaviours played against a real listener with a control-link acceptor (TxnGen.tla) and TLC-enumerated application behaviours of the real controller (OwnedTransaction) against a scripted coordinator (TxnCtlGen.tla); traces validated in TLC against the sequential reading (TxnTrace.tla)",
                design="4/C18",
                text="MC: posts of a live transaction are never visible, a committed transaction's posts appear as one block in posting order, rolled back / aborted ones never, each id is "
                     "discharged once, for all interleavings of controller, engine and coordinator steps (2 transactions, 3 messages, 6 frames). Conformance, resource side: depth 3 "
                     "(thorough 4) over 15 (18) events with 0-2 transactions declared beforehand: C18_Isolation / C18_Atomic / C18_Refused / C18_Order on every recv result, "
                     "C18_CommitDelivers at the end, C18_DischargeReply and C18_FreshId on every control-link reply, C18_RefusalSignalled for posts under unknown or finished ids, "
                     "C18_LatePost for the back-to-back schedule. Controller side: depth 4 (6) over declare / post / commit / rollback / drop with accepting and rejecting coordinator: "
                     "C18_PostCarriesId, C18_DischargeWire (id and fail flag), C18_OutcomeReported. Posts of two frames come with bare and with repeated continuation fields (PostBigS0) and interleaved over two links of one transaction (Interleave0).",
                note="retirement is exercised for one delivery the resource sends (C18_RetireIsolated: its send resolves only once the transaction has committed; C18_RetireApplied); transactional acquisition is not exercised; the receiving application is one recv loop per link"),
    "C19": dict(technique="TLC model check of the SASL negotiation machines of both roles against a Dolev-Yao adversary with symbolic SCRAM terms (Sasl.tla: no authentication without the password, authentication needs a password-derived term, a non-OK outcome never authenticates; negative reachability controls); the same adversary's frame sequences enumerated by TLC as scripts (SaslGen.tla), turned into real bytes by an independent RFC 5802 implementation in the harness and played against the real ConnectionAcceptor / Connection::open; traces validated in TLC against the ideal machines (SaslTrace.tla)",
                design="4/C19",
                text="MC: for listener PLAIN / SCRAM and client SCRAM, an adversary whose alphabet excludes every term built from the password never drives the ideal machine to 'amqp' "
                     "(4-5 frames, deep palettes); with the password it can (negative control). Conformance: every adversary sequence up to the bound for listener PLAIN / ANONYMOUS / "
                     "SCRAM-SHA-256 (thorough: SHA-1, SHA-512, deep palettes) and client SCRAM / PLAIN / ANONYMOUS, each followed by an attempt to continue with AMQP and EOF. Clauses: "
                     "C19_NoOpenWithoutAuth (OK outcome, AMQP header, AMQP frame or accept()=Ok only when the ideal listener is authenticated), C19_ClientMutual / C19_NonOkIsFailure (the "
                     "client sends the AMQP header / open or returns Ok only after a valid server signature over the actual exchange with an extending nonce and an OK code), "
                     "C19_BothFail (a refused exchange makes accept()/open() return an error), C19_NoPanic / C19_NoHang. Runs without any authenticated or refused exchange are tool errors. Replay: Replay.tla (a proof recorded in one exchange does not fit another as long as the server nonce is drawn per exchange; refuted for a nonce drawn once per listener) and `vh replay`: an honest login at a real listener is recorded and written to a second connection of the same listener, which must stay closed for SCRAM (PLAIN opens: the control) -- C19_NoReplay.",
                note="trusted: harness/src/scram.rs (descriptor -> bytes; written from RFC 5802 with the hash crates, shares no code with fe2o3-amqp) and the symbolic-crypto assumption; "
                     "the endpoint may be stricter than the ideal machine; mechanism-name mismatches with otherwise valid credentials and iteration-count 0 are left undecided (DESIGN.md)"),
    "C17": dict(technique="TLC model check of channel allocation under the agreed channel-max and of heartbeat / idle time-out over a discrete clock (Limits.tla); TLC-generated channel-max pairs and timing scripts (LimitsGen.tla) executed on the paused tokio clock with 10 ms virtual steps; traces validated by the TLA+ observer",
                design="4/C17",
                text="MC: no begin above Min(local, remote); with remote time-out T a frame is written at least every T ticks; with local time-out L the endpoint is down exactly when nothing "
                     "arrived for L ticks. Conformance: every pair from {0,1,2,5} (thorough + 3, 65535) with begins up to two beyond the limit, an end and two more begins; every sequence "
                     "up to depth 3 (4) of advances 150 / 190 / 230 / 650 ms, peer empty frames and endpoint traffic for local / remote / both time-outs of 200 ms: C17_ChannelMax, "
                     "C17_RefusedLocally, C17_NotRefusedEarly, C17_Heartbeat (exact virtual timestamps), C17_LocalTimeoutFires, C17_NoEarlyTimeout, C17_TimeoutReported.",
                note="time-stamps are exact up to the 10 ms step of the virtual clock; the endpoint advertises half its configured time-out, the configured value is what is checked"),
    "C20": dict(technique="TLC-generated values and encodings; slice/reader/size/value-tree entry points compared by the harness, tree and bytes judged by the TLA+ decoder",
                design="4/C20",
                text="For every generated case: serialized_size = |to_vec|; from_slice and from_reader (chunk sizes 1,2,3,7,16,whole) agree and stop at the "
                     "end of the value for several tails; to_value's tree is logged in abstract form and must denote the same abstract value as the bytes "
                     "(Norm equality in TLC); from_value(to_value(x)) = x.",
                note="trusted: chunked reader and tail bookkeeping in the harness"),
}

NOT_YET = "check not built yet (the specification and harness for it are still under construction)"


def main():
    commits = subprocess.run(["git", "-C", "/repo", "log", "--format=%h %s", "--grep", "^verif-hook:"], stdout=subprocess.PIPE, text=True).stdout.split("\n")
    m = {
        "version": 1,
        "setup_cmd": "bin/vsetup",
        "hooks": {
            "guard": "cfg(fe2o3_amqp_verif)",
            "enable": "rustflags --cfg fe2o3_amqp_verif in /verif/harness/.cargo/config.toml (the harness is the only build that sets it)",
            "baseline_off_cmd": "cd /repo && cargo test --workspace --no-fail-fast --offline",
            "source_commits": [c.split(" ")[0] for c in commits if c.strip()],
            "add_only": True,
        },
        "engines": [{"name": "vcheck", "path": "bin/vcheck", "serves_properties": sorted(CHECKS),
                     "kind_free_text": "TLC model checking + TLC-generated cases executed by the Rust harness (vh) + TLC trace validation"}],
        "checks": [],
        "not_applicable": [{"property_id": p, "reason": NOT_YET} for p in ALL if p not in CHECKS],
        "notes": "Every check: bin/vcheck <ID> <tier>. Exit 2 = tool error (never a VIOLATION). See DESIGN.md.",
    }
    for p in sorted(CHECKS):
        c = CHECKS[p]
        m["checks"].append({
            "property_id": p,
            "quick_cmd": "bin/vcheck %s quick" % p,
            "thorough_cmd": "bin/vcheck %s thorough" % p,
            "evidence_file": "evidence/%s.json" % p,
            "replay_cmd_template": "bin/vcheck %s quick --replay {path}" % p,
            "engine": "vcheck",
            "level_claimed": {"category": "model_checking", "text": c["text"], "design_ref": c["design"]},
            "level_note": c["note"],
            "technique": c["technique"],
        })
    with open(os.path.join(ROOT, "MANIFEST.json"), "w") as f:
        json.dump(m, f, indent=1)


main()
